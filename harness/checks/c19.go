package checks

import (
	"bytes"
	"encoding/hex"
	"encoding/json"
	"fmt"
	"math/rand"
	"sort"

	"github.com/vektah/gqlparser/v2/ast"
	"github.com/vektah/gqlparser/v2/parser"

	"verif/harness/core"
	"verif/harness/tlc"
)

func init() {
	Registry["C19"] = checkC19
	Replays["C19"] = func(c *core.Ctx, p string) int { return grammarReplay(c, p, jsonBind()) }
}

// parse, encode to JSON, decode, project: what a service that ships parsed
// documents between processes observes.
func jsonRoundTrip(src string) (before, after []GT, doc *ast.QueryDocument, ok bool, crash string) {
	defer func() {
		if r := recover(); r != nil {
			crash = fmt.Sprintf("panic: %v", r)
		}
	}()
	d, err := parser.ParseQuery(&ast.Source{Input: src, Name: "q"})
	if err != nil {
		return nil, nil, nil, false, ""
	}
	b, err := json.Marshal(d)
	if err != nil {
		return nil, nil, nil, false, "json.Marshal: " + err.Error()
	}
	var d2 ast.QueryDocument
	if err := json.Unmarshal(b, &d2); err != nil {
		return nil, nil, nil, false, "json.Unmarshal of the library's own encoding: " + err.Error()
	}
	// the same JSON value in other spellings - indented, and with the members of every object in another
	// order (as any JSON tool between two processes may write it) - must decode to the same document
	want := gtListString(ProjectQuery(&d2))
	for _, alt := range jsonRespellings(b, len(src)) {
		var d3 ast.QueryDocument
		if err := json.Unmarshal(alt.text, &d3); err != nil {
			return nil, nil, nil, false, "json.Unmarshal of the " + alt.name + " encoding: " + err.Error()
		}
		if got := gtListString(ProjectQuery(&d3)); got != want {
			// report it as the round trip result: the comparison with the original tree shows the difference
			return ProjectQuery(d), ProjectQuery(&d3), d, true, ""
		}
	}
	return ProjectQuery(d), ProjectQuery(&d2), d, true, ""
}

func jsonBind() *GrammarBind {
	gb := queryBind()
	gb.Prop = "C19"
	gb.Parse = func(src string) ([]GT, bool, string) {
		_, after, _, ok, crash := jsonRoundTrip(src)
		return after, ok, crash
	}
	return gb
}

type keyset struct {
	Kind string   `json:"kind"`
	Keys []string `json:"keys"`
}

func selectionKeysets(ss ast.SelectionSet, out *[]keyset) {
	for _, s := range ss {
		b, err := json.Marshal(s)
		if err != nil {
			continue
		}
		var m map[string]json.RawMessage
		json.Unmarshal(b, &m)
		ks := keyset{Keys: []string{}}
		for k := range m {
			ks.Keys = append(ks.Keys, k)
		}
		sort.Strings(ks.Keys)
		switch s := s.(type) {
		case *ast.Field:
			ks.Kind = "field"
			*out = append(*out, ks)
			selectionKeysets(s.SelectionSet, out)
		case *ast.FragmentSpread:
			ks.Kind = "spread"
			*out = append(*out, ks)
		case *ast.InlineFragment:
			ks.Kind = "inline"
			*out = append(*out, ks)
			selectionKeysets(s.SelectionSet, out)
		}
	}
}

func checkC19(c *core.Ctx) {
	c.Rule = "documents are (a) every derivable token sequence of the QueryGrammar_MC graph up to the bound and a shortest sentence through every transition of the larger graph: parse, json.Marshal, json.Unmarshal, project, and compare with the tree denoted by the SPECIFICATION's events; (b) generated document trees to depth 6 with all three selection kinds in all orders, whose before/after trees and real per-selection JSON key sets are validated by JsonCodec_Trace. Non-trivial = documents that contain a fragment spread or inline fragment or nesting >= 2"
	c.Assumptions = []string{"projection ast.QueryDocument -> generic tree trusted (checks/gtree.go)", "positions and comments are not part of the statement and not compared"}
	r := c.RunTLC(tlc.Opts{Module: "JsonCodec_MC", CfgFile: "JsonCodec_MC.cfg", Workers: 4})
	tlc.Cleanup(r)
	if c.HasInternal() {
		return
	}
	gb := jsonBind()
	devs := grammarDevs(c, map[string]bool{"EmptyDocument": true}, parseQueryReal)
	maxTok, cover, ndocs := 6, 12, 1500
	if c.Thorough() {
		maxTok, cover, ndocs = 7, 16, 40000
	}
	g, cleanup := gb.RunGrammarGraph(c, devs, maxTok, "Nesting ConstNoVar TypeOK")
	if g != nil {
		st := gb.WalkGrammarGraph(c, g, maxTok, 16)
		reportGrammar(c, st, fmt.Sprintf("JSON round trip, all paths <= %d tokens", maxTok))
	}
	cleanup()
	if c.HasInternal() {
		return
	}
	g, cleanup = gb.RunGrammarGraph(c, devs, cover, "Nesting ConstNoVar TypeOK")
	if g != nil {
		st := gb.TransitionCover(c, g)
		reportGrammar(c, st, fmt.Sprintf("JSON round trip, transition cover of the <= %d-token graph", cover))
	}
	cleanup()
	if c.HasInternal() {
		return
	}
	// generated documents, deeper
	rng := rand.New(rand.NewSource(c.Seed*15485863 + 19))
	gen := &QGen{MaxDepth: 6}
	var lines [][]byte
	var events []int64
	texts := map[int]string{}
	var nontrivial int64
	hand := handJSONDocs()
	var reused ast.QueryDocument
	prevText, nreuse := "", 0
	for i := 0; i < ndocs+len(hand); i++ {
		var text string
		if i < len(hand) {
			text = hand[i]
		} else {
			gen.R = rng
			gen.Unicode = i%2 == 0
			doc := gen.Doc()
			text = RenderSpaces(UnparseQuery(doc, rng))
		}
		before, after, d, ok, crash := jsonRoundTrip(text)
		if crash != "" {
			c.Violation(fmt.Sprintf("generated document %q: %s", text, crash), GrammarMismatch{Kind: "crash", Text: text, Observed: crash})
			continue
		}
		if !ok {
			if i < len(hand) {
				c.Internal("hand-written document does not parse: %q", clip(text, 300))
				// (keep going: a violation found on the remaining cases takes precedence over this)
				continue
			}
			continue
		}
		// a decoder value that is used again (a json.Decoder reading a stream of documents into one variable):
		// what an earlier document left behind must not show in a later one
		if b2, err := json.Marshal(d); err == nil {
			if err := json.Unmarshal(b2, &reused); err != nil {
				c.Violation(fmt.Sprintf("decoding %q into a document value that held another document before: %v", text, err), GrammarMismatch{Kind: "crash", Text: text, Observed: err.Error()})
			} else if got, want := gtListString(ProjectQuery(&reused)), gtListString(after); got != want {
				nreuse++
				if nreuse <= 5 {
					c.Violation(fmt.Sprintf("decoding %q into a document value that held %q before gives %s, a fresh value gives %s", text, prevText, got, want),
						GrammarMismatch{Kind: "tree", Source: "decode into a reused value", Text: text, Expected: want, Observed: got})
				}
			}
			prevText = text
		}
		var ks []keyset
		for _, op := range d.Operations {
			selectionKeysets(op.SelectionSet, &ks)
		}
		for _, f := range d.Fragments {
			selectionKeysets(f.SelectionSet, &ks)
		}
		if ks == nil {
			ks = []keyset{}
		}
		for _, k := range ks {
			if k.Kind != "field" {
				nontrivial++
				break
			}
		}
		b, _ := json.Marshal(map[string]any{"id": i, "before": gtHex(gtNorm(before)), "after": gtHex(gtNorm(after)), "keysets": ks})
		lines = append(lines, b)
		events = append(events, int64(len(ks)))
		texts[i] = text
		if i < 2 {
			c.Sample(map[string]any{"source": "generated document, JSON round trip validated by JsonCodec_Trace", "text": text, "selections": len(ks)})
		}
	}
	bad, ok := RunTrace(c, TraceJob{Module: "JsonCodec_Trace", CfgText: "SPECIFICATION Spec\nCHECK_DEADLOCK FALSE\n", Lines: lines, Events: events, Shards: 12})
	if ok {
		c.Count(int64(len(lines)), nontrivial, int64(len(lines)))
		c.Logf("JsonCodec_Trace: %d generated documents validated, %d disagreements", len(lines), len(bad))
		for _, raw := range bad {
			var b struct {
				ID    int    `json:"id"`
				Class string `json:"class"`
			}
			json.Unmarshal(raw, &b)
			text := texts[b.ID]
			before, after, _, _, _ := jsonRoundTrip(text)
			c.Violation(fmt.Sprintf("JsonCodec_Trace %s: text %q: before %s, after JSON round trip %s", b.Class, text, gtListString(before), gtListString(after)),
				GrammarMismatch{Kind: "tree", Source: "JsonCodec_Trace", Text: text, Expected: gtListString(opsBeforeFrags(before)), Observed: gtListString(after)})
		}
	}
}

type jsonAlt struct {
	name string
	text []byte
}

// jsonRespellings: one alternative spelling per call (chosen by k), to keep the exhaustive replays cheap
func jsonRespellings(b []byte, k int) []jsonAlt {
	switch k % 3 {
	case 0:
		var buf bytes.Buffer
		if json.Indent(&buf, b, "", "  ") == nil {
			return []jsonAlt{{"indented", buf.Bytes()}}
		}
	case 1:
		var v any
		dec := json.NewDecoder(bytes.NewReader(b))
		dec.UseNumber()
		if dec.Decode(&v) == nil {
			if out, err := json.Marshal(v); err == nil { // encoding/json writes map members in sorted key order
				return []jsonAlt{{"re-ordered", out}}
			}
		}
	}
	return nil
}

// gtHex: leaf texts that are not plain ASCII travel to the specification as the hexadecimal form of their BYTES
// (a JSON string cannot carry every byte sequence; two values are equal exactly when their bytes are)
func gtHex(a []GT) []GT {
	out := make([]GT, len(a))
	for i, n := range a {
		out[i] = GT{T: n.T, V: n.V, K: gtHex(n.K)}
		for j := 0; j < len(n.V); j++ {
			if n.V[j] >= 0x7f || n.V[j] < 0x20 {
				out[i].V = "hex:" + hex.EncodeToString([]byte(n.V))
				break
			}
		}
	}
	return out
}

// handJSONDocs: every tricky string value in every spelling, at every place a document holds a value, and block
// strings written directly whose lines are indented with a mix of blanks, tabs and Unicode spaces
func handJSONDocs() []string {
	var out []string
	for _, v := range trickyStrings {
		for _, sp := range stringSpellings(v) {
			out = append(out, "query Q($v: String = "+sp+" @d(x: ["+sp+"])) { f(a: {k: "+sp+"}) @e(s: "+sp+") ... @i(s: "+sp+") { g } ...F @s(s: "+sp+") } fragment F on T @fd(s: "+sp+") { h(a: "+sp+") }")
		}
	}
	// type references with non-null at every level of nesting
	out = append(out, "query($a: [[Int]!], $b: [[[ID!]!]!]!, $c: [[Int!]]!, $d: [[[T]]!], $e: [T!], $f: [[T]!]!) { f }", "fragment F($a: [[Int]!] = [[1]], $b: [[T!]!]) on T { f }")
	for _, body := range []string{"x\n\u3000a\n b", "\n\u00a0a\n\tb\n  c", "x\n\u2003\u2003a\n\u2003b\n c", "\n  \u3000a\n  b\n", "x\n\u00a0\n \u00a0y"} {
		out = append(out, "{ f(a: \"\"\""+body+"\"\"\") }")
	}
	return out
}
