package checks

import (
	"bytes"
	"context"
	"fmt"
	"os"
	"os/exec"
	"runtime"
	"strings"
	"time"
)

// Crash-isolated execution: a Go fatal error (stack exhaustion) cannot be
// recovered in-process, so risky cases run in a child process of the same binary.

var workers = map[string]func(args []string) int{}

func WorkerMain(args []string) int {
	if len(args) == 0 {
		return 2
	}
	f, ok := workers[args[0]]
	if !ok {
		fmt.Fprintln(os.Stderr, "unknown worker", args[0])
		return 2
	}
	startMemoryGuard(3 << 30)
	return f(args[1:])
}

// startMemoryGuard: a child that runs the real code on hostile input must not
// take the machine down when a defect makes it allocate without bound (the
// sandbox has no memory limit). Past the budget the child says so and dies;
// the parent attributes the death to the input that was being processed.
func startMemoryGuard(limit uint64) {
	go func() {
		var ms runtime.MemStats
		for {
			time.Sleep(100 * time.Millisecond)
			runtime.ReadMemStats(&ms)
			if ms.HeapAlloc > limit {
				fmt.Fprintf(os.Stderr, "MEMORY-BUDGET: heap of %d MiB exceeds the worker's budget of %d MiB\n", ms.HeapAlloc>>20, limit>>20)
				os.Exit(3)
			}
		}
	}()
}

type WorkerResult struct {
	Stdout   []byte
	Crashed  bool // non-zero exit, signal or fatal error
	TimedOut bool
	Stderr   string
	Wall     time.Duration
}

func RunWorker(timeout time.Duration, stdin []byte, args ...string) WorkerResult {
	exe, err := os.Executable()
	if err != nil {
		return WorkerResult{Crashed: true, Stderr: err.Error()}
	}
	ctx, cancel := context.WithTimeout(context.Background(), timeout)
	defer cancel()
	cmd := exec.CommandContext(ctx, exe, append([]string{"__worker"}, args...)...)
	var out, errb bytes.Buffer
	cmd.Stdout = &out
	cmd.Stderr = &errb
	if stdin != nil {
		cmd.Stdin = bytes.NewReader(stdin)
	}
	start := time.Now()
	err = cmd.Run()
	r := WorkerResult{Stdout: out.Bytes(), Wall: time.Since(start)}
	if ctx.Err() != nil {
		r.TimedOut = true
	}
	if err != nil {
		r.Crashed = true
		e := errb.String()
		if len(e) > 1500 {
			// keep the head of the Go fatal error / panic report
			e = e[:1500]
		}
		r.Stderr = strings.TrimSpace(e)
		if r.Stderr == "" {
			r.Stderr = err.Error()
		}
	}
	return r
}
