package checks

import (
	"encoding/json"
	"fmt"
	"math/rand"
	"os"

	"verif/harness/core"
	"verif/harness/tlc"
)

func init() {
	Registry["C03"] = func(c *core.Ctx) { lexerCheck(c, "tokens") }
	Registry["C04"] = func(c *core.Ctx) {
		if os.Getenv("VERIF_C04_ONLYPOS") == "" { // debugging aid: skip the token half
			lexerCheck(c, "position")
		} else {
			lastLexDevs = LexerDevs(c)
		}
		if !c.HasInternal() {
			positionsCheck(c, lastLexDevs)
		}
	}
	Replays["C03"] = lexReplay
	Replays["C04"] = lexReplay
}

// lexer string-body alphabet: " \ u 0 A n x LF é , (comma completes the ignored class)
var lexSigmaStr = []int{34, 92, 117, 48, 65, 110, 120, 10, 233, 44}

// block-string body alphabet: a SP LF CR " \
var lexSigmaBlock = []int{97, 32, 10, 13, 34, 92}

var lastLexDevs []string

type lexTraceCase struct {
	ID   int   `json:"id"`
	In   []int `json:"in"`
	Toks []Tok `json:"toks"`
	Err  bool  `json:"err"`
}

// lexerCheck is shared by C03 (class "tokens": kinds, extents, values,
// failure point) and C04 (class "position": line and column of every token).
func lexerCheck(c *core.Ctx, class string) {
	c.Rule = "inputs are (a) every path of the TLC state graph of Lexer_MC (all strings up to the bound over the alphabet), (b) every case printed by Lexer_Cases (block-string bodies), (c) seeded random long inputs validated by Lexer_Trace; an input is non-trivial when the specification expects at least two tokens before EOF or an error after at least one token; distinct by construction (paths of a deterministic graph) or by input text (random)"
	c.Assumptions = []string{
		"the projection of lexer.Token to [kind,start,end,line,column,value-as-code-points] is trusted",
		"the TLA+ module Lexer.tla is the reading of the October 2021 lexical grammar used as oracle (source characters are U+0009, U+000A, U+000D and everything from U+0020 up; surrogate escapes excluded)",
		"valid UTF-8 inputs only (invalid UTF-8 belongs to C01)",
	}
	devs := LexerDevs(c)
	lastLexDevs = devs
	c.SetExtra("deviations_enabled", devs)

	// design-level theorems on the model itself (strict grammar, history variables)
	mchLen := 3
	if c.Thorough() {
		mchLen = 4
	}
	r := c.RunTLC(tlc.Opts{Module: "Lexer_MCH", Workers: 8, Heap: "6g",
		CfgText: fmt.Sprintf("SPECIFICATION Spec\nCONSTANTS\n  Devs = {}\n  Sigma = {97, 101, 117, 95, 48, 49, 45, 46, 34, 92, 35, 32, 10, 13, 65279, 123, 63, 1, 233}\n  MaxLen = %d\nINVARIANTS FoldAgrees FoldAgreesErr TokenPos Tiling EofCovers MaximalMunch Values\nCHECK_DEADLOCK FALSE\n", mchLen)})
	tlc.Cleanup(r)
	if c.HasInternal() {
		return
	}
	c.Logf("Lexer_MCH (strict grammar theorems, MaxLen=%d): %d distinct states", mchLen, r.Distinct)

	report := func(st *lexWalkStats, source string) {
		if st == nil {
			return
		}
		c.Count(st.Inputs, st.Nontrivial, st.Inputs)
		c.AddExtraInt("mismatches_other_class", 0)
		for _, m := range st.Mismatches {
			if what, ok := m.Classes[class]; ok {
				c.Violation(fmt.Sprintf("%s: input %q: %s", source, fromCps(m.Input), what), m)
			}
		}
		for k, v := range st.NMismatch {
			if k != class {
				c.AddExtraInt("mismatches_other_class", v)
			}
		}
	}

	// (a) main alphabet, all paths
	maxLen := 5
	if c.Thorough() {
		maxLen = 6
	}
	st := RunLexGraph(c, devs, lexSigma19, maxLen)
	if st != nil {
		c.Logf("main alphabet: %d inputs replayed, mismatches %v", st.Inputs, st.NMismatch)
		c.Sample(map[string]any{"source": "Lexer_MC graph path", "alphabet": "a e u _ 0 1 - . \" \\ # SP LF CR BOM { ? U+0001 é", "max_len": maxLen, "inputs": st.Inputs})
	}
	report(st, "Lexer_MC")

	// string-body alphabet, all paths
	strLen := 6
	if c.Thorough() {
		strLen = 7
	}
	st = RunLexGraph(c, devs, lexSigmaStr, strLen)
	if st != nil {
		c.Logf("string alphabet: %d inputs replayed, mismatches %v", st.Inputs, st.NMismatch)
	}
	report(st, "Lexer_MC(strings)")

	// (b) block-string bodies with values
	blkLen := 5
	if c.Thorough() {
		blkLen = 7
	}
	st = RunLexCases(c, devs, lexSigmaBlock, blkLen, "Q3", "Q3")
	if st != nil {
		c.Logf("block-string bodies: %d cases, mismatches %v", st.Inputs, st.NMismatch)
		c.Sample(map[string]any{"source": "Lexer_Cases", "shape": "\"\"\" body \"\"\" with body over {a,SP,LF,CR,\",\\}", "max_body": blkLen, "cases": st.Inputs})
	}
	report(st, "Lexer_Cases(block)")

	// every \uXXXX escape over six hex digits (no surrogates), with its decoded value
	st = RunLexCases(c, devs, []int{48, 49, 56, 65, 70, 102}, 4, "QBsU", "Q1")
	if st != nil {
		c.Logf("unicode escapes: %d cases, mismatches %v", st.Inputs, st.NMismatch)
	}
	report(st, "Lexer_Cases(\\u escapes)")

	// (c) random long inputs, validated by TLC
	nrand := 1500
	if c.Thorough() {
		nrand = 30000
	}
	rng := rand.New(rand.NewSource(c.Seed*7919 + 3))
	var lines [][]byte
	var events []int64
	inputs := map[int]string{}
	seen := map[string]bool{}
	var nontrivial int64
	structured := StructuredLexInputs()
	for i := 0; i < nrand+len(structured); i++ {
		var in string
		if i < nrand {
			in = GenLexInput(rng, 3+rng.Intn(30))
		} else {
			in = structured[i-nrand]
		}
		if seen[in] {
			continue
		}
		seen[in] = true
		got, crash := LexReal(in)
		if crash != "" {
			c.Violation(fmt.Sprintf("random input %q: %s", in, crash), map[string]any{"input": cps(in), "crash": crash})
			continue
		}
		for j := range got.Toks {
			if got.Toks[j].V == nil {
				got.Toks[j].V = []int{}
			}
		}
		if got.Toks == nil {
			got.Toks = []Tok{}
		}
		b, _ := json.Marshal(lexTraceCase{ID: i, In: cps(in), Toks: got.Toks, Err: got.Err})
		lines = append(lines, b)
		events = append(events, int64(len(got.Toks)))
		inputs[i] = in
		if len(got.Toks) >= 3 {
			nontrivial++
		}
		if i < 2 {
			c.Sample(map[string]any{"source": "random input validated by Lexer_Trace", "input": in, "tokens": len(got.Toks), "err": got.Err})
		}
	}
	cfg := "SPECIFICATION Spec\nCONSTANTS\n  Devs = " + core.DevSetTLA(devs) + "\nCHECK_DEADLOCK FALSE\n"
	bad, ok := RunTrace(c, TraceJob{Module: "Lexer_Trace", CfgText: cfg, Lines: lines, Events: events, Shards: 12, Stack: "256m"})
	if ok {
		c.Count(int64(len(lines)), nontrivial, int64(len(lines)))
		c.Logf("Lexer_Trace: %d random inputs validated, %d disagreements", len(lines), len(bad))
		for _, raw := range bad {
			var b struct {
				ID       int       `json:"id"`
				Class    string    `json:"class"`
				Expected LexResult `json:"expected"`
			}
			json.Unmarshal(raw, &b)
			in := inputs[b.ID]
			got, _ := LexReal(in)
			cl := compareLex(b.Expected, got)
			what, ok := cl[class]
			if !ok {
				c.AddExtraInt("mismatches_other_class", 1)
				continue
			}
			c.Violation(fmt.Sprintf("Lexer_Trace: input %q: %s", in, what), LexMismatch{Input: cps(in), Classes: cl, Expected: b.Expected, Observed: got})
		}
	}
	c.Exhaustive = false
	c.SetExtra("exhaustive_parts", fmt.Sprintf("all strings of length <= %d over the 19-symbol alphabet; all strings <= %d over the string-body alphabet; all block-string bodies <= %d", maxLen, strLen, blkLen))
}

// lexReplay re-runs one recorded lexer case against the current code.
func lexReplay(c *core.Ctx, path string) int {
	var rec struct {
		Case LexMismatch `json:"case"`
	}
	b, err := readFile(path)
	if err != nil || json.Unmarshal(b, &rec) != nil {
		fmt.Println("cannot read replay file", path)
		return 2
	}
	if len(rec.Case.Input) == 0 && len(rec.Case.Expected.Toks) == 0 {
		return 3 // not a lexer case (e.g. a Positions_Trace violation): the generic replay handles it
	}
	got, crash := LexReal(fromCps(rec.Case.Input))
	class := "tokens"
	if c.ID == "C04" {
		class = "position"
	}
	what := compareLex(rec.Case.Expected, got)[class]
	if crash != "" {
		what = crash
	}
	if what == "" {
		fmt.Printf("replay %s: input %q now matches the specification\n", path, fromCps(rec.Case.Input))
		return 0
	}
	fmt.Printf("VIOLATION property=%s replay=%s\n  input %q: %s\n", c.ID, path, fromCps(rec.Case.Input), what)
	return 1
}
