package checks

import (
	"bytes"
	"encoding/json"
	"fmt"
	"os"
	"path/filepath"
	"sync"
	"time"

	"verif/harness/core"
	"verif/harness/tlc"
)

// TraceReport is what a *_Trace specification writes in its final action.
type TraceReport struct {
	Cases  int64             `json:"cases"`
	Events int64             `json:"events"`
	Bad    []json.RawMessage `json:"bad"`
	Diffs  []json.RawMessage `json:"diffs"`
}

type TraceJob struct {
	Module  string
	CfgText string
	Lines   [][]byte // one JSON object per case
	Events  []int64  // per case: number of events it contributes to the spec's counter
	Shards  int
	Stack   string
	Heap    string
	Timeout time.Duration
	Extra   map[string]string
	Header  []byte             // optional first record of every shard (e.g. the schema); not counted as a case
	Diffs   *[]json.RawMessage // if set, receives the diagnostic "diffs" entries of the reports
}

// RunTrace validates recorded cases with TLC, in parallel shards. It returns
// the disagreements; any failure of the machinery (TLC error, missing report,
// consumed-count mismatch) is recorded as an internal error and ok=false.
func RunTrace(c *core.Ctx, job TraceJob) (bad []json.RawMessage, ok bool) {
	n := len(job.Lines)
	if n == 0 {
		c.Internal("%s: empty trace", job.Module)
		return nil, false
	}
	shards := job.Shards
	if shards <= 0 {
		shards = 8
	}
	if shards > n {
		shards = n
	}
	type out struct {
		rep *TraceReport
		res *tlc.Result
		err string
	}
	outs := make([]out, shards)
	var wg sync.WaitGroup
	for s := 0; s < shards; s++ {
		lo, hi := s*n/shards, (s+1)*n/shards
		wg.Add(1)
		go func(s, lo, hi int) {
			defer wg.Done()
			dir, err := os.MkdirTemp("", "verif-trace-")
			if err != nil {
				outs[s].err = err.Error()
				return
			}
			defer os.RemoveAll(dir)
			tf := filepath.Join(dir, "trace.ndjson")
			rf := filepath.Join(dir, "report.ndjson")
			var buf bytes.Buffer
			if job.Header != nil {
				buf.Write(job.Header)
				buf.WriteByte('\n')
			}
			var wantEvents int64
			for i := lo; i < hi; i++ {
				buf.Write(job.Lines[i])
				buf.WriteByte('\n')
				wantEvents += job.Events[i]
			}
			if err := os.WriteFile(tf, buf.Bytes(), 0o644); err != nil {
				outs[s].err = err.Error()
				return
			}
			r, err := tlc.Run(tlc.Opts{Module: job.Module, CfgText: job.CfgText, Workers: 1, Stack: job.Stack, Heap: job.Heap,
				Timeout: job.Timeout, Extra: job.Extra, Env: []string{"VERIF_TRACE=" + tf, "VERIF_REPORT=" + rf}})
			defer tlc.Cleanup(r)
			outs[s].res = r
			if err != nil {
				outs[s].err = fmt.Sprintf("%v\n%s", err, r.Tail(15))
				return
			}
			if r.Violation {
				outs[s].err = "TLC error:\n" + r.Tail(70)
				return
			}
			b, err := os.ReadFile(rf)
			if err != nil {
				outs[s].err = "no report written: " + err.Error() + "\n" + r.Tail(15)
				return
			}
			var rep TraceReport
			if err := json.Unmarshal(bytes.TrimSpace(b), &rep); err != nil {
				outs[s].err = "bad report: " + err.Error()
				return
			}
			if rep.Cases != int64(hi-lo) || rep.Events != wantEvents {
				outs[s].err = fmt.Sprintf("trace not fully consumed: report says %d cases / %d events, harness wrote %d / %d", rep.Cases, rep.Events, hi-lo, wantEvents)
				return
			}
			outs[s].rep = &rep
		}(s, lo, hi)
	}
	wg.Wait()
	ok = true
	for s := range outs {
		if outs[s].err != "" {
			c.Internal("%s shard %d: %s", job.Module, s, outs[s].err)
			ok = false
			continue
		}
		c.AddTLC(outs[s].res)
		bad = append(bad, outs[s].rep.Bad...)
		if job.Diffs != nil {
			*job.Diffs = append(*job.Diffs, outs[s].rep.Diffs...)
		}
	}
	if ok {
		if !bindingSelfTest(c, job, bad) {
			ok = false
		}
	}
	return bad, ok
}

// ---- binding self-test ----
//
// A trace specification that accepted everything would make the whole check
// vacuous. After every successful validation a handful of the records the
// specification just ACCEPTED are corrupted in one recorded field (a column, a
// verdict, a text, a link list ...) and validated again: the specification must
// reject every one of them. Anything else is a failure of the machinery
// (internal error, exit 2), never a verdict about the library.

// corrupters: per trace module, change one recorded field of a case so that
// the case must be rejected; false = this case offers nothing to corrupt.
var corrupters = map[string]func(rec map[string]any) bool{
	"Lexer_Trace": func(r map[string]any) bool {
		toks, _ := r["toks"].([]any)
		if len(toks) == 0 {
			return false
		}
		t := toks[0].(map[string]any)
		t["c"] = t["c"].(float64) + 1
		return true
	},
	"Positions_Trace": func(r map[string]any) bool {
		if pos, _ := r["pos"].([]any); len(pos) > 0 {
			p := pos[len(pos)/2].(map[string]any)
			p["c"] = p["c"].(float64) + 1
			return true
		}
		if locs, _ := r["locs"].([]any); len(locs) > 0 {
			l := locs[0].(map[string]any)
			l["l"] = l["l"].(float64) + 100000
			return true
		}
		return false
	},
	"QueryGrammar_Trace":  flipBool("ok"),
	"SchemaGrammar_Trace": flipBool("ok"),
	"Rules_Trace":         flipBool("errs"),
	"Coerce_Trace":        flipBool("ok"),
	"Links_Trace": func(r map[string]any) bool {
		if l, _ := r["links"].([]any); len(l) > 0 {
			r["links"] = []any{}
			return true
		}
		return false
	},
	"TypeSystem_Trace": func(r map[string]any) bool {
		vs, _ := r["variants"].([]any)
		if len(vs) == 0 {
			return false
		}
		v := vs[len(vs)-1].(map[string]any)
		v["ok"] = !v["ok"].(bool)
		return true
	},
	"Printer_Trace": func(r map[string]any) bool {
		if rp, _ := r["reparsed"].(bool); !rp {
			return false
		}
		t2, _ := r["t2"].([]any)
		r["t2"] = append(t2, float64(120))
		return true
	},
	"Total_Trace": func(r map[string]any) bool {
		outs, _ := r["outs"].([]any)
		for _, o := range outs {
			t := o.([]any)
			if len(t) >= 3 && t[1].(float64) == 1 && t[2].(float64) == 0 {
				t[1] = float64(0) // a nil error without a document
				return true
			}
		}
		return false
	},
	"Total2_Trace": func(r map[string]any) bool {
		if r["kind"] == "load" {
			r["okxorerr"] = false
			return true
		}
		steps, _ := r["steps"].([]any)
		if n, _ := r["nodes"].(float64); len(steps) > 0 && n <= 150 {
			steps[0] = float64(2000000000) // far beyond any polynomial in 150 nodes
			return true
		}
		return false
	},
	"TokenLimit_Trace": func(r map[string]any) bool {
		if _, ok := r["ok"].(bool); !ok {
			return false
		}
		if a, _ := r["alloc"].(float64); a > 0 {
			// a measured case: the memory clause must bite
			r["alloc"] = float64(1 << 30)
			return true
		}
		r["ok"] = !r["ok"].(bool)
		return true
	},
	"Determinism_Trace": func(r map[string]any) bool {
		obs, _ := r["obs"].([]any)
		if len(obs) < 2 {
			return false
		}
		o := obs[len(obs)-1].(map[string]any)
		errs, _ := o["errs"].([]any)
		if len(errs) > 0 {
			o["errs"] = errs[:len(errs)-1]
		} else {
			o["errs"] = []any{map[string]any{"rule": "X", "msg": "x", "locs": []any{}, "file": ""}}
		}
		return true
	},
	"Shared_Trace": func(r map[string]any) bool { r["races"] = float64(1); return true },
	"Compose_Trace": func(r map[string]any) bool {
		sets, _ := r["sets"].([]any)
		for _, x := range sets {
			st := x.(map[string]any)
			if errs, _ := st["errs"].([]any); len(errs) > 0 {
				st["errs"] = errs[:len(errs)-1]
				return true
			}
		}
		return false
	},
	"JsonCodec_Trace": func(r map[string]any) bool {
		if a, _ := r["after"].([]any); len(a) > 0 {
			r["after"] = a[:len(a)-1]
			return true
		}
		return false
	},
	"BuiltIn_Trace": func(r map[string]any) bool {
		defs, _ := r["defs"].([]any)
		if len(defs) == 0 {
			return false
		}
		d := defs[len(defs)/2].(map[string]any)
		d["flag"] = !d["flag"].(bool)
		return true
	},
	"Errors_Trace": func(r map[string]any) bool { r["msgLen"] = float64(0); return true },
}

func flipBool(field string) func(map[string]any) bool {
	return func(r map[string]any) bool {
		b, ok := r[field].(bool)
		if !ok {
			return false
		}
		r[field] = !b
		return true
	}
}

func bindingSelfTest(c *core.Ctx, job TraceJob, bad []json.RawMessage) bool {
	corrupt := corrupters[job.Module]
	if corrupt == nil {
		c.Internal("%s: no binding self-test registered for this trace specification", job.Module)
		return false
	}
	rejected := map[float64]bool{}
	for _, raw := range bad {
		var b struct {
			ID float64 `json:"id"`
		}
		json.Unmarshal(raw, &b)
		rejected[b.ID] = true
	}
	var lines [][]byte
	want := map[float64]bool{}
	step := len(job.Lines)/6 + 1
	for i := 0; i < len(job.Lines) && len(lines) < 6; i += step {
		for k := i; k < len(job.Lines) && k < i+step; k++ {
			var rec map[string]any
			if json.Unmarshal(job.Lines[k], &rec) != nil {
				continue
			}
			id, _ := rec["id"].(float64)
			if rejected[id] || want[id] || !corrupt(rec) {
				continue
			}
			b, _ := json.Marshal(rec)
			lines = append(lines, b)
			want[id] = true
			break
		}
	}
	if len(lines) == 0 {
		c.AddExtraInt("binding_selftest_skipped_"+job.Module, 1)
		return true
	}
	dir, err := os.MkdirTemp("", "verif-selftest-")
	if err != nil {
		c.Internal("%s self-test: %v", job.Module, err)
		return false
	}
	defer os.RemoveAll(dir)
	tf, rf := filepath.Join(dir, "trace.ndjson"), filepath.Join(dir, "report.ndjson")
	var buf bytes.Buffer
	if job.Header != nil {
		buf.Write(job.Header)
		buf.WriteByte('\n')
	}
	for _, l := range lines {
		buf.Write(l)
		buf.WriteByte('\n')
	}
	os.WriteFile(tf, buf.Bytes(), 0o644)
	r, err := tlc.Run(tlc.Opts{Module: job.Module, CfgText: job.CfgText, Workers: 1, Stack: job.Stack, Heap: job.Heap,
		Timeout: job.Timeout, Extra: job.Extra, Env: []string{"VERIF_TRACE=" + tf, "VERIF_REPORT=" + rf}})
	defer tlc.Cleanup(r)
	if err != nil || r.Violation {
		// a corrupted record may also be one TLC cannot evaluate: that is a rejection of the trace too
		c.AddExtraInt("binding_selftest_corrupted_rejected", int64(len(lines)))
		return true
	}
	b, err := os.ReadFile(rf)
	var rep TraceReport
	if err != nil || json.Unmarshal(bytes.TrimSpace(b), &rep) != nil {
		c.Internal("%s self-test: no report", job.Module)
		return false
	}
	got := map[float64]bool{}
	for _, raw := range rep.Bad {
		var x struct {
			ID float64 `json:"id"`
		}
		json.Unmarshal(raw, &x)
		got[x.ID] = true
	}
	missed := 0
	for id := range want {
		if !got[id] {
			missed++
		}
	}
	c.AddExtraInt("binding_selftest_corrupted_rejected", int64(len(want)-missed))
	if missed > 0 {
		c.Internal("%s binding self-test: the specification ACCEPTED %d of %d records in which one recorded field had been corrupted", job.Module, missed, len(want))
		return false
	}
	return true
}
