package checks

import (
	"bytes"
	"encoding/json"
	"fmt"
	"os"
	"path/filepath"
	"sync"
	"time"

	"verif/harness/core"
	"verif/harness/tlc"
)

// TraceReport is what a *_Trace specification writes in its final action.
type TraceReport struct {
	Cases  int64             `json:"cases"`
	Events int64             `json:"events"`
	Bad    []json.RawMessage `json:"bad"`
	Diffs  []json.RawMessage `json:"diffs"`
}

type TraceJob struct {
	Module  string
	CfgText string
	Lines   [][]byte // one JSON object per case
	Events  []int64  // per case: number of events it contributes to the spec's counter
	Shards  int
	Stack   string
	Heap    string
	Timeout time.Duration
	Extra   map[string]string
	Header  []byte             // optional first record of every shard (e.g. the schema); not counted as a case
	Diffs   *[]json.RawMessage // if set, receives the diagnostic "diffs" entries of the reports
}

// RunTrace validates recorded cases with TLC, in parallel shards. It returns
// the disagreements; any failure of the machinery (TLC error, missing report,
// consumed-count mismatch) is recorded as an internal error and ok=false.
func RunTrace(c *core.Ctx, job TraceJob) (bad []json.RawMessage, ok bool) {
	n := len(job.Lines)
	if n == 0 {
		c.Internal("%s: empty trace", job.Module)
		return nil, false
	}
	shards := job.Shards
	if shards <= 0 {
		shards = 8
	}
	if shards > n {
		shards = n
	}
	type out struct {
		rep *TraceReport
		res *tlc.Result
		err string
	}
	outs := make([]out, shards)
	var wg sync.WaitGroup
	for s := 0; s < shards; s++ {
		lo, hi := s*n/shards, (s+1)*n/shards
		wg.Add(1)
		go func(s, lo, hi int) {
			defer wg.Done()
			dir, err := os.MkdirTemp("", "verif-trace-")
			if err != nil {
				outs[s].err = err.Error()
				return
			}
			defer os.RemoveAll(dir)
			tf := filepath.Join(dir, "trace.ndjson")
			rf := filepath.Join(dir, "report.ndjson")
			var buf bytes.Buffer
			if job.Header != nil {
				buf.Write(job.Header)
				buf.WriteByte('\n')
			}
			var wantEvents int64
			for i := lo; i < hi; i++ {
				buf.Write(job.Lines[i])
				buf.WriteByte('\n')
				wantEvents += job.Events[i]
			}
			if err := os.WriteFile(tf, buf.Bytes(), 0o644); err != nil {
				outs[s].err = err.Error()
				return
			}
			r, err := tlc.Run(tlc.Opts{Module: job.Module, CfgText: job.CfgText, Workers: 1, Stack: job.Stack, Heap: job.Heap,
				Timeout: job.Timeout, Extra: job.Extra, Env: []string{"VERIF_TRACE=" + tf, "VERIF_REPORT=" + rf}})
			defer tlc.Cleanup(r)
			outs[s].res = r
			if err != nil {
				outs[s].err = fmt.Sprintf("%v\n%s", err, r.Tail(15))
				return
			}
			if r.Violation {
				outs[s].err = "TLC error:\n" + r.Tail(70)
				return
			}
			b, err := os.ReadFile(rf)
			if err != nil {
				outs[s].err = "no report written: " + err.Error() + "\n" + r.Tail(15)
				return
			}
			var rep TraceReport
			if err := json.Unmarshal(bytes.TrimSpace(b), &rep); err != nil {
				outs[s].err = "bad report: " + err.Error()
				return
			}
			if rep.Cases != int64(hi-lo) || rep.Events != wantEvents {
				outs[s].err = fmt.Sprintf("trace not fully consumed: report says %d cases / %d events, harness wrote %d / %d", rep.Cases, rep.Events, hi-lo, wantEvents)
				return
			}
			outs[s].rep = &rep
		}(s, lo, hi)
	}
	wg.Wait()
	ok = true
	for s := range outs {
		if outs[s].err != "" {
			c.Internal("%s shard %d: %s", job.Module, s, outs[s].err)
			ok = false
			continue
		}
		c.AddTLC(outs[s].res)
		bad = append(bad, outs[s].rep.Bad...)
		if job.Diffs != nil {
			*job.Diffs = append(*job.Diffs, outs[s].rep.Diffs...)
		}
	}
	return bad, ok
}
