package checks

import (
	"encoding/json"
	"errors"
	"fmt"
	"math/rand"
	"regexp"
	"sort"
	"strings"

	"github.com/vektah/gqlparser/v2"
	"github.com/vektah/gqlparser/v2/ast"
	"github.com/vektah/gqlparser/v2/gqlerror"
	"github.com/vektah/gqlparser/v2/parser"
	"github.com/vektah/gqlparser/v2/validator"

	"verif/harness/core"
)

func init() {
	Registry["C07"] = func(c *core.Ctx) { checkTypeSystem(c, false) }
	Registry["C17"] = func(c *core.Ctx) { checkTypeSystem(c, true) }
}

// loadReal loads the sources with the real loader (prelude prepended by the library).
func loadReal(sources []*ast.Source) (l ALoaded, schema *ast.Schema, crash string) {
	return loadRealAt(sources, 0)
}

// loadRealAt: preludePos 0 = gqlparser.LoadSchema (the library puts the built-in prelude first);
// 1 / 2 = validator.LoadSchema with the prelude as the last / a middle source: where the built-in
// source stands among the sources is one more way of splitting and ordering the same definitions
func loadRealAt(sources []*ast.Source, preludePos int) (l ALoaded, schema *ast.Schema, crash string) {
	defer guard("gqlparser.LoadSchema", describeSources(sources))()
	defer func() {
		if r := recover(); r != nil {
			crash = fmt.Sprintf("panic: %v", r)
		}
	}()
	var s *ast.Schema
	var err error
	switch preludePos {
	case 0:
		if len(sources) >= 2 && len(sources)%2 == 0 {
			// the same sources first through the Must* helper, handed over as a slice with spare capacity: whatever
			// it does, the caller's slice is the caller's (the load that follows sees the same sources)
			mine := append(make([]*ast.Source, 0, len(sources)+1), sources...)
			func() {
				defer func() { recover() }() // (it panics when the sources do not load)
				gqlparser.MustLoadSchema(mine...)
			}()
			for k := range sources {
				if mine[k] != sources[k] {
					return l, nil, fmt.Sprintf("gqlparser.MustLoadSchema changed the caller's slice of sources: element %d is now %q", k, mine[k].Name)
				}
			}
			sources = mine
		}
		s, err = gqlparser.LoadSchema(sources...)
	case 1:
		s, err = validator.LoadSchema(append(append([]*ast.Source{}, sources...), validator.Prelude)...)
	default:
		k := len(sources) / 2
		all := append(append(append([]*ast.Source{}, sources[:k]...), validator.Prelude), sources[k:]...)
		s, err = validator.LoadSchema(all...)
	}
	if err != nil {
		l = ALoaded{Types: []string{}, Builtins: []string{}, Dirs: []string{}, Possible: []ARel{}, Implements: []ARel{}, Q: []string{}, M: []string{}, S: []string{}, Files: []string{}}
		l.Err = err.Error()
		var ge *gqlerror.Error
		if errors.As(err, &ge) {
			if f, ok := ge.Extensions["file"].(string); ok {
				l.ErrFile = f
			}
		}
		return l, nil, ""
	}
	if s == nil {
		return l, nil, "nil schema with nil error"
	}
	return ProjectLoaded(s), s, ""
}

// parseForSpec parses prelude + sources with the real parser and projects the
// result to the abstract document the specification evaluates.
func parseForSpec(sources []*ast.Source) (ASDoc, bool) {
	all := append([]*ast.Source{validator.Prelude}, sources...)
	sd, err := parser.ParseSchemas(all...)
	if err != nil {
		return ASDoc{}, false
	}
	return ProjectASDoc(sd, all), true
}

type tsVariant struct {
	Sources []*ast.Source
	Files   []string // files holding definitions involved in the injected fault
}

// permuteItems returns a random permutation of the items in which items with
// the same non-empty Key keep their relative order, split over 1..5 files.
func permuteItems(items []SDLItem, r *rand.Rand, involved []string) tsVariant {
	n := len(items)
	perm := r.Perm(n)
	// restore relative order inside each key group
	groups := map[string][]int{}
	for pos, idx := range perm {
		if k := items[idx].Key; k != "" {
			groups[k] = append(groups[k], pos)
		}
	}
	for k, poss := range groups {
		var idxs []int
		for _, p := range poss {
			idxs = append(idxs, perm[p])
		}
		sort.Ints(idxs)
		_ = k
		for i, p := range poss {
			perm[p] = idxs[i]
		}
	}
	nfiles := 1 + r.Intn(5)
	texts := make([]strings.Builder, nfiles)
	inv := map[int]bool{}
	for _, idx := range perm {
		f := r.Intn(nfiles)
		// make files distinguishable: a comment line before each item
		// (every third item is preceded by a byte order mark: files put together from pieces keep the
		// marks of their pieces, and the mark is ignored wherever it stands between tokens)
		bom := ""
		if idx%3 == 1 {
			bom = "\ufeff"
		}
		fmt.Fprintf(&texts[f], "# item\n%s%s\n", bom, items[idx].Text)
		for _, nm := range items[idx].Names {
			for _, w := range involved {
				if nm == w {
					inv[f] = true
				}
			}
		}
	}
	var v tsVariant
	for f := 0; f < nfiles; f++ {
		name := fmt.Sprintf("f%d.graphql", f)
		v.Sources = append(v.Sources, &ast.Source{Name: name, Input: strings.Repeat(" ", f) + "# file " + name + "\n" + texts[f].String()})
		if inv[f] {
			v.Files = append(v.Files, name)
		}
	}
	if v.Files == nil {
		v.Files = []string{}
	}
	return v
}

func checkTypeSystem(c *core.Ctx, orderProp bool) {
	if orderProp {
		c.Rule = "each case is one set of type-system definitions (a generated valid schema, or the same with one injected violation of one enforced rule) loaded in its base order and under random permutations of its top-level definitions crossed with random partitions into 1-5 source files (extensions of one type keep their relative order; extensions may precede their base type, interfaces may follow their implementers); TypeSystem_Trace requires every variant's verdict and schema (types, relations, roots, directives) to equal the specification's, whose rules are predicates over the set of definitions, and a load error to name a file holding one of the definitions involved. Non-trivial = cases with at least 4 variants that contain an extension or an injected violation; distinct by SDL text"
	} else {
		c.Rule = "each case is one type-system document: a generated valid-by-construction schema (must load and yield exactly the types, directives, possible-type / implements relations and roots the specification computes, with introspection fields on the query root and no dangling reference anywhere), the same with one injected violation of each enforced rule (must be rejected), hand-written corner cases, and mutated SDL; the abstract document is the projection of the real parser's output (prelude included) and TypeSystem_Trace evaluates Loads and Schema on it. Non-trivial = faulty cases and cases with an extension, an interface or a union; distinct by SDL text"
	}
	c.Assumptions = []string{
		"TypeSystem.tla lists the rules of the property statement plus three the loader also enforces (an extension must have the kind of its base type, at most one schema definition, a directive may not annotate its own arguments); the generators do not inject violations of rules the statement does not list",
		"the abstract document evaluated by the specification is the projection of parser.ParseSchemas' output (the parser is checked against SchemaGrammar.tla by C06)",
		"possible types of an interface include interfaces that declare it; an object's possible types are itself; the implements relation of a union member includes the union (the library's documented reading)",
	}
	// known findings that belong to the loader
	var devs []string
	if fs, err := core.LoadFindings(); err == nil {
		for _, f := range fs {
			if (f.Property == "C07" || f.Property == "C17") && f.Status == "open" {
				var w struct {
					SDL string `json:"sdl"`
					OK  bool   `json:"ok"`
				}
				json.Unmarshal(f.Witness, &w)
				l, _, crash := loadReal([]*ast.Source{{Name: "w.graphql", Input: w.SDL}})
				if crash == "" && l.OK == w.OK {
					devs = append(devs, f.Dev)
					if f.Property == c.ID {
						c.Known(f.Dev, fmt.Sprintf("sdl=%q: %s", w.SDL, f.What))
					}
				}
			}
		}
	}
	// (C07 also loads every generated case in two further orders / file partitions: consistency of a
	// loaded schema may not depend on where a union or an extension stands; the order property itself is C17)
	nvalid, nfaulty, nperm := 60, 240, 2
	if c.Thorough() {
		nvalid, nfaulty = 1200, 5000
	}
	if orderProp {
		nvalid, nfaulty, nperm = 40, 60, 10
		if c.Thorough() {
			nvalid, nfaulty, nperm = 400, 600, 50
		}
	}
	rng := rand.New(rand.NewSource(c.Seed*67867967 + 7))
	tg := &TGen{R: rng}
	var lines [][]byte
	var events []int64
	type info struct {
		sdl      string
		fault    *SchemaFault
		variants []tsVariant
		loaded   []ALoaded
	}
	infos := map[int]*info{}
	var nontrivial int64
	id := 0
	var handSources []*ast.Source // when set: the sources of the case exactly as given (names, built-in flags)
	var handInvolved []string     // with handItems: the names of the definitions involved in the list's single violation
	var handItems []SDLItem       // when set: a hand-written list of definitions whose order must not matter
	addCase := func(doc *ASDoc, fault *SchemaFault, handText string) {
		var items []SDLItem
		if doc != nil {
			items = doc.Items()
		} else if handItems != nil {
			items = handItems
		} else {
			items = []SDLItem{{Text: handText}}
		}
		inv := []string{}
		if fault != nil {
			inv = fault.Involved
		} else if handItems != nil && handInvolved != nil {
			inv = handInvolved
		}
		var variants []tsVariant
		var base strings.Builder
		for _, it := range items {
			base.WriteString(it.Text)
			base.WriteString("\n")
		}
		v0 := tsVariant{Sources: []*ast.Source{{Name: "schema.graphql", Input: base.String()}}, Files: []string{}}
		if handSources != nil {
			v0.Sources = handSources // a hand-written LIST of sources, flags and all
		}
		if fault != nil || (handItems != nil && handInvolved != nil) {
			v0.Files = []string{"schema.graphql"}
		}
		variants = append(variants, v0)
		for p := 0; p < nperm && (doc != nil || handItems != nil); p++ {
			variants = append(variants, permuteItems(items, rng, inv))
		}
		if doc == nil && handItems == nil && fault == nil && !redeclaresSpecified.MatchString(base.String()) {
			// a hand-written text: the same source twice more, loaded with the prelude last and in the middle (not when
			// it declares a specified directive again: of two declarations the LATER is in force, by design, so there
			// the place of the prelude is part of the meaning)
			variants = append(variants, v0, v0)
		}
		// a built-in type that is involved has its base definition in the prelude: naming that file is right too
		for _, n := range inv {
			if strings.HasPrefix(n, "__") || n == "Int" || n == "Float" || n == "String" || n == "Boolean" || n == "ID" {
				for vi := range variants {
					variants[vi].Files = append(variants[vi].Files, "prelude.graphql")
				}
				break
			}
		}
		spec, ok := parseForSpec(v0.Sources)
		if !ok {
			// the items in one source do not parse together: give the specification the items one source each
			// (the document of a list of sources is the concatenation of their documents, C06)
			var each []*ast.Source
			for k, it := range items {
				each = append(each, &ast.Source{Name: fmt.Sprintf("item%d.graphql", k), Input: it.Text})
			}
			spec, ok = parseForSpec(each)
		}
		if !ok {
			if doc == nil {
				// a hand-written case is grammatical: if it no longer parses this check can not judge it, and must say so
				c.Internal("hand-written type system does not parse: %q", clip(base.String(), 300))
				return
			}
			// the renderer produced something the parser refuses: not a type-system question
			c.AddExtraInt("cases_not_parsed", 1)
			return
		}
		inf := &info{sdl: base.String(), fault: fault, variants: variants}
		for vi, v := range variants {
			// (the built-in prelude first, last or in the middle: in C17 for every case, in C07 for the hand-written
			// type systems, several of which redeclare or extend built-in definitions)
			pp := 0
			if orderProp || (doc == nil && fault == nil) {
				pp = vi % 3
			}
			l, _, crash := loadRealAt(v.Sources, pp)
			if crash != "" {
				c.Violation(fmt.Sprintf("LoadSchema crashed: %s on %s", crash, describeSources(v.Sources)), map[string]any{"sources": sourcesJSON(v.Sources), "crash": crash})
				return
			}
			if l.Dangling != "" {
				c.Violation(fmt.Sprintf("loaded schema is not closed: %s; %s", l.Dangling, describeSources(v.Sources)), map[string]any{"sources": sourcesJSON(v.Sources), "dangling": l.Dangling})
				return
			}
			l.Files = v.Files
			if !orderProp {
				l.Files = []string{}
			}
			inf.loaded = append(inf.loaded, l)
			_ = vi
		}
		id++
		b, _ := json.Marshal(map[string]any{"id": id, "doc": spec, "variants": inf.loaded})
		lines = append(lines, b)
		events = append(events, int64(len(inf.loaded)))
		infos[id] = inf
		hasExt := false
		for _, it := range items {
			if it.Ext {
				hasExt = true
			}
		}
		if orderProp {
			// order can only matter where something refers across definitions in a non-trivial way: an
			// extension (of a type or of the schema) or an injected violation
			if len(variants) >= 4 && (fault != nil || hasExt) {
				nontrivial++
			}
		} else if fault != nil || hasExt || strings.Contains(base.String(), "interface ") || strings.Contains(base.String(), "union ") {
			nontrivial++
		}
	}
	intentBad := 0
	for i := 0; i < nvalid; i++ {
		s := tg.Gen()
		addCase(s.doc, nil, "")
		if i == 0 {
			c.Sample(map[string]any{"source": "typed generator, valid by construction", "sdl": s.doc.SDL()})
		}
	}
	for i := 0; i < nfaulty; i++ {
		s := tg.Gen()
		f := tg.InjectFault(s)
		if f == nil {
			continue
		}
		addCase(s.doc, f, "")
		if i == 0 {
			c.Sample(map[string]any{"source": "typed generator + one injected fault", "rule": f.Rule, "fault": f.What})
		}
	}
	if !orderProp {
		for _, t := range handSchemas {
			addCase(nil, nil, t)
		}
		// lists of sources some of which are flagged built-in (a server's own prelude next to the library's): the flag
		// marks definitions, it licenses nothing
		for _, hs := range [][]*ast.Source{
			{{Name: "server.graphql", BuiltIn: true, Input: "directive @tag on ENUM"}, {Name: "user.graphql", Input: "directive @tag on OBJECT type Query @tag { a: Int }"}},
			{{Name: "server.graphql", BuiltIn: true, Input: "directive @tag on OBJECT scalar Date"}, {Name: "user.graphql", Input: "type Query @tag { a: Date }"}},
			{{Name: "server.graphql", BuiltIn: true, Input: "scalar Date"}, {Name: "user.graphql", Input: "scalar Date type Query { a: Date }"}},
			{{Name: "user.graphql", Input: "type Query { a: Date } directive @skip(if: Boolean!, why: String) on FIELD"}, {Name: "server.graphql", BuiltIn: true, Input: "scalar Date extend type Query { b: Int }"}},
			{{Name: "server.graphql", BuiltIn: true, Input: "type __Mine { x: Int } type Query { m: __Mine }"}},
		} {
			handSources = hs
			var all strings.Builder
			for _, s := range hs {
				all.WriteString(s.Input + "\n")
			}
			if handSet == nil {
				isHand("")
			}
			handSet[strings.TrimSpace(all.String())] = true
			addCase(nil, nil, all.String())
		}
		handSources = nil
		// small scope: every combination of up to 3 (quick) / 4 (thorough) blocks
		k := 3
		if c.Thorough() {
			k = 4
		}
		small := smallTypeSystems(k)
		for _, t := range small {
			addCase(nil, nil, t)
		}
		c.SetExtra("small_scope_type_systems", len(small))
	} else {
		if handSet == nil {
			isHand("")
		}
		for _, its := range handOrderItems {
			handItems = its
			var base strings.Builder
			for _, it := range its {
				base.WriteString(it.Text + "\n")
			}
			handSet[strings.TrimSpace(base.String())] = true // no generator intent: the specification decides
			addCase(nil, nil, "")
		}
		// hand-written lists with ONE violation and the definitions involved in it: whichever order and partition,
		// the load error names a file that holds one of them
		for _, hf := range handFaultLists {
			handItems, handInvolved = hf.items, hf.involved
			var base strings.Builder
			for _, it := range hf.items {
				base.WriteString(it.Text + "\n")
			}
			handSet[strings.TrimSpace(base.String())] = true
			addCase(nil, nil, "")
		}
		handItems, handInvolved = nil, nil
	}
	// generator intent (three-way agreement): valid must load, faulty must not
	for _, inf := range infos {
		if len(inf.loaded) == 0 {
			continue
		}
		if inf.fault == nil && inf.sdl != "" && !inf.loaded[0].OK && inf.variants != nil && !isHand(inf.sdl) {
			intentBad++
			c.SetExtra(fmt.Sprintf("intent_valid_rejected_%d", intentBad), map[string]string{"sdl": inf.sdl, "err": inf.loaded[0].Err})
		}
		if inf.fault != nil && inf.loaded[0].OK {
			intentBad++
			c.SetExtra(fmt.Sprintf("intent_faulty_loaded_%d", intentBad), map[string]string{"sdl": inf.sdl, "fault": inf.fault.What})
		}
	}
	cfg := "SPECIFICATION Spec\nCONSTANTS\n  Devs = " + core.DevSetTLA(devs) + "\nCHECK_DEADLOCK FALSE\n"
	bad, ok := RunTrace(c, TraceJob{Module: "TypeSystem_Trace", CfgText: cfg, Lines: lines, Events: events, Shards: 14, Stack: "256m", Heap: "3g"})
	if !ok {
		return
	}
	c.Count(int64(len(lines)), nontrivial, int64(len(lines)))
	c.Logf("TypeSystem_Trace: %d cases validated, %d disagreements; %d generator-intent disagreements", len(lines), len(bad), intentBad)
	for _, raw := range bad {
		var b struct {
			ID       int      `json:"id"`
			Class    string   `json:"class"`
			Variant  int      `json:"variant"`
			Violated []string `json:"violated"`
		}
		json.Unmarshal(raw, &b)
		inf := infos[b.ID]
		v := inf.variants[b.Variant-1]
		l := inf.loaded[b.Variant-1]
		fault := ""
		if inf.fault != nil {
			fault = " [injected: " + inf.fault.What + "]"
		}
		c.Violation(fmt.Sprintf("%s%s: specification says violated rules %v; real loader: ok=%v err=%q file=%q; %s", b.Class, fault, b.Violated, l.OK, l.Err, l.ErrFile, describeSources(v.Sources)),
			map[string]any{"what": b.Class, "sources": sourcesJSON(v.Sources), "violated": b.Violated, "observed": l})
	}
	if intentBad > 0 && len(bad) == 0 {
		c.Diagnostic("generator intent disagrees with specification AND loader on %d cases (see intent_* in the evidence): the generator is the weakest of the three witnesses, so this is no verdict", intentBad)
	}
}

var redeclaresSpecified = regexp.MustCompile(`directive\s+@(include|skip|deprecated|specifiedBy|defer|oneOf)\b`)

var handSet map[string]bool

// isHand: hand-written and small-scope cases carry no generator intent (the specification decides them)
func isHand(sdl string) bool {
	if handSet == nil {
		handSet = map[string]bool{}
		for _, h := range handSchemas {
			handSet[strings.TrimSpace(h)] = true
		}
		for _, h := range smallTypeSystems(4) {
			handSet[strings.TrimSpace(h)] = true
		}
	}
	return handSet[strings.TrimSpace(sdl)]
}

func describeSources(ss []*ast.Source) string {
	var b strings.Builder
	for _, s := range ss {
		t := s.Input
		if len(t) > 700 {
			t = t[:700] + "..."
		}
		fmt.Fprintf(&b, "[%s] %q ", s.Name, t)
	}
	return b.String()
}

func sourcesJSON(ss []*ast.Source) []map[string]string {
	var out []map[string]string
	for _, s := range ss {
		out = append(out, map[string]string{"name": s.Name, "input": s.Input})
	}
	return out
}

// corner cases written by hand (valid and invalid; the specification decides)
// hand-written definition lists for the order property: types that exist only
// through extensions and are referred to by other extensions, interfaces
// declared after their implementers, roots declared after the schema
// definition, directives used before they are declared.
func ordItems(texts ...string) []SDLItem {
	var out []SDLItem
	for _, t := range texts {
		it := SDLItem{Text: t}
		f := strings.Fields(t)
		if len(f) > 2 && f[0] == "extend" {
			it.Ext = true
			it.Key = f[2]
			it.Names = []string{f[2]}
		} else if len(f) > 1 {
			it.Names = []string{strings.TrimPrefix(f[1], "@")}
		}
		out = append(out, it)
	}
	return out
}

var handFaultLists = []struct {
	items    []SDLItem
	involved []string
}{
	// an undefined member added by one extension of a union; an implementer elsewhere narrows a field to a member
	// listed after it
	{ordItems("interface Node { item: Result }", "type Album implements Node { item: Track }", "union Result = Photo", "extend union Result = Missing", "extend union Result = Track",
		"type Track { t: Int }", "type Photo { p: Int }", "type Query { n: Node }"), []string{"Result"}},
	{ordItems("interface Node { item: Result }", "type Zebra implements Node { item: Track }", "type Album implements Node { item: Photo }", "extend union Result = Track | Gone | Photo",
		"type Track { t: Int }", "type Photo { p: Int }", "type Query { n: Node }"), []string{"Result"}},
	// an undefined interface named by a type others refer to
	{ordItems("interface Person { n: Int }", "interface Content { author: Person }", "type Article implements Content { author: Writer }", "type Writer implements Person { n: Int }",
		"extend type Writer implements Missing", "type Query { a: Article }"), []string{"Writer"}},
	// an undefined directive on an extension, far from the base type
	{ordItems("type A { x: Int }", "type B { a: A }", "extend type A @nope", "type Query { b: B }", "interface I { x: Int }", "extend type A implements I"), []string{"A"}},
	// a field of an undefined type added by an extension of an interface that others implement
	{ordItems("interface I { x: Int }", "type T implements I { x: Int y: Gone2 }", "type Query { t: T i: I }", "extend interface I { z: Int }", "extend type T { z: Int }"), []string{"T"}},
}

var handOrderItems = [][]SDLItem{
	// two schema definitions (one too many wherever they stand); roots named by an extension of the schema while
	// types with the default root names exist
	ordItems("schema { query: Q }", "schema { query: R }", "type Q { a: Int }", "type R { a: Int }"),
	ordItems("schema { query: Q }", "type Q { a: Int }", "schema { mutation: Q }"),
	ordItems("extend schema { query: Root mutation: Writes }", "type Root { a: Int }", "type Writes { w: Int }", "type Query { notroot: Int }", "type Mutation { notroot: Int }"),
	ordItems("extend schema { mutation: Writes }", "type Query { a: Int }", "type Writes { w: Int }", "type Mutation { notroot: Int }", "type Subscription { s: Int }"),
	// a field narrowed to one implementer of an interface that another INTERFACE implements too
	ordItems("interface Node { id: ID }", "interface Named implements Node { id: ID name: String }", "type User implements Node { id: ID }", "interface Holder { item: Node items: [Node!] }",
		"type Box implements Holder { item: User items: [User!] }", "type Query { b: Box n: Named }"),
	ordItems("union Pet = Cat | Dog", "type Cat implements Animal { n: Int }", "interface Animal { n: Int }", "type Dog implements Animal { n: Int }", "interface Owner { pet: Animal any: Pet }",
		"type Person implements Owner { pet: Dog any: Cat }", "type Query { p: Person }"),
	// a directive definition whose argument carries another directive defined elsewhere
	ordItems("directive @range(min: Int = 0 @meta(note: \"m\"), max: Int) on FIELD_DEFINITION", "directive @meta(note: String) on ARGUMENT_DEFINITION | FIELD_DEFINITION",
		"type Query { a: Int @range(max: 3) @meta b(x: Int @meta(note: \"x\")): Int }", "directive @third(a: Int @meta) on OBJECT", "extend type Query @third"),
	ordItems("extend type Review implements Entity { id: ID }", "extend interface Entity { id: ID }", "type Query { r: Review e: Entity }"),
	ordItems("extend union SearchResult = Product", "extend type Product { id: ID }", "union SearchResult = Query", "type Query { s: SearchResult }"),
	ordItems("extend type Review implements Entity & Node { id: ID }", "extend interface Entity implements Node { id: ID }", "extend interface Node { id: ID }", "extend type Review { body: String }", "type Query { r: Review }"),
	ordItems("type T implements I { x: Int }", "interface I implements J { x: Int }", "interface J { x: Int }", "extend type T implements J", "type Query { t: T }"),
	ordItems("schema { query: Root mutation: Mut }", "extend schema @tag", "directive @tag on SCHEMA | OBJECT", "type Root @tag { a: Int }", "extend type Mut { m: Int }"),
	ordItems("extend enum Color { BLUE }", "extend enum Color { GREEN }", "enum Color { RED }", "type Query { c(d: Color = GREEN): Color }", "extend input Filter { c: Color = BLUE }", "extend type Query { f(x: Filter): Int }"),
	ordItems("extend scalar Date @tag", "scalar Date", "directive @tag repeatable on SCALAR", "extend scalar Date @tag", "type Query { d: Date }"),
	ordItems("extend type __Type { mine: Int }", "extend scalar String @tag", "extend enum __TypeKind { EXTRA }", "directive @tag on SCALAR", "type Query { a: String t: __Type }"),
	// a type that exists through extensions only, and the extensions disagree about its kind
	ordItems("extend type Ghost { x: Int }", "extend interface Ghost { y: Int }", "type Query { a: Int }"),
	ordItems("type Query { g: Ghost }", "extend union Ghost = Query", "extend enum Ghost { A }", "extend union Ghost = Other", "type Other { o: Int }"),
	ordItems("extend input Ghost { x: Int }", "extend type Ghost { y: Int }", "extend input Ghost { z: Int }", "type Query { a(g: Ghost): Int }"),
	ordItems("extend type Query { later: Later }", "extend type Later { x: Int }", "extend type Query { u: U }", "extend union U = Later", "extend type Query { first: Int }"),
}

// smallTypeSystems: every set of at most k definitions / extensions drawn from
// a pool written so that combinations hit each rule from several sides
// (duplicate types, missing / wrong-kind references, interface hierarchies
// with missing or non-covariant fields, transitive interfaces, extensions that
// add fields, interfaces, members, values or directives, roots), on top of a
// fixed query root. The specification decides every combination.
var smallTypePool = []string{
	"interface I { a: Int }",
	"interface I { a: Int b(x: Int): Int }",
	"interface J implements I { a: Int }",
	"interface J implements I { j: Int }",
	"type T implements I { a: Int }",
	"type T implements I { a: Int! b(x: Int, y: Int): Int }",
	"type T implements I { a: String }",
	"type T implements J { a: Int }",
	"type T implements J & I { a: Int j: Int }",
	"type T { t: U f(i: In): E }",
	"type V implements I { a: Int b(x: Int!): Int }",
	"union U = T",
	"union U = T | I",
	"union U = T | V",
	"extend union U = Missing",
	"extend type T { e: Int }",
	"extend interface T { q: Int }",
	"extend type T { a: Int }",
	"extend type T implements I",
	"extend interface I { c: [T!] }",
	"input In { x: Int y: In }",
	"input In { x: T }",
	"extend input In { z: E = A }",
	"enum E { A B }",
	"extend enum E { C }",
	"extend type Query { t: T i: I u: U }",
	"schema { query: Query mutation: T }",
	"extend schema { subscription: V }",
	"directive @d(x: Int!) repeatable on OBJECT | INTERFACE",
	"extend type T @d(x: 1) @d(x: 2)",
	"extend interface I @d",
}

func smallTypeSystems(k int) []string {
	var out []string
	n := len(smallTypePool)
	var rec func(start int, chosen []string)
	rec = func(start int, chosen []string) {
		if len(chosen) > 0 {
			out = append(out, "type Query { q: Int } "+strings.Join(chosen, " "))
		}
		if len(chosen) == k {
			return
		}
		for i := start; i < n; i++ {
			rec(i+1, append(chosen, smallTypePool[i]))
		}
	}
	rec(0, nil)
	return out
}

var handSchemas = []string{
	// an implementer whose field has FEWER list wrappers than the interface declares (and more)
	"interface I { tags: [String] } type T implements I { tags: String } type Query { t: T }", "interface I { m: [[Int!]]! } type T implements I { m: [Int!]! } type Query { t: T }",
	"interface I { tags: [String] } interface J implements I { tags: String } type T implements J & I { tags: String } type Query { t: T }", "interface I { tags: String } type T implements I { tags: [String] } type Query { t: T }",
	"interface I { n: [Node] } interface Node { id: ID } type N implements Node { id: ID } type T implements I { n: N } type Query { t: T }",
	// type-level directives on extensions of BUILT-IN types are checked like any other: undefined, misplaced,
	// lacking a required argument, with an unknown argument; and the well-formed ones load
	"extend scalar String @nope type Query { a: String }", "extend scalar ID @specifiedBy type Query { a: ID }", "directive @onField on FIELD extend type __Type @onField type Query { a: Int }",
	"extend enum __TypeKind @deprecated type Query { a: Int }", "extend scalar Int @specifiedBy(url: \"u\", zz: 1) type Query { a: Int }", "directive @tag(n: Int!) on SCALAR | OBJECT | ENUM extend scalar Float @tag type Query { a: Float }",
	"directive @tag(n: Int!) on SCALAR | OBJECT | ENUM extend scalar Float @tag(n: 1) extend type __Schema @tag(n: 2) extend enum __DirectiveLocation @tag(n: 3) type Query { a: Float }",
	"extend scalar Boolean @specifiedBy(url: \"https://example.com\") type Query { a: Boolean }",
	"extend schema { query: Root mutation: Writes } type Root { a: Int } type Writes { w: Int } type Query { notroot: Int } type Mutation { notroot: Int }",
	"extend schema { subscription: Subs } type Query { a: Int } type Subs { s: Int } type Subscription { notroot: Int }",
	"schema { query: Q } schema { query: R } type Q { a: Int } type R { a: Int }",
	// built-in names redefined, extended, referred to and misapplied
	"scalar String type Query { a: String }", "type Int { x: Int } type Query { a: Int }", "enum Boolean { T F } type Query { a: Boolean }", "scalar ID scalar Float type Query { a: ID }",
	"type Query { t: __Type s: __Schema k: __TypeKind f: __Field i: __InputValue e: __EnumValue d: __Directive l: __DirectiveLocation }", "input I { f: __Type } type Query { a(i: I): Int }",
	"type Query { a(k: __TypeKind = OBJECT, l: [__DirectiveLocation!] = [QUERY, FIELD]): Int }", "extend type __Schema { x: Int } type Query { a: Int }", "extend type __Type implements Named interface Named { name: String } type Query { a: Int }",
	"type T @oneOf { x: Int } type Query { t: T }", "input I @oneOf { a: Int b: String } type Query { f(i: I): Int }", "input I @oneOf { a: Int! } type Query { f(i: I): Int }", "input I @oneOf { a: Int = 1 } type Query { f(i: I): Int }",
	"type Query { a: Int @deprecated(reason: \"r\") b(x: Int @deprecated): Int } enum E { A @deprecated } input In { f: Int @deprecated }", "type Query @deprecated { a: Int }", "type Query { a: Int @include(if: true) }",
	"type Query { a: Int @skip(if: false) }", "scalar Date @specifiedBy(url: \"u\") type Query { d: Date }", "scalar Date @specifiedBy type Query { d: Date }", "type Query @specifiedBy(url: \"u\") { a: Int }",
	"directive @skip(if: Boolean!) on FIELD type Query { a: Int }", "directive @oneOf on OBJECT type T @oneOf { x: Int } type Query { t: T }", "directive @defer(label: String) on FIELD type Query { a: Int }",
	"type Query { __typename: String }", "type Query { __schema: Int a: Int }", "type Query { a(__x: Int): Int }", "input I { __f: Int } type Query { a(i: I): Int }", "enum E { __A } type Query { e: E }", "directive @__d on FIELD type Query { a: Int }",
	"type Query { a: Int } type Mutation { __typename: Int }", "union U = __Type | Query type Query { u: U }", "type T implements __Named { x: Int } type Query { t: T }",
	// an undefined interface named by the type that another implementer narrows a field to
	"interface Person { n: Int } interface Content { author: Person } type Article implements Content { author: Writer } type Writer implements Missing & Person { n: Int } type Query { a: Article }",
	"interface Person { n: Int } interface Content { author: Person } type Article implements Content { author: Writer } type Writer implements Person & Missing { n: Int } union Ux = Writer | Gone type Query { a: Article }",
	// the same extensions of BUILT-IN definitions loaded again and again in one process (twice here, once more per
	// permutation in C17): every load starts from pristine built-ins
	"extend type __Type { mine: Int } extend scalar String @tag extend enum __TypeKind { EXTRA } directive @tag on SCALAR type Query { a: String }",
	"extend type __Type { mine: Int } extend scalar String @tag extend enum __TypeKind { EXTRA } directive @tag on SCALAR type Query { a: String } # again",
	"type Query { t: __Type k: __TypeKind s: String }",
	// nullability at an intermediate list level (every level counts for covariance)
	"interface I { c: [[Int]!] } type T implements I { c: [[Int]] } type Query { t: T }",
	"interface I { c: [[Int]!] } type T implements I { c: [[Int]!]! } type Query { t: T }",
	"interface I { c: [[[Int!]]!]! } type T implements I { c: [[[Int!]]]! } type Query { t: T }",
	"interface I { c: [[[Int]]] } type T implements I { c: [[[Int!]!]!]! } type Query { t: T }",
	"interface I { c: [[Int]!] } interface J implements I { c: [[Int]] } type T implements J & I { c: [[Int]!] } type Query { t: T }",
	"interface I { c: [[Int!]] } type T implements I { c: [[Int]] } type Query { t: T }",
	// a prelude directive declared again by the document: the document's declaration is the one in force
	"directive @deprecated(reason: String = \"x\", since: String) on FIELD_DEFINITION | OBJECT type Query @deprecated(since: \"1\") { a: Int }",
	"directive @oneOf on OBJECT input In @oneOf { a: Int } type Query { f(i: In): Int }",
	"directive @skip(if: Missing!) on FIELD type Query { a: Int }",
	"directive @include(if: Query) on FIELD type Query { a: Int }",
	"directive @specifiedBy(url: String!, note: String!) on SCALAR scalar D @specifiedBy(url: \"u\") type Query { d: D }",
	// violations carried by types that exist only through extensions (the error is reported at the type itself)
	"extend type Ghost implements Missing { a: Int } type Query { g: Ghost }",
	"extend union U = Missing type Query { u: U }",
	"extend type __Ghost { a: Int } type Query { a: Int }",
	"extend interface Spook implements Missing { a: Int } type Query { a: Int }",
	"extend type Ghost { a: Missing } type Query { g: Ghost }",
	"extend input In { a: Query } type Query { f(i: In): Int }",
	"extend enum E @nodirective { A } type Query { e: E }",
	"extend type Ghost implements Query { a: Int } type Query { a: Int }",
	"type Query { a: Int }",
	"type Query { a: Int } type Query { b: Int }",
	"extend type Query { a: Int }",
	"type Query { a: Int } extend type Query { b: Int } extend type Query { c: Int }",
	"interface I { f(a: Int!): Int } type T implements I { f(a: Int): Int } type Query { t: T }",
	"interface I { f(a: Int): Int } type T implements I { f(a: Int!): Int } type Query { t: T }",
	"interface I { f: [Int!] } type T implements I { f: [Int] } type Query { t: T }",
	"interface I { f: [Int] } type T implements I { f: [Int!]! } type Query { t: T }",
	"interface I { f: I } type T implements I { f: T } type Query { t: T }",
	"interface I { f: U } type A implements I { f: B } type B { x: Int } union U = Missing | B type Query { a: A }",
	"interface I { f: U } type A implements I { f: B } type B { x: Int } union U = B type Query { a: A }",
	"interface A implements B { x: Int } interface B implements A { x: Int } type Query { a: A }",
	"interface A { x: Int } interface B implements A { x: Int y: Int } type T implements B { x: Int y: Int } type Query { t: T }",
	"interface A { x: Int } interface B implements A { x: Int y: Int } type T implements B & A { x: Int y: Int } type Query { t: T }",
	"enum E { __x } type Query { e: E }",
	"enum E { true } type Query { e: E }",
	"enum E type Query { e: Int }",
	"union U type Query { e: Int }",
	"scalar S @specifiedBy(url: \"x\") type Query { s: S }",
	"scalar S @specifiedBy type Query { s: S }",
	"scalar S @specifiedBy(url: null) type Query { s: S }",
	"type Query { a: Int @deprecated(reason: \"r\") b: Int @deprecated }",
	"type Query { a: Int @include(if: true) }",
	"directive @d on FIELD_DEFINITION directive @d on FIELD_DEFINITION type Query { a: Int @d }",
	"directive @include(if: Boolean!) on FIELD type Query { a: Int }",
	"directive @a(x: Int @a) on ARGUMENT_DEFINITION type Query { a: Int }",
	"schema { query: Q } type Q { a: Int } type Mutation { m: Int }",
	"schema { query: Q mutation: Missing } type Q { a: Int }",
	"schema { query: Q } schema { query: Q } type Q { a: Int }",
	"extend schema { mutation: M } type Query { a: Int } type M { m: Int }",
	"type Query { a: Int } type Subscription { s: Int } type Mutation { m: Int }",
	"type Mutation { m: Int }",
	"input In { a: In! } type Query { f(i: In): Int }",
	"input In { a: Out } type Out { x: Int } type Query { f(i: In): Int }",
	"type Query { f(i: Query): Int }",
	"type Query { f: In } input In { a: Int }",
	"type Query implements Int { a: Int }",
	"union U = Int type Query { u: U }",
	"union U = I interface I { a: Int } type Query { u: U }",
	"extend type Missing { a: Int } type Query { m: Missing }",
	"extend interface Missing { a: Int } type T implements Missing { a: Int } type Query { t: T }",
	"type A { a: Int } extend interface A { b: Int } type Query { a: A }",
	"type __T { a: Int } type Query { t: __T }",
	"type Query { __a: Int }",
	"type Query { a(__x: Int): Int }",
	"directive @__d on FIELD type Query { a: Int }",
	"type Query { a: Int a: String }",
	"type Query { a: Int } extend type Query { a: Int }",
	"input In @oneOf { a: Int b: String } type Query { f(i: In): Int }",
	"scalar Int type Query { a: Int }",
	"type String { a: Int } type Query { a: Int }",
	"type Query { a: [[Int!]!]! b(x: [In!] = [{a: 1}]): E } input In { a: Int = 3 } enum E { A B }",
	"interface Node { id: ID } interface Resource { id: ID url: String } extend interface Resource implements Node type Query { r: Resource }",
	"interface Node { id: ID } interface Resource { url: String } extend interface Resource implements Node type Query { r: Resource }",
	"interface Node { id: ID } interface Resource { id: ID } extend interface Resource implements Node type T implements Resource { id: ID } type Query { t: T }",
	"interface I { f: [String!] } type T implements I { f: [String] } type Query { t: T }",
	"interface I { f: [[Int!]!]! } type T implements I { f: [[Int]!]! } type Query { t: T }",
	"interface I { f: [[Int]] } type T implements I { f: [[Int!]!]! } type Query { t: T }",
	"type Dog { n: Int } extend type Dog implements Pet { p: Int } extend type Dog implements Named { q: Int } interface Pet { p: Int } interface Named { q: Int } type Query { d: Dog }",
	"extend type Dog implements Pet { p: Int } extend type Dog implements Named { q: Int } interface Pet { p: Int } interface Named { q: Int } type Query { d: Dog n: Named }",
}
