package checks

import (
	"encoding/json"
	"fmt"
	"math/rand"

	"github.com/vektah/gqlparser/v2/ast"
	"github.com/vektah/gqlparser/v2/lexer"
	"github.com/vektah/gqlparser/v2/parser"

	"verif/harness/core"
)

func init() {
	Registry["C05"] = checkC05
	Replays["C05"] = func(c *core.Ctx, p string) int { return grammarReplay(c, p, queryBind()) }
}

var queryClasses = []string{"NAME", "ON", "OP", "FRAGMENT", "BOOL", "NULL", "LB", "RB", "LP", "RP", "LK", "RK", "COLON", "EQ", "BANG", "DOLLAR", "AT", "SPREAD", "INT", "FLOAT", "STR", "PIPE"}

var punctText = map[string]string{"LB": "{", "RB": "}", "LP": "(", "RP": ")", "LK": "[", "RK": "]", "COLON": ":", "EQ": "=", "BANG": "!", "DOLLAR": "$", "AT": "@", "SPREAD": "...", "AMP": "&"}

func queryLexeme(class string, i int) RTok {
	mk := func(t string) RTok { return RTok{Class: class, Text: t, Value: t} }
	switch class {
	case "NAME":
		return mk("n" + itoa(i))
	case "ON":
		return mk("on")
	case "OP":
		return mk([]string{"query", "mutation", "subscription"}[i%3])
	case "FRAGMENT":
		return mk("fragment")
	case "BOOL":
		return mk([]string{"true", "false"}[i%2])
	case "NULL":
		return mk("null")
	case "INT":
		return mk([]string{"0", "-3", "17", "2147483648"}[i%4])
	case "FLOAT":
		return mk([]string{"1.5", "-2e3", "0.0E-1"}[i%3])
	case "STR":
		switch i % 3 {
		case 0:
			return RTok{Class: class, Text: `"s` + itoa(i) + `\n\"q"`, Value: "s" + itoa(i) + "\n\"q"}
		case 1:
			return RTok{Class: class, Text: `"""b` + itoa(i) + `"""`, Value: "b" + itoa(i)}
		default:
			return RTok{Class: class, Text: `""`, Value: ""}
		}
	case "PIPE":
		return mk([]string{"|", "&"}[i%2])
	}
	return mk(punctText[class])
}

func parseQueryReal(src string) (tree []GT, ok bool, crash string) {
	defer guard("parser.ParseQuery", src)()
	defer func() {
		if r := recover(); r != nil {
			crash = fmt.Sprintf("panic: %v", r)
		}
	}()
	doc, err := parser.ParseQuery(&ast.Source{Input: src, Name: "q"})
	if err != nil {
		return nil, false, ""
	}
	if doc == nil {
		return nil, false, "nil document with nil error"
	}
	return ProjectQuery(doc), true, ""
}

func queryBind() *GrammarBind {
	return &GrammarBind{Prop: "C05", Module: "QueryGrammar_MC", Classes: queryClasses, Lexeme: queryLexeme, Parse: parseQueryReal, Norm: opsBeforeFrags}
}

// classOfQueryToken maps a real lexer token to the automaton's class.
func classOfQueryToken(t lexer.Token) string {
	switch t.Kind {
	case lexer.Name:
		switch t.Value {
		case "on":
			return "ON"
		case "query", "mutation", "subscription":
			return "OP"
		case "fragment":
			return "FRAGMENT"
		case "true", "false":
			return "BOOL"
		case "null":
			return "NULL"
		}
		return "NAME"
	case lexer.Int:
		return "INT"
	case lexer.Float:
		return "FLOAT"
	case lexer.String, lexer.BlockString:
		return "STR"
	case lexer.Bang:
		return "BANG"
	case lexer.Dollar:
		return "DOLLAR"
	case lexer.Amp, lexer.Pipe:
		return "PIPE"
	case lexer.ParenL:
		return "LP"
	case lexer.ParenR:
		return "RP"
	case lexer.Spread:
		return "SPREAD"
	case lexer.Colon:
		return "COLON"
	case lexer.Equals:
		return "EQ"
	case lexer.At:
		return "AT"
	case lexer.BracketL:
		return "LK"
	case lexer.BracketR:
		return "RK"
	case lexer.BraceL:
		return "LB"
	case lexer.BraceR:
		return "RB"
	}
	return "?"
}

// lexClasses lexes src with the real lexer and returns classes and token texts
// (decoded values), skipping comments. ok=false if the lexer reports an error.
func lexClasses(src string, classOf func(lexer.Token) string) (cls, lex []string, ok bool) {
	lx := lexer.New(&ast.Source{Input: src})
	cls, lex = []string{}, []string{}
	for {
		t, err := lx.ReadToken()
		if err != nil {
			return nil, nil, false
		}
		if t.Kind == lexer.EOF {
			return cls, lex, true
		}
		if t.Kind == lexer.Comment {
			continue
		}
		cls = append(cls, classOf(t))
		v := t.Value
		if v == "" && t.Kind != lexer.String && t.Kind != lexer.BlockString {
			v = t.Kind.String()
		}
		lex = append(lex, v)
	}
}

type grammarTraceCase struct {
	ID   int      `json:"id"`
	Cls  []string `json:"cls"`
	Lex  []string `json:"lex"`
	OK   bool     `json:"ok"`
	Tree []GT     `json:"tree"`
}

var queryMutPool = []string{"{", "}", "(", ")", "[", "]", ":", "=", "!", "$", "@", "...", "|", "&", "a", "on", "query", "fragment", "true", "null", "1", "2.5", `"s"`, "subscription"}

func grammarDevs(c *core.Ctx, names map[string]bool, parse func(string) ([]GT, bool, string)) []string {
	fs, err := core.LoadFindings()
	if err != nil {
		c.Internal("known_findings.json: %v", err)
		return nil
	}
	var devs []string
	for _, f := range fs {
		if !names[f.Dev] || f.Status != "open" {
			continue
		}
		var w struct {
			Input string `json:"input"`
		}
		json.Unmarshal(f.Witness, &w)
		_, ok, _ := parse(w.Input)
		if ok {
			devs = append(devs, f.Dev)
			if f.Property == c.ID {
				c.Known(f.Dev, fmt.Sprintf("input=%q: %s", w.Input, f.What))
			}
		} else {
			c.Logf("open finding %s no longer reproduces on its witness %q; the specification runs strict there", f.Dev, w.Input)
		}
	}
	return devs
}

func reportGrammar(c *core.Ctx, st *grammarStats, what string) {
	if st == nil {
		return
	}
	n := st.Accepted + st.Incomplete + st.BadToken
	c.Count(n, st.Accepted, n)
	c.Logf("%s: %d derivable sentences (parse + tree, two layouts), %d incomplete prefixes, %d prefix+inadmissible-token inputs; %d disagreements", what, st.Accepted, st.Incomplete, st.BadToken, st.N)
	for _, m := range st.Mismatches {
		if m.Kind == "internal" {
			c.Internal("%s: %s", what, m.Expected)
			continue
		}
		c.Violation(fmt.Sprintf("%s [%s] %s: text %q expected %s, observed %s", what, m.Source, m.Kind, m.Text, m.Expected, m.Observed), m)
	}
}

func checkC05(c *core.Ctx) {
	c.Rule = "inputs are (a) every path of the TLC state graph of QueryGrammar_MC: each derivable token sequence up to the bound (must parse, projected AST must equal the tree denoted by the specification's events, under two ignored-token layouts), each viable but incomplete prefix and each prefix followed by a token class the automaton does not admit (must fail); (b) a shortest derivable sentence through every transition of the larger graph, and near-miss sentences (an inadmissible class spliced in); (c) generated document trees and their single-token mutations, whose token classes (from the real lexer) are parsed by the specification in QueryGrammar_Trace. Non-trivial = derivable sentences whose tree is compared; distinct by construction (graph paths) or by text (generated)"
	c.Assumptions = []string{
		"QueryGrammar.tla is the reading of the October-2021 executable grammar used as oracle (fragment variable definitions accepted as documented extension)",
		"the projection ast.QueryDocument -> generic tree (checks/gtree.go) is trusted; Field.Alias defaults to the name; String and BlockString values are one leaf kind; operations are compared before fragments",
	}
	gen := &QGen{MaxDepth: 3}
	runGrammarCheck(c, queryBind(), GrammarPlan{
		PrinterKind: "query",
		HandTexts:   nestedListQueryTexts,
		DevNames:    map[string]bool{"EmptyDocument": true, "VarDirectivesNonConst": true},
		Invs:        "Nesting ConstNoVar TypeOK",
		MaxTok:      [2]int{6, 7}, Cover: [2]int{12, 16}, NDocs: [2]int{400, 6000},
		TraceModule: "QueryGrammar_Trace", ClassOf: classOfQueryToken, MutPool: queryMutPool,
		Gen: func(i int, rng *rand.Rand) ([]GT, []RTok, bool) {
			gen.R = rng
			gen.ConstFault = i%5 == 4
			doc := gen.Doc()
			return doc, UnparseQuery(doc, rng), gen.ConstFault
		},
	})
}

// grammarReplay re-runs one recorded sentence.
func grammarReplay(c *core.Ctx, path string, gb *GrammarBind) int {
	var rec struct {
		Case GrammarMismatch `json:"case"`
	}
	b, err := readFile(path)
	if err != nil || json.Unmarshal(b, &rec) != nil {
		fmt.Println("cannot read replay file", path)
		return 2
	}
	m := rec.Case
	tree, ok, crash := gb.Parse(m.Text)
	still := false
	switch m.Kind {
	case "crash":
		still = crash != ""
	case "accept":
		still = !ok
	case "reject":
		still = ok
	case "tree":
		still = !ok || gtListString(gb.Norm(tree)) != m.Expected
	}
	if still {
		fmt.Printf("VIOLATION property=%s replay=%s\n  text %q: expected %s\n", c.ID, path, m.Text, m.Expected)
		return 1
	}
	fmt.Printf("replay %s: text %q now behaves as specified\n", path, m.Text)
	return 0
}

// values with lists nested at every position, after earlier lists of the same document
var nestedListQueryTexts = []string{
	// empty lists between their delimiters (none is derivable), also with only ignored tokens inside
	`fragment F() on T { a }`, `query Q() { a }`, `{ a() }`, `{ a @d() }`, `query Q($v: Int @d()) { a }`, `fragment F( , ) on T { a }`, "{ ...F } fragment F ( # nothing\n ) on T @d { a }",
	`{ a { } }`, `{ }`, `query Q { }`, `{ a(b: {}) }`, `{ a(b: []) }`, `{ a(b: [,]) }`,
	// the directives of a fragment definition are not constant: variables may stand in them, directly and nested
	`fragment F on T @d(a: $v) { x }`, `fragment F on T @d(a: [1, {b: $v}]) @e(c: {k: [$w]}) { x }`, `fragment F($a: Int) on T @d(a: $a) { x @e(b: $a) }`,
	// type references with non-null at every level
	`query($a: [[Int]!], $b: [[[ID!]!]!]!, $c: [[Int!]]!, $d: [[[T]]!]) { f }`,
	// a variable at every constant position, directly and nested (none is derivable), and the admissible neighbours
	`query Q($a: Int @d(x: $b), $b: Int) { f }`, `query Q($a: Int = $b, $b: Int) { f }`, `query Q($a: [Int] = [$b]) { f }`, `query Q($a: Int @d(x: [$b])) { f }`,
	`query Q($a: Int @d(x: {k: $b})) { f }`, `query Q($a: Int @d(x: 1, y: $a)) { f }`, `query Q($a: In = {k: $a}) { f }`, `query Q($a: Int = 1 @d(x: 2) @e(y: $a)) { f }`,
	`fragment F($a: Int @d(x: $a)) on T { f }`, `fragment F($a: Int = $a) on T { f }`, `query Q($a: Int @d(x: 1)) @d(x: $a) { f @d(x: $a) ... @d(x: $a) { g } ...F @d(x: [$a]) }`,
	`query Q($a: Int @d(x: 1) = 2) { f }`, `query Q($a: Int @d) { f(x: $a) }`, `query Q($a: Int = 1 @d(x: [1, {k: 2}])) { f }`,
	// type conditions are names: no list or non-null wrapper
	`fragment F on T! { a }`, `fragment F on [T] { a }`, `{ ... on T! { a } }`, `{ ... on [T] { a } }`, `{ ... on [T!]! { a } }`, `fragment F on T { ... on U! { a } }`,
	`{ f(ids: [7, 8, 9], m: [[1, 2], [3, 4]]) g(m: [a, {k: [b]}, c]) }`,
	`query($v: [[Int]] = [[1], [2, 3], []]) { f(a: [$v, [$v]], b: [[1], [[2], [3]]]) @d(x: [[0, 1], [2, 3]]) }`,
	`{ a(x: [1]) b(x: [[2], [3]]) c(x: [[[4]], [[5], [6]]]) d(x: [{k: [7]}, {k: [[8], [9]]}]) e(x: [[], [[]], [[], []]]) }`,
}
