package checks

import (
	"bufio"
	"encoding/hex"
	"encoding/json"
	"fmt"
	"math/rand"
	"os"
	"os/exec"
	"strings"
	"time"

	"github.com/vektah/gqlparser/v2"
	"github.com/vektah/gqlparser/v2/ast"
	"github.com/vektah/gqlparser/v2/parser"
	"github.com/vektah/gqlparser/v2/validator"
	"github.com/vektah/gqlparser/v2/verifhook"

	"verif/harness/core"
	"verif/harness/tlc"
)

func init() {
	Registry["C02"] = checkC02
	workers["val"] = valWorker
}

type valReq struct {
	Kind  string `json:"kind"` // "load" | "validate"
	SDL   string `json:"sdl"`
	Query string `json:"-"`
}

// the texts travel as hexadecimal: JSON would replace bytes that are not UTF-8
func (r valReq) MarshalJSON() ([]byte, error) {
	return json.Marshal(map[string]string{"kind": r.Kind, "sdl": hex.EncodeToString([]byte(r.SDL)), "query": hex.EncodeToString([]byte(r.Query))})
}

func (r *valReq) UnmarshalJSON(b []byte) error {
	var m map[string]string
	if err := json.Unmarshal(b, &m); err != nil {
		return err
	}
	sdl, _ := hex.DecodeString(m["sdl"])
	q, _ := hex.DecodeString(m["query"])
	r.Kind, r.SDL, r.Query = m["kind"], string(sdl), string(q)
	return nil
}

type valRes struct {
	Kind       string  `json:"kind"`
	OKXorErr   bool    `json:"okxorerr"`
	Loaded     bool    `json:"loaded"`
	Parsed     bool    `json:"parsed"`
	Nodes      int     `json:"nodes"`
	Frags      int     `json:"frags"`
	Ops        int     `json:"ops"`
	Steps      []int64 `json:"steps"`
	Budget     bool    `json:"budget"`
	BudgetSite int     `json:"budgetSite"`
	NErrs      int     `json:"nerrs"`
}

type stepBudget struct{ site int }

const maxSteps = 30_000_000

func countSelections(ss ast.SelectionSet) int {
	n := 0
	for _, s := range ss {
		n++
		switch s := s.(type) {
		case *ast.Field:
			n += countSelections(s.SelectionSet)
		case *ast.InlineFragment:
			n += countSelections(s.SelectionSet)
		}
	}
	return n
}

// valWorker: one request per line; "B n" before, "R json" after (see totalWorker)
func valWorker(args []string) int {
	sc := bufio.NewScanner(os.Stdin)
	sc.Buffer(make([]byte, 1<<20), 1<<28)
	w := bufio.NewWriterSize(os.Stdout, 1<<16)
	schemas := map[string]*ast.Schema{}
	n := 0
	for sc.Scan() {
		var rq valReq
		if err := json.Unmarshal(sc.Bytes(), &rq); err != nil {
			return 2
		}
		fmt.Fprintf(w, "B %d\n", n)
		w.Flush()
		res := valRes{Kind: rq.Kind, Steps: make([]int64, 8)}
		if rq.Kind == "load" {
			s, err := gqlparser.LoadSchema(&ast.Source{Name: "s.graphql", Input: rq.SDL})
			res.OKXorErr = (s != nil) != (err != nil)
			res.Loaded = err == nil
		} else {
			schema := schemas[rq.SDL]
			if schema == nil {
				s, err := gqlparser.LoadSchema(&ast.Source{Name: "s.graphql", Input: rq.SDL})
				if err == nil {
					schema = s
					schemas[rq.SDL] = s
				}
			}
			res.Loaded = schema != nil
			if schema != nil {
				doc, perr := parser.ParseQuery(&ast.Source{Name: "q.graphql", Input: rq.Query})
				if perr == nil {
					res.Parsed = true
					res.Ops, res.Frags = len(doc.Operations), len(doc.Fragments)
					for _, o := range doc.Operations {
						res.Nodes += countSelections(o.SelectionSet)
					}
					for _, f := range doc.Fragments {
						res.Nodes += countSelections(f.SelectionSet)
					}
					func() {
						defer func() {
							verifhook.OnStep = nil
							if r := recover(); r != nil {
								if sb, ok := r.(stepBudget); ok {
									res.Budget, res.BudgetSite = true, sb.site+1
									return
								}
								panic(r)
							}
						}()
						verifhook.OnStep = func(site int) {
							res.Steps[site+1]++
							if res.Steps[site+1] > maxSteps {
								panic(stepBudget{site})
							}
						}
						errs := validator.Validate(schema, doc)
						res.NErrs = len(errs)
					}()
					res.OKXorErr = true
				}
			}
		}
		res.Steps = res.Steps[1:]
		b, _ := json.Marshal(res)
		w.WriteString("R ")
		w.Write(b)
		w.WriteByte('\n')
		n++
	}
	w.Flush()
	return 0
}

// runValBatch: like runTotalBatch for the validation worker
func runValBatch(c *core.Ctx, reqs []valReq, perCase time.Duration, sink func(int, *valRes)) {
	deaths := 0
	start := 0
	for start < len(reqs) {
		exe, _ := os.Executable()
		cmd := exec.Command(exe, "__worker", "val")
		stdin, _ := cmd.StdinPipe()
		stdout, _ := cmd.StdoutPipe()
		var errTail strings.Builder
		cmd.Stderr = &limitedWriter{b: &errTail, max: 2500}
		if err := cmd.Start(); err != nil {
			c.Internal("cannot start worker: %v", err)
			return
		}
		go func(from int) {
			w := bufio.NewWriter(stdin)
			for i := from; i < len(reqs); i++ {
				b, _ := json.Marshal(reqs[i])
				w.Write(b)
				w.WriteByte('\n')
			}
			w.Flush()
			stdin.Close()
		}(start)
		lines := make(chan string, 1024)
		go func() {
			rd := bufio.NewReaderSize(stdout, 1<<20)
			for {
				line, err := rd.ReadString('\n')
				if len(line) > 0 {
					lines <- strings.TrimRight(line, "\n")
				}
				if err != nil {
					close(lines)
					return
				}
			}
		}()
		done := start
		hung := false
	loop:
		for {
			select {
			case line, ok := <-lines:
				if !ok {
					break loop
				}
				if strings.HasPrefix(line, "R ") {
					var vr valRes
					if err := json.Unmarshal([]byte(line[2:]), &vr); err != nil {
						c.Internal("worker result: %v", err)
					} else {
						sink(done, &vr)
					}
					done++
				}
			case <-time.After(perCase):
				hung = true
				cmd.Process.Kill()
				break loop
			}
		}
		cmd.Wait()
		if done >= len(reqs) {
			return
		}
		what := "process died"
		if hung {
			what = fmt.Sprintf("no result within %v (hang)", perCase)
		}
		rq := reqs[done]
		c.Violation(fmt.Sprintf("%s while %s: schema %q document %q: %s", what, rq.Kind, clip(rq.SDL, 300), clip(rq.Query, 600), firstLines(errTail.String(), 5)),
			map[string]any{"request": rq, "what": what, "stderr": errTail.String()})
		deaths++
		if deaths >= 40 {
			c.Logf("stopped after %d crashes / hangs of the child process (each is reported above)", deaths)
			return
		}
		start = done + 1
		for range lines {
		}
	}
}

const adversarySDL = `type Query { q: Query i: Int l: [Query] j(a: Int): Int pet: Pet o(a: In): Int any(x: Any): Int } scalar Any input In { a: In v: Int l: [In] w: Int } type Subscription { q: Query i: Int } type Mutation { q: Query }
interface Pet { owner: Query } type Dog implements Pet { owner: Query } type Cat implements Pet { owner: Query }`

// adversarial, size-parametrised families
func adversaryDoc(family string, n int) string {
	var b strings.Builder
	rep := strings.Repeat
	switch family {
	case "fanout-introspection":
		b.WriteString("{ __schema { types { ...F0 } } }")
		for i := 0; i < n; i++ {
			fmt.Fprintf(&b, " fragment F%d on __Type { ...F%d ...F%d }", i, i+1, i+1)
		}
		fmt.Fprintf(&b, " fragment F%d on __Type { name }", n)
	case "fanout-field":
		b.WriteString("{ q { ...F0 } }")
		for i := 0; i < n; i++ {
			fmt.Fprintf(&b, " fragment F%d on Query { ...F%d ...F%d }", i, i+1, i+1)
		}
		fmt.Fprintf(&b, " fragment F%d on Query { i }", n)
	case "fanout-top":
		b.WriteString("{ ...F0 }")
		for i := 0; i < n; i++ {
			fmt.Fprintf(&b, " fragment F%d on Query { ...F%d ...F%d i }", i, i+1, i+1)
		}
		fmt.Fprintf(&b, " fragment F%d on Query { i }", n)
	case "fanout-subscription":
		b.WriteString("subscription { ...F0 }")
		for i := 0; i < n; i++ {
			fmt.Fprintf(&b, " fragment F%d on Subscription { ...F%d ...F%d }", i, i+1, i+1)
		}
		fmt.Fprintf(&b, " fragment F%d on Subscription { i }", n)
	case "fanout-fields":
		// every level under a field: conflicts are searched pairwise between sub-selections
		b.WriteString("{ q { ...F0 } q { ...F0 } }")
		for i := 0; i < n; i++ {
			fmt.Fprintf(&b, " fragment F%d on Query { q { ...F%d } q { ...F%d } }", i, i+1, i+1)
		}
		fmt.Fprintf(&b, " fragment F%d on Query { i }", n)
	case "cycle-through-fields":
		b.WriteString("{ q { ...A0 } }")
		for i := 0; i < n; i++ {
			fmt.Fprintf(&b, " fragment A%d on Query { q { ...A%d } i }", i, (i+1)%n)
		}
	case "mutual-overlap":
		b.WriteString("{ q { l { ...X } ...A0 } } fragment X on Query { i }")
		for i := 0; i < n; i++ {
			fmt.Fprintf(&b, " fragment A%d on Query { l { ...X } ...A%d }", i, (i+1)%n)
		}
	case "exclusive-then-shared":
		// two fragments that recurse through a field, first compared under mutually exclusive parents, then side by side
		b.WriteString("{ pet { ... on Dog { owner { ...A0 } } ... on Cat { owner { ...B0 } } } q { ...A0 ...B0 } }")
		for i := 0; i < n; i++ {
			fmt.Fprintf(&b, " fragment A%d on Query { l { ...A%d } } fragment B%d on Query { l { ...B%d } }", i, (i+1)%n, i, (i+1)%n)
		}
	case "shared-then-exclusive":
		b.WriteString("{ q { ...A0 ...B0 } pet { ... on Dog { owner { ...A0 } } ... on Cat { owner { ...B0 } } } }")
		for i := 0; i < n; i++ {
			fmt.Fprintf(&b, " fragment A%d on Query { l { ...A%d } i } fragment B%d on Query { l { ...B%d } i }", i, (i+1)%n, i, (i+1)%n)
		}
	case "twin-chains-exclusive":
		// two chains of fragments spread side by side; at every level both select the same response name under
		// two object type conditions of one interface, so each pair of the next level is looked at as exclusive
		// and as shared in turn (whatever is remembered about a pair must answer both)
		b.WriteString("{ pet { ...F0 ...G0 } }")
		for i := 0; i < n; i++ {
			fmt.Fprintf(&b, " fragment F%d on Pet { ... on Dog { a: owner { pet { ...F%d } } } ... on Cat { a: owner { pet { ...F%d } } } }", i, i+1, i+1)
			fmt.Fprintf(&b, " fragment G%d on Pet { ... on Dog { a: owner { pet { ...G%d } } } ... on Cat { a: owner { pet { ...G%d } } } }", i, i+1, i+1)
		}
		fmt.Fprintf(&b, " fragment F%d on Pet { __typename } fragment G%d on Pet { __typename }", n, n)
	case "self-cycle":
		b.WriteString("{ ...A } fragment A on Query { i ...A q { ...A } }" + rep(" ", n))
	case "deep-alias":
		b.WriteString(rep("{ a: q ", n) + "{ i }" + rep(" }", n))
	case "wide-same-name":
		b.WriteString("{ " + rep("x: i ", n) + "}")
	case "wide-conflicts":
		b.WriteString("{ ")
		for i := 0; i < n; i++ {
			fmt.Fprintf(&b, "x: j(a: %d) ", i)
		}
		b.WriteString("}")
	case "many-spreads-same":
		b.WriteString("{ " + rep("...F ", n) + "} fragment F on Query { i q { i } }")
	case "many-fragments-together":
		b.WriteString("{ ")
		for i := 0; i < n; i++ {
			fmt.Fprintf(&b, "...G%d ", i)
		}
		b.WriteString("}")
		for i := 0; i < n; i++ {
			fmt.Fprintf(&b, " fragment G%d on Query { q { i l { i } } }", i)
		}
	case "nested-inline":
		b.WriteString("{ " + rep("... on Query { ", n) + "i" + rep(" }", n) + " }")
	case "deep-object-args-equal", "deep-object-args-differ", "deep-object-args-reordered":
		// the argument comparison of the merge rule and the literal checks recurse into values
		d := 3 * n
		leaf := [2]string{"{v: 1, w: 2}", "{v: 1, w: 2}"}
		if family == "deep-object-args-differ" {
			leaf[1] = "{v: 2, w: 2}"
		}
		if family == "deep-object-args-reordered" {
			leaf[1] = "{w: 2, v: 1}"
		}
		b.WriteString("{ o(a: " + rep("{a: ", d) + leaf[0] + rep("}", d) + ") o(a: " + rep("{a: ", d) + leaf[1] + rep("}", d) + ") }")
	case "deep-list-args-equal":
		d := 3 * n
		v := rep("[", d) + "1, 2" + rep("]", d)
		b.WriteString("{ any(x: " + v + ") any(x: " + v + ") }")
	case "deep-object-lists-equal":
		d := 2 * n
		v := rep("{l: [", d) + "{v: 1}" + rep("]}", d)
		b.WriteString("{ o(a: " + v + ") o(a: " + v + ") o(a: " + v + ") }")
	case "deep-default-value":
		d := 3 * n
		b.WriteString("query($x: In = " + rep("{a: ", d) + "{v: 1}" + rep("}", d) + ", $y: Any = " + rep("[", d) + "$x" + rep("]", d) + ") { o(a: $x) any(x: $y) }")
	case "wide-object-args":
		var f strings.Builder
		for i := 0; i < 10*n; i++ {
			fmt.Fprintf(&f, "k%d: %d, ", i, i)
		}
		b.WriteString("{ any(x: {" + f.String() + "}) any(x: {" + f.String() + "}) }")
	case "many-unknown-args":
		// more (unknown) arguments than the field or directive declares, on a field that declares one
		var f strings.Builder
		for i := 0; i < n; i++ {
			fmt.Fprintf(&f, "u%d: %d, ", i, i)
		}
		b.WriteString("{ j(a: 1, " + f.String() + ") i @skip(if: true, " + f.String() + ") o(" + f.String() + ") }")
	case "invalid-utf8-in-literals":
		// bytes that are not UTF-8 inside string literals that error messages quote back
		bad := []string{"caf\xe9", "\xff\xfe", "ab\xe6\x97", "\xf0\x9f\x98", "\x80", "ok\xc3"}
		b.WriteString("{ ")
		for i := 0; i < n && i < 40; i++ {
			fmt.Fprintf(&b, "k%d: j(a: \"%s\") ", i, bad[i%len(bad)])
		}
		b.WriteString("o(a: {v: \"" + bad[n%len(bad)] + "\", zz: \"" + bad[(n+1)%len(bad)] + "\"}) i @skip(if: \"" + bad[(n+2)%len(bad)] + "\") }")
	case "undefined-everywhere":
		b.WriteString("query($a: Nope, $b: [In!]) { nope(x: $zz, y: {a: [$b, {c: $q}]}) @nope(a: $a) { ...Missing ... on Ghost { x @skip } } }" + rep(" ", n))
	}
	return b.String()
}

// adversarial type systems, size-parametrised: every one must come back from
// LoadSchema (loaded or rejected) without a crash and without the watchdog firing
func adversarySchema(family string, n int) string {
	var b strings.Builder
	rep := strings.Repeat
	join := func(from, to int, prefix string) string {
		var xs []string
		for i := from; i <= to; i++ {
			xs = append(xs, fmt.Sprintf("%s%d", prefix, i))
		}
		return strings.Join(xs, " & ")
	}
	switch family {
	case "iface-chain":
		for i := 0; i < n; i++ {
			fmt.Fprintf(&b, "interface I%d implements %s { x: Int } ", i, join(i+1, n, "I"))
		}
		fmt.Fprintf(&b, "interface I%d { x: Int } type Query implements %s { x: Int }", n, join(0, n, "I"))
	case "iface-cycle-behind-type":
		// the cycle members sort after the type that declares them all
		fmt.Fprintf(&b, "type A0 implements %s { x: Int } ", join(0, n-1, "N"))
		for i := 0; i < n; i++ {
			fmt.Fprintf(&b, "interface N%d implements N%d { x: Int } ", i, (i+1)%n)
		}
		b.WriteString("type Query { a: A0 }")
	case "iface-cycle-declared":
		for i := 0; i < n; i++ {
			fmt.Fprintf(&b, "interface N%d implements %s { x: Int } ", i, join(0, n-1, "N"))
		}
		fmt.Fprintf(&b, "type A0 implements %s { x: Int } type Query { a: A0 }", join(0, n-1, "N"))
	case "iface-self":
		b.WriteString("interface Node implements Node { x: Int } type A implements Node { x: Int } type Query { a: A }" + rep(" ", n))
	case "input-cycle-nonnull":
		for i := 0; i < n; i++ {
			fmt.Fprintf(&b, "input In%d { next: In%d! v: Int } ", i, (i+1)%n)
		}
		b.WriteString("type Query { f(x: In0): Int }")
	case "input-cycle-default":
		for i := 0; i < n; i++ {
			fmt.Fprintf(&b, "input In%d { next: In%d = {} v: Int } ", i, (i+1)%n)
		}
		b.WriteString("type Query { f(x: In0 = {}): Int }")
	case "deep-list-type":
		d := 3 * n
		fmt.Fprintf(&b, "type Query { f(x: %sInt%s = %s1%s): %sInt!%s }", rep("[", d), rep("]", d), rep("[", d), rep("]", d), rep("[", d), rep("]!", d))
	case "deep-default-object":
		d := 3 * n
		fmt.Fprintf(&b, "input In { a: In v: Int } type Query { f(x: In = %s{v: 1}%s): Int }", rep("{a: ", d), rep("}", d))
	case "union-many":
		b.WriteString("union U = ")
		for i := 0; i < 10*n; i++ {
			if i > 0 {
				b.WriteString(" | ")
			}
			fmt.Fprintf(&b, "T%d", i)
		}
		for i := 0; i < 10*n; i++ {
			fmt.Fprintf(&b, " type T%d { u: U }", i)
		}
		b.WriteString(" type Query { u: U }")
	case "directive-cycle":
		for i := 0; i < n; i++ {
			fmt.Fprintf(&b, "directive @d%d(x: Int @d%d) on ARGUMENT_DEFINITION ", i, (i+1)%n)
		}
		b.WriteString("type Query { f(a: Int @d0): Int }")
	case "extension-chain":
		b.WriteString("type Query { f0: Int }")
		for i := 1; i <= 10*n; i++ {
			fmt.Fprintf(&b, " extend type Query { f%d: Int }", i)
		}
	case "extension-of-missing":
		for i := 0; i < n; i++ {
			fmt.Fprintf(&b, "extend type Ghost%d { f: Int } extend interface Spook%d { f: Int } extend union U%d = Ghost%d extend enum E%d { A } extend input In%d { a: Int } extend scalar S%d @specifiedBy(url: \"u\") ", i, i, i, i, i, i, i)
		}
		b.WriteString("type Query { f: Int }")
	}
	return b.String()
}

var adversarySchemaFamilies = []string{"iface-chain", "iface-cycle-behind-type", "iface-cycle-declared", "iface-self", "input-cycle-nonnull", "input-cycle-default", "deep-list-type", "deep-default-object",
	"union-many", "directive-cycle", "extension-chain", "extension-of-missing"}

var adversaryFamilies = []string{"fanout-introspection", "fanout-field", "fanout-top", "fanout-subscription", "fanout-fields", "cycle-through-fields", "mutual-overlap", "exclusive-then-shared", "shared-then-exclusive", "twin-chains-exclusive", "self-cycle",
	"deep-alias", "wide-same-name", "wide-conflicts", "many-spreads-same", "many-fragments-together", "nested-inline", "undefined-everywhere",
	"deep-object-args-equal", "deep-object-args-differ", "deep-object-args-reordered", "deep-list-args-equal", "deep-object-lists-equal", "deep-default-value", "wide-object-args", "many-unknown-args", "invalid-utf8-in-literals"}

func checkC02(c *core.Ctx) {
	c.Rule = "cases are (a) LoadSchema on generated valid and faulty type systems, hand-written corner cases and grammar-directed type-blind SDL; (b) Validate on (schema, document) pairs: typed valid documents, documents with injected faults, grammar-directed type-blind documents over the schema's vocabulary (unknown types, undefined and unused variables, variables inside input objects inside unreachable fragments, unused and mutually recursive fragments, wrong value shapes, every directive everywhere); (c) twenty-seven adversarial document families and twelve adversarial type-system families (interface chains and cycles reached from a type that sorts first, input-object cycles through non-null fields and defaults, deep list types and default values, wide unions, directive cycles, long extension chains, extensions of missing types) at four sizes (fragment fan-out under introspection / fields / top level / subscriptions, cycles through fields, fragments spreading each other while overlapping, deep aliases, wide selection sets with one response name). Everything runs in a child process: a crash or 20 s of silence is attributed to its input. Returned cases carry the hook-H2 recursion step counters and Total2_Trace checks them against polynomial bounds in the document size. Non-trivial = documents with at least one fragment or one error; distinct by texts"
	c.Assumptions = []string{
		"termination / absence of panics is an observation of the Go runtime (child process + inactivity watchdog); the polynomial bound is stated on deterministic step counters (hook H2) with a hard budget of 30 million steps per site, not on seconds",
		"FragTraversal.tla: the Global discipline is linear on every graph of 3 fragments with at most two spreads each; OnPath is exponential on the fan-out family (model-checked)",
	}
	r := c.RunTLC(tlc.Opts{Module: "FragTraversal_MC", CfgFile: "FragTraversal_MC.cfg", Workers: 8})
	tlc.Cleanup(r)
	if c.HasInternal() {
		return
	}
	nschemas, ndocs, nload := 3, 150, 150
	sizes := []int{4, 8, 14, 22}
	if c.Thorough() {
		nschemas, ndocs, nload = 60, 800, 12000
		sizes = []int{4, 8, 14, 22, 30, 40, 56}
	}
	rng := rand.New(rand.NewSource(c.Seed*122949829 + 2))
	tg := &TGen{R: rng}
	var reqs []valReq
	// (a) loading
	for i := 0; i < nload; i++ {
		s := tg.Gen()
		switch i % 3 {
		case 1:
			tg.InjectFault(s)
		case 2:
			tg.InjectFault(s)
			tg.InjectFault(s)
		}
		reqs = append(reqs, valReq{Kind: "load", SDL: s.doc.SDL()})
	}
	for _, h := range handSchemas {
		reqs = append(reqs, valReq{Kind: "load", SDL: h})
	}
	sg := &SGen{R: rng, Q: &QGen{R: rng, MaxDepth: 2}}
	for i := 0; i < nload; i++ {
		toks := UnparseSchema(sg.Doc(), rng)
		if i%3 == 0 {
			toks, _ = MutateTokens(toks, rng, schemaMutPool)
		}
		reqs = append(reqs, valReq{Kind: "load", SDL: RenderSpaces(toks)})
	}
	// (b) validation
	for si := 0; si < nschemas; si++ {
		var schema *ast.Schema
		var sdl string
		for try := 0; try < 20 && schema == nil; try++ {
			gs := tg.Gen()
			sdl = gs.doc.SDL()
			if l, s, crash := loadReal([]*ast.Source{{Name: "schema.graphql", Input: sdl}}); crash == "" && l.OK {
				schema = s
			}
		}
		if schema == nil {
			c.Internal("could not generate a loadable schema")
			return
		}
		dg := &DGen{R: rng, S: schema}
		qg := &QGen{R: rng, MaxDepth: 4}
		vocab := schemaVocabulary(schema)
		for i := 0; i < ndocs; i++ {
			var text string
			switch i % 4 {
			case 0:
				text = RenderSpaces(UnparseQuery(dg.Doc(), nil))
			case 1:
				doc := dg.Doc()
				for k := 0; k < 1+rng.Intn(3); k++ {
					InjectDocFault(dg, &doc, rng)
				}
				text = RenderSpaces(UnparseQuery(doc, nil))
			default:
				text = RenderSpaces(UnparseQuery(renameToVocabulary(qg.Doc(), vocab, rng), nil))
			}
			reqs = append(reqs, valReq{Kind: "validate", SDL: sdl, Query: text})
		}
	}
	for _, q := range handRuleDocs {
		reqs = append(reqs, valReq{Kind: "validate", SDL: handRuleSDL, Query: q})
	}
	// ill-formed type systems (types that exist through extensions only, with invalid content) paired with documents
	// that touch the ill-formed spot: if such a type system ever loads, validation must still return
	for _, p := range [][2]string{
		{"type Query { foo: Foo } extend type Foo { bar: Missing }", "{ foo { bar bar } }"},
		{"type Query { u: U } type A { x: Int } extend union U = A | Ghost", "{ u { ... on A { x } ... on Ghost { x } } }"},
		{"type Query { u: U } type A { x: Int } extend union U = A | Ghost", "{ u { x } }"},
		{"type Query { f(i: In): Int } extend input In @d directive @d on INPUT_OBJECT", "{ f(i: {a: 1}) }"},
		{"type Query { i: I } extend interface I { x: Gone } type T implements I { x: Int }", "{ i { x { y } ... on T { x } } }"},
		{"type Query { e(v: E): E } extend enum E @d directive @d on ENUM", "{ e(v: A) }"},
	} {
		reqs = append(reqs, valReq{Kind: "validate", SDL: p[0], Query: p[1]}, valReq{Kind: "load", SDL: p[0]})
	}
	// (c) adversarial families
	for _, f := range adversaryFamilies {
		for _, n := range sizes {
			reqs = append(reqs, valReq{Kind: "validate", SDL: adversarySDL, Query: adversaryDoc(f, n)})
		}
	}
	for _, f := range adversarySchemaFamilies {
		for _, n := range sizes {
			reqs = append(reqs, valReq{Kind: "load", SDL: adversarySchema(f, n)})
		}
	}
	var lines [][]byte
	var events []int64
	descs := map[int]string{}
	var nontrivial int64
	runValBatch(c, reqs, 20*time.Second, func(i int, vr *valRes) {
		if vr.Kind == "validate" && !vr.Parsed {
			return
		}
		m := map[string]any{"id": i, "kind": vr.Kind, "okxorerr": vr.OKXorErr, "nodes": vr.Nodes, "frags": vr.Frags, "ops": vr.Ops, "steps": vr.Steps, "budget": vr.Budget, "budgetSite": vr.BudgetSite}
		b, _ := json.Marshal(m)
		lines = append(lines, b)
		events = append(events, 1)
		descs[i] = fmt.Sprintf("%s: schema %q document %q", vr.Kind, clip(reqs[i].SDL, 200), clip(reqs[i].Query, 700))
		if vr.Frags > 0 || vr.NErrs > 0 || (vr.Kind == "load" && !vr.Loaded) {
			nontrivial++
		}
		if len(lines) == 1 || reqs[i].SDL == adversarySDL && len(c.Samples) < 4 {
			c.Sample(map[string]any{"request": reqs[i], "result": vr})
		}
	})
	bad, ok := RunTrace(c, TraceJob{Module: "Total2_Trace", CfgText: "SPECIFICATION Spec\nCHECK_DEADLOCK FALSE\n", Lines: lines, Events: events, Shards: 8})
	if !ok {
		return
	}
	c.Count(int64(len(lines)), nontrivial, int64(len(lines)))
	c.Logf("Total2_Trace: %d cases returned normally and were validated, %d disagreements", len(lines), len(bad))
	for _, raw := range bad {
		var b struct {
			ID    int    `json:"id"`
			Class string `json:"class"`
		}
		json.Unmarshal(raw, &b)
		c.Violation(fmt.Sprintf("%s; %s", b.Class, descs[b.ID]), map[string]any{"request": reqs[b.ID], "what": b.Class})
	}
}
