package checks

import (
	"encoding/json"
	"fmt"

	"github.com/vektah/gqlparser/v2/ast"
	"github.com/vektah/gqlparser/v2/parser"

	"verif/harness/core"
	"verif/harness/tlc"
)

// ---- TypeAlgebra_MC: every ordered pair of type references up to list depth 3,
// printed by TLC with the expected results, replayed into ast.Type ----

type tlaType struct {
	K    string    `json:"k"`
	Name string    `json:"name"`
	NN   bool      `json:"nn"`
	Of   []tlaType `json:"of"`
}

func (t tlaType) ast() *ast.Type {
	if t.K == "named" {
		return &ast.Type{NamedType: t.Name, NonNull: t.NN}
	}
	return &ast.Type{Elem: t.Of[0].ast(), NonNull: t.NN}
}

func sameType(a, b *ast.Type) bool {
	if a == nil || b == nil {
		return a == b
	}
	return a.NamedType == b.NamedType && a.NonNull == b.NonNull && sameType(a.Elem, b.Elem)
}

func typeAlgebra(c *core.Ctx) {
	type row struct {
		A      tlaType `json:"a"`
		B      tlaType `json:"b"`
		AStr   string  `json:"astr"`
		AName  string  `json:"aname"`
		Compat bool    `json:"compat"`
	}
	var rows []row
	nbad := 0
	type kindRow struct {
		Leaf      bool `json:"leaf"`
		Abstract  bool `json:"abstract"`
		Composite bool `json:"composite"`
		Input     bool `json:"input"`
	}
	var kinds map[string]kindRow
	r := c.RunTLC(tlc.Opts{Module: "TypeAlgebra_MC", CfgFile: "TypeAlgebra_MC.cfg", Workers: 4, LineFn: func(l string) {
		if js, ok := tlc.PrintedJSON(l, "KINDS"); ok {
			var kr struct {
				Rows map[string]kindRow `json:"rows"`
			}
			if json.Unmarshal([]byte(js), &kr) == nil && len(kr.Rows) > 0 {
				kinds = kr.Rows
			}
			return
		}
		js, ok := tlc.PrintedJSON(l, "CASE")
		if !ok {
			return
		}
		var rw row
		if json.Unmarshal([]byte(js), &rw) != nil {
			nbad++
			return
		}
		rows = append(rows, rw)
	}})
	tlc.Cleanup(r)
	if c.HasInternal() {
		return
	}
	if nbad > 0 || int64(len(rows)) != r.Distinct {
		c.Internal("TypeAlgebra_MC: %d rows (%d unparsable) for %d states", len(rows), nbad, r.Distinct)
		return
	}
	if len(kinds) != 6 {
		c.Internal("TypeAlgebra_MC: kind table not received (%d rows)", len(kinds))
		return
	}
	for k, want := range kinds {
		d := &ast.Definition{Kind: ast.DefinitionKind(k), Name: "T"}
		got := kindRow{d.IsLeafType(), d.IsAbstractType(), d.IsCompositeType(), d.IsInputType()}
		if got != want {
			c.Violation(fmt.Sprintf("ast.Definition of kind %s: IsLeafType/IsAbstractType/IsCompositeType/IsInputType = %+v, specification %+v", k, got, want), map[string]any{"kind": k})
		}
		if !d.OneOf("A", "T") || d.OneOf("A", "B") || d.OneOf() {
			c.Violation(fmt.Sprintf("ast.Definition.OneOf does not test the name (kind %s)", k), map[string]any{"kind": k})
		}
	}
	viol := 0
	report := func(msg string, rw row) {
		viol++
		if viol <= 25 {
			c.Violation(msg, map[string]any{"a": rw.AStr, "b": rw.B, "what": msg})
		}
	}
	for _, rw := range rows {
		func() {
			defer guard("ast.Type helpers", rw.AStr)()
			defer func() {
				if rec := recover(); rec != nil {
					report(fmt.Sprintf("ast.Type helper panicked on %s: %v", rw.AStr, rec), rw)
				}
			}()
			a, b := rw.A.ast(), rw.B.ast()
			if got := a.String(); got != rw.AStr {
				report(fmt.Sprintf("Type.String() = %q, specification TypeStr = %q", got, rw.AStr), rw)
			}
			if got := a.Dump(); got != rw.AStr {
				report(fmt.Sprintf("Type.Dump() = %q, specification TypeStr = %q", got, rw.AStr), rw)
			}
			if got := a.Name(); got != rw.AName {
				report(fmt.Sprintf("Type.Name() of %s = %q, specification BaseName = %q", rw.AStr, got, rw.AName), rw)
			}
			if got := a.IsCompatible(b); got != rw.Compat {
				report(fmt.Sprintf("(%s).IsCompatible(%s) = %v, specification Compatible = %v", rw.AStr, b.String(), got, rw.Compat), rw)
			}
			// the source form denotes the type: the parser reads TypeStr(a) back as a
			if doc, err := parser.ParseQuery(&ast.Source{Name: "t", Input: "query($v: " + rw.AStr + ") { f }"}); err != nil || len(doc.Operations) != 1 || len(doc.Operations[0].VariableDefinitions) != 1 {
				report(fmt.Sprintf("the source form %q of a type does not parse as a variable type: %v", rw.AStr, err), rw)
			} else if got := doc.Operations[0].VariableDefinitions[0].Type; !sameType(got, a) {
				report(fmt.Sprintf("the source form %q parses as %s", rw.AStr, got.String()), rw)
			}
			// the constructors build what they say
			var built *ast.Type
			if rw.A.K == "named" {
				if rw.A.NN {
					built = ast.NonNullNamedType(rw.A.Name, nil)
				} else {
					built = ast.NamedType(rw.A.Name, nil)
				}
			} else if rw.A.NN {
				built = ast.NonNullListType(rw.A.Of[0].ast(), nil)
			} else {
				built = ast.ListType(rw.A.Of[0].ast(), nil)
			}
			if !sameType(built, a) {
				report(fmt.Sprintf("constructor for %s built %s", rw.AStr, built.String()), rw)
			}
		}()
	}
	c.AddExtraInt("type_algebra_pairs", int64(len(rows)))
	c.Logf("TypeAlgebra_MC: %d ordered pairs of type references (list depth <= 3) replayed into ast.Type.String / Name / IsCompatible / constructors / the parser", len(rows))
}
