package checks

import (
	"fmt"
	"math/rand"
	"strconv"
	"strings"
)

// QGen generates random executable documents as generic trees (the same
// shape the specification's events denote) and unparses them to tokens.
// It is grammar-directed and type-blind.
type QGen struct {
	R        *rand.Rand
	MaxDepth int
	// ConstFault: when set, constant contexts (variable default values,
	// directives on variable definitions) occasionally contain a variable,
	// which the grammar forbids: the document must then be rejected.
	ConstFault bool
	// Unicode: string values may contain non-ASCII, non-BMP, non-printable and control characters
	Unicode bool
}

var qNames = []string{"a", "b", "c2", "_x", "on", "query", "mutation", "subscription", "fragment", "type", "null", "true", "false", "input", "Foo", "id", "x1", "extend", "schema"}
var qEnumNames = []string{"a", "RED", "on", "query", "fragment", "Foo", "_e", "schema", "type"}

func (g *QGen) name() string { return qNames[g.R.Intn(len(qNames))] }
func (g *QGen) nameNot(bad ...string) string {
	for {
		n := g.name()
		ok := true
		for _, b := range bad {
			if n == b {
				ok = false
			}
		}
		if ok {
			return n
		}
	}
}

var qUnicodeStrings = []string{"é", "日本語", "\U0001F600 smile", "tag\U000E0001", "ls\u2028ps\u2029", "bell\x07", "nul\x00", "del\x7f", "\u00a0nbsp", "q\"é\\", "\ufeffbom", "esc\x1b[0m", "\"\"\"", "a\"\"\"b\n  c", "\\\"\"\"", "  \n x \n",
	"first \"line\"\ndéjà vu \U0001F600 ok", "tab\té", "back\\slash é日本", "q\"é", "x\ny日本\n  z", "\"\"\" é"}

func (g *QGen) strValue() string {
	if g.Unicode && g.R.Intn(2) == 0 {
		return qUnicodeStrings[g.R.Intn(len(qUnicodeStrings))]
	}
	pool := []string{"", "s", "hello world", `q"q`, `b\s`, "tab\there", "nl\nx", "  lead", "trail  ", "ascii only ~", "#not comment", `""`, `\"""`, "a\r\nb", "/", "\b\f", "{}[]()$@!:=|&...", "0", "-1.5e3", "x\u0001y", "\u007f"}
	return pool[g.R.Intn(len(pool))]
}

func (g *QGen) Value(depth int, allowVar bool) GT {
	if !allowVar && g.ConstFault && g.R.Intn(3) == 0 {
		allowVar = true
	}
	k := g.R.Intn(12)
	if depth <= 0 && k >= 9 {
		k = g.R.Intn(9)
	}
	switch k {
	case 0:
		if allowVar {
			return leaf("var", g.name())
		}
		return leaf("int", "0")
	case 1:
		return leaf("int", []string{"0", "1", "-7", "42", "2147483648", "-0", "9007199254740993"}[g.R.Intn(7)])
	case 2:
		return leaf("float", []string{"1.5", "-0.0", "1e3", "2.5E-2", "6.02e+23", "0.1"}[g.R.Intn(6)])
	case 3, 4:
		return leaf("str", g.strValue())
	case 5:
		return leaf("bool", []string{"true", "false"}[g.R.Intn(2)])
	case 6:
		return leaf("null", "null")
	case 7, 8:
		return leaf("enum", qEnumNames[g.R.Intn(len(qEnumNames))])
	case 9, 10:
		n := GT{T: "listv"}
		for i := g.R.Intn(4); i > 0; i-- {
			n.K = append(n.K, g.Value(depth-1, allowVar))
		}
		return n
	default:
		n := GT{T: "obj"}
		for i := g.R.Intn(3); i > 0; i-- {
			n.K = append(n.K, GT{T: "objfield", K: []GT{leaf("name", g.name()), g.Value(depth-1, allowVar)}})
		}
		return n
	}
}

func (g *QGen) Type(depth int) GT {
	var n GT
	if depth > 0 && g.R.Intn(3) == 0 {
		n = GT{T: "list", K: []GT{g.Type(depth - 1)}}
	} else {
		n = GT{T: "named", K: []GT{leaf("name", g.name())}}
	}
	if g.R.Intn(3) == 0 {
		n.K = append(n.K, leaf("nn", "!"))
	}
	return n
}

func (g *QGen) Dirs(allowVar bool) []GT {
	var out []GT
	for g.R.Intn(4) == 0 {
		d := GT{T: "dir", K: []GT{leaf("name", g.name())}}
		d.K = append(d.K, g.Args(allowVar)...)
		out = append(out, d)
	}
	return out
}

func (g *QGen) Args(allowVar bool) []GT {
	var out []GT
	if g.R.Intn(3) != 0 {
		return nil
	}
	for i := 1 + g.R.Intn(3); i > 0; i-- {
		out = append(out, GT{T: "arg", K: []GT{leaf("name", g.name()), g.Value(2, allowVar)}})
	}
	return out
}

func (g *QGen) VarDefs() []GT {
	var out []GT
	if g.R.Intn(2) == 0 {
		return nil
	}
	for i := 1 + g.R.Intn(3); i > 0; i-- {
		v := GT{T: "vardef", K: []GT{leaf("var", g.name()), g.Type(2)}}
		if g.R.Intn(3) == 0 {
			v.K = append(v.K, GT{T: "default", K: []GT{g.Value(2, false)}})
		}
		v.K = append(v.K, g.Dirs(false)...)
		out = append(out, v)
	}
	return out
}

func (g *QGen) SelSet(depth int) []GT {
	var out []GT
	for i := 1 + g.R.Intn(4); i > 0; i-- {
		switch k := g.R.Intn(10); {
		case k < 6 || depth <= 0:
			f := GT{T: "field"}
			nm := g.name()
			al := nm
			if g.R.Intn(4) == 0 {
				al = g.name()
			}
			f.K = append(f.K, leaf("alias", al), leaf("name", nm))
			f.K = append(f.K, g.Args(true)...)
			f.K = append(f.K, g.Dirs(true)...)
			if depth > 0 && g.R.Intn(3) == 0 {
				f.K = append(f.K, g.SelSet(depth-1)...)
			}
			out = append(out, f)
		case k < 8:
			s := GT{T: "spread", K: []GT{leaf("name", g.nameNot("on"))}}
			s.K = append(s.K, g.Dirs(true)...)
			out = append(out, s)
		default:
			n := GT{T: "inline"}
			if g.R.Intn(3) != 0 {
				n.K = append(n.K, leaf("typecond", g.name()))
			}
			n.K = append(n.K, g.Dirs(true)...)
			n.K = append(n.K, g.SelSet(depth-1)...)
			out = append(out, n)
		}
	}
	return out
}

func (g *QGen) Doc() []GT {
	var out []GT
	for i := 1 + g.R.Intn(3); i > 0; i-- {
		if g.R.Intn(3) == 0 {
			f := GT{T: "frag", K: []GT{leaf("name", g.nameNot("on"))}}
			if g.R.Intn(4) == 0 {
				f.K = append(f.K, g.VarDefs()...)
			}
			f.K = append(f.K, leaf("typecond", g.name()))
			f.K = append(f.K, g.Dirs(true)...)
			f.K = append(f.K, g.SelSet(g.MaxDepth)...)
			out = append(out, f)
			continue
		}
		op := GT{T: "op"}
		kind := []string{"query", "query", "mutation", "subscription"}[g.R.Intn(4)]
		op.K = append(op.K, leaf("opkind", kind))
		if g.R.Intn(2) == 0 {
			op.K = append(op.K, leaf("name", g.name()))
		}
		op.K = append(op.K, g.VarDefs()...)
		op.K = append(op.K, g.Dirs(true)...)
		op.K = append(op.K, g.SelSet(g.MaxDepth)...)
		out = append(out, op)
	}
	return out
}

// ---- unparse: generic tree -> tokens ----

func quoteGraphQL(s string, r *rand.Rand) string {
	var b strings.Builder
	b.WriteByte('"')
	for _, c := range s {
		switch {
		case c == '"':
			b.WriteString(`\"`)
		case c == '\\':
			b.WriteString(`\\`)
		case c == '\n':
			b.WriteString(`\n`)
		case c == '\r':
			b.WriteString(`\r`)
		case c == '\t':
			if r != nil && r.Intn(2) == 0 {
				b.WriteByte('\t')
			} else {
				b.WriteString(`\t`)
			}
		case c == '\b':
			b.WriteString(`\b`)
		case c == '\f':
			b.WriteString(`\f`)
		case c == '/':
			if r != nil && r.Intn(2) == 0 {
				b.WriteString(`\/`)
			} else {
				b.WriteByte('/')
			}
		case c < 0x20:
			fmt.Fprintf(&b, `\u%04x`, c)
		default:
			// any character may also be written as an escape: the value is the same, but it then reaches the
			// document WITHOUT having passed the lexer as raw text (DEL, NBSP, BOM, line separators ...)
			if r != nil && c <= 0xffff && (c < 0x7f && r.Intn(12) == 0 || c >= 0x7f && r.Intn(2) == 0) {
				fmt.Fprintf(&b, `\u%04X`, c)
			} else {
				b.WriteRune(c)
			}
		}
	}
	b.WriteByte('"')
	return b.String()
}

func blockable(s string) bool {
	if s == "" || strings.ContainsAny(s, "\"\\\r\t\n") || s[0] == ' ' || s[len(s)-1] == ' ' {
		return false
	}
	for _, c := range s {
		if c < 0x20 {
			return false
		}
	}
	return true
}

type unparser struct {
	r    *rand.Rand
	toks []RTok
}

func (u *unparser) p(text string) { u.toks = append(u.toks, RTok{Text: text, Value: text}) }

// blockLines: s can be written as a block string with the delimiters on lines
// of their own (quotes, backslashes and line feeds stay raw): no CR or control
// character, first line not indented and not blank, last line not blank.
func blockLines(s string) bool {
	lines := strings.Split(s, "\n")
	blank := func(l string) bool { return strings.Trim(l, " \t") == "" }
	if blank(lines[0]) || blank(lines[len(lines)-1]) || lines[0][0] == ' ' || lines[0][0] == '\t' {
		return false
	}
	for _, c := range s {
		if c < 0x20 && c != '\n' && c != '\t' {
			return false
		}
	}
	return true
}

func (u *unparser) str(v string) {
	if blockable(v) && u.r != nil && u.r.Intn(3) == 0 {
		u.toks = append(u.toks, RTok{Text: `"""` + v + `"""`, Value: v})
		return
	}
	if blockLines(v) && u.r != nil && u.r.Intn(2) == 0 {
		u.toks = append(u.toks, RTok{Text: "\"\"\"\n" + strings.ReplaceAll(v, `"""`, `\"""`) + "\n\"\"\"", Value: v})
		return
	}
	u.toks = append(u.toks, RTok{Text: quoteGraphQL(v, u.r), Value: v})
}

func (u *unparser) value(v GT) {
	switch v.T {
	case "var":
		u.p("$")
		u.p(v.V)
	case "str":
		u.str(v.V)
	case "listv":
		u.p("[")
		for _, k := range v.K {
			u.value(k)
		}
		u.p("]")
	case "obj":
		u.p("{")
		for _, k := range v.K {
			u.p(k.K[0].V)
			u.p(":")
			u.value(k.K[1])
		}
		u.p("}")
	default:
		u.p(v.V)
	}
}

func (u *unparser) typ(t GT) {
	nn := false
	if t.T == "list" {
		u.p("[")
		u.typ(t.K[0])
		u.p("]")
		nn = len(t.K) > 1
	} else {
		u.p(t.K[0].V)
		nn = len(t.K) > 1
	}
	if nn {
		u.p("!")
	}
}

func (u *unparser) args(ks []GT) {
	first := true
	for _, k := range ks {
		if k.T != "arg" {
			continue
		}
		if first {
			u.p("(")
			first = false
		}
		u.p(k.K[0].V)
		u.p(":")
		u.value(k.K[1])
	}
	if !first {
		u.p(")")
	}
}

func (u *unparser) dirs(ks []GT) {
	for _, k := range ks {
		if k.T != "dir" {
			continue
		}
		u.p("@")
		u.p(k.K[0].V)
		u.args(k.K[1:])
	}
}

func (u *unparser) vardefs(ks []GT) {
	first := true
	for _, k := range ks {
		if k.T != "vardef" {
			continue
		}
		if first {
			u.p("(")
			first = false
		}
		u.p("$")
		u.p(k.K[0].V)
		u.p(":")
		u.typ(k.K[1])
		for _, x := range k.K[2:] {
			if x.T == "default" {
				u.p("=")
				u.value(x.K[0])
			}
		}
		u.dirs(k.K[2:])
	}
	if !first {
		u.p(")")
	}
}

func isSel(t string) bool { return t == "field" || t == "spread" || t == "inline" }

func (u *unparser) selset(ks []GT, must bool) {
	n := 0
	for _, k := range ks {
		if isSel(k.T) {
			n++
		}
	}
	if n == 0 && !must {
		return
	}
	u.p("{")
	for _, k := range ks {
		switch k.T {
		case "field":
			if k.K[0].V != k.K[1].V || (u.r != nil && u.r.Intn(8) == 0) {
				u.p(k.K[0].V)
				u.p(":")
			}
			u.p(k.K[1].V)
			u.args(k.K[2:])
			u.dirs(k.K[2:])
			u.selset(k.K[2:], false)
		case "spread":
			u.p("...")
			u.p(k.K[0].V)
			u.dirs(k.K[1:])
		case "inline":
			u.p("...")
			rest := k.K
			if len(rest) > 0 && rest[0].T == "typecond" {
				u.p("on")
				u.p(rest[0].V)
				rest = rest[1:]
			}
			u.dirs(rest)
			u.selset(rest, true)
		}
	}
	u.p("}")
}

// UnparseQuery renders a generic executable document as a token sequence.
func UnparseQuery(doc []GT, r *rand.Rand) []RTok {
	u := &unparser{r: r}
	for _, d := range doc {
		switch d.T {
		case "op":
			rest := d.K[1:]
			shorthand := d.K[0].V == "query" && (len(rest) == 0 || isSel(rest[0].T)) && (r == nil || r.Intn(2) == 0)
			if !shorthand {
				u.p(d.K[0].V)
				if len(rest) > 0 && rest[0].T == "name" {
					u.p(rest[0].V)
					rest = rest[1:]
				}
				u.vardefs(rest)
				u.dirs(rest)
			}
			u.selset(rest, true)
		case "frag":
			u.p("fragment")
			u.p(d.K[0].V)
			u.vardefs(d.K[1:])
			for _, k := range d.K[1:] {
				if k.T == "typecond" {
					u.p("on")
					u.p(k.V)
				}
			}
			u.dirs(d.K[1:])
			u.selset(d.K[1:], true)
		}
	}
	return u.toks
}

// MutateTokens applies one random token-level mutation: delete, duplicate,
// swap adjacent, substitute by a token of another class, insert.
func MutateTokens(toks []RTok, r *rand.Rand, pool []string) ([]RTok, string) {
	out := append([]RTok{}, toks...)
	if len(out) == 0 {
		return append(out, RTok{Text: pool[r.Intn(len(pool))]}), "insert"
	}
	i := r.Intn(len(out))
	pick := func() RTok { t := pool[r.Intn(len(pool))]; return RTok{Text: t, Value: t} }
	switch r.Intn(5) {
	case 0:
		return append(out[:i], out[i+1:]...), "delete@" + strconv.Itoa(i)
	case 1:
		out = append(out[:i+1], out[i:]...)
		return out, "duplicate@" + strconv.Itoa(i)
	case 2:
		if i+1 < len(out) {
			out[i], out[i+1] = out[i+1], out[i]
		}
		return out, "swap@" + strconv.Itoa(i)
	case 3:
		out[i] = pick()
		return out, "substitute@" + strconv.Itoa(i)
	default:
		out = append(out[:i+1], out[i:]...)
		out[i] = pick()
		return out, "insert@" + strconv.Itoa(i)
	}
}

// trickyStrings: string VALUES every string-carrying check writes in every
// spelling (stringSpellings): characters the lexer treats specially in one
// spelling but not another (U+FFFD raw vs escaped, Latin-1 code points as
// \u00XX escapes, Unicode spaces where block-string indentation is counted).
var trickyStrings = append([]string{"\ufffd", "x\ufffdy", "caf\u00e9", "\u00ff\u0080", "\u3000a\n\u3000b", "\u00a0x\n\u00a0y", "\u2003em\n\u2003\u2003em", "a\n\u3000b", "\u2028a\n\u2028b", "\u0085n\n\u0085m",
	"0x1F", "1_000", "RED%", "%s%d%v", "100%"}, qUnicodeStrings...)

func quoteEscaped(s string) string {
	var b strings.Builder
	b.WriteByte('"')
	for _, c := range s {
		switch {
		case c == '"':
			b.WriteString(`\"`)
		case c == '\\':
			b.WriteString(`\\`)
		case c < 0x20 || c >= 0x7f && c <= 0xffff:
			fmt.Fprintf(&b, `\u%04x`, c)
		default:
			b.WriteRune(c)
		}
	}
	b.WriteByte('"')
	return b.String()
}

// stringSpellings: every way this module writes the string value v in a
// document: quoted with the characters raw, quoted with every non-ASCII
// character of the basic plane escaped, and (when the value allows) the three
// block-string layouts. All denote v.
func stringSpellings(v string) []string {
	out := []string{quoteGraphQL(v, nil)}
	if e := quoteEscaped(v); e != out[0] {
		out = append(out, e)
	}
	if blockable(v) {
		out = append(out, `"""`+v+`"""`)
	}
	if v != "" && blockLines(v) {
		body := strings.ReplaceAll(v, `"""`, `\"""`)
		out = append(out, "\"\"\"\n"+body+"\n\"\"\"")
		out = append(out, "\"\"\"\n    "+strings.ReplaceAll(body, "\n", "\n    ")+"\n  \"\"\"")
	}
	return out
}
