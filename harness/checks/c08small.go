package checks

import (
	"sort"
	"strings"
)

// ---- small-scope exhaustive documents for the validation rules (C08) ----
//
// Every executable document with at most `budget` selections (fields, inline
// fragments, spreads; operation and one optional fragment together) over a
// seven-type schema and a fixed vocabulary: all fields of the type at hand plus
// an unknown one, aliases that make response names collide, every type
// condition (possible, impossible, unknown), spreads of a fragment on every
// composite type, arguments (absent, literal, wrong kind, unknown name,
// variable), variable declarations (absent, matching, mismatching, unused).
// Nothing here is random: the specification decides every one of them.

const smallSDL = `
type Query { a: A  u: U  i: I  s: String  f(x: Int, r: Int! = 1): Int }
interface I { n: String  k: Int }
type A implements I { n: String  k: Int  o: A  p: C }
type B implements I { n: String  k: Int  o: B  p: C  m: Int! }
union U = A | B
type C { c: Int  d: Int  m: Int }
`

// smallSDLBefore: the schema "before the change": same type names; A lacks o and p but has legacy(kind: Int), B has
// no m, C's fields are of other types, Query.f takes a String and has no r, Query has an extra field
const smallSDLBefore = `
type Query { a: A  u: U  i: I  s: Int  f(x: String): Int  gone: C }
interface I { n: String  k: Int  zz: Int }
type A implements I { n: String  k: Int  zz: Int  legacy(kind: Int): Int }
type B implements I { n: String  k: Int  zz: Int  o: A  p: C }
union U = A | B | C
type C { c: String  d: [Int]  m: C  zz: Int }
`

type smallField struct {
	name, typ string // typ "" = leaf
}

var smallFields = map[string][]smallField{
	"Query": {{"a", "A"}, {"u", "U"}, {"i", "I"}, {"s", ""}, {"f", ""}},
	"I":     {{"n", ""}, {"k", ""}},
	"A":     {{"n", ""}, {"k", ""}, {"o", "A"}, {"p", "C"}},
	"B":     {{"n", ""}, {"m", ""}, {"p", "C"}},
	"U":     {},
	"C":     {{"c", ""}, {"d", ""}, {"m", ""}},
}

var smallConds = map[string][]string{
	"Query": {"", "Query", "A"},
	"I":     {"", "A", "B", "U", "C"},
	"A":     {"", "I", "B"},
	"B":     {"", "A"},
	"U":     {"A", "B", "I", "C", "Zz"},
	"C":     {"", "A"},
}

type smallSel struct {
	text string
	cost int
}

// one selection at type t costing at most budget
func smallOne(t string, budget int, frag string) []smallSel {
	var out []smallSel
	if budget < 1 {
		return out
	}
	for _, f := range smallFields[t] {
		if f.typ == "" {
			if f.name == "f" {
				for _, a := range []string{"", "(x: 1)", "(x: 2)", "(x: $v)", "(x: \"s\")", "(r: null)", "(zz: 1)"} {
					out = append(out, smallSel{"f" + a, 1})
				}
				continue
			}
			out = append(out, smallSel{f.name, 1}, smallSel{"x: " + f.name, 1})
			continue
		}
		for _, sub := range smallList(f.typ, budget-1, frag) {
			out = append(out, smallSel{f.name + " { " + sub.text + " }", 1 + sub.cost})
		}
	}
	out = append(out, smallSel{"__typename", 1})
	if t != "Query" {
		out = append(out, smallSel{"zz", 1})
	}
	for _, c := range smallConds[t] {
		inner := c
		if inner == "" {
			inner = t
		}
		if _, known := smallFields[inner]; !known {
			out = append(out, smallSel{"... on " + c + " { __typename }", 2})
			continue
		}
		for _, sub := range smallList(inner, budget-1, frag) {
			if c == "" {
				out = append(out, smallSel{"... { " + sub.text + " }", 1 + sub.cost})
			} else {
				out = append(out, smallSel{"... on " + c + " { " + sub.text + " }", 1 + sub.cost})
			}
		}
	}
	if frag != "" {
		out = append(out, smallSel{"..." + frag, 1})
	}
	return out
}

// non-empty selection lists at type t with total cost at most budget (at most two selections per list)
func smallList(t string, budget int, frag string) []smallSel {
	var out []smallSel
	ones := smallOne(t, budget, frag)
	out = append(out, ones...)
	for _, a := range ones {
		if a.cost >= budget {
			continue
		}
		for _, b := range smallOne(t, budget-a.cost, frag) {
			out = append(out, smallSel{a.text + " " + b.text, a.cost + b.cost})
		}
	}
	// three selections: leaves only (three fields of one response name are compared pair by pair)
	if budget >= 3 {
		var leaves []smallSel
		for _, a := range ones {
			if a.cost == 1 && !strings.Contains(a.text, "{") {
				leaves = append(leaves, a)
			}
		}
		for i, a := range leaves {
			for j, b := range leaves {
				for k, c := range leaves {
					if i <= j && j <= k && (strings.HasPrefix(a.text, "x:") || strings.HasPrefix(b.text, "x:") || strings.HasPrefix(c.text, "x:") || strings.HasPrefix(a.text, "f")) {
						out = append(out, smallSel{a.text + " " + b.text + " " + c.text, 3})
					}
				}
			}
		}
	}
	return out
}

func smallScopeDocs(budget int) []string {
	seen := map[string]bool{}
	var out []string
	add := func(body, frags string) {
		heads := []string{"", "query($v: Int) "}
		if strings.Contains(body+frags, "$v") {
			heads = []string{"", "query($v: Int) ", "query($v: String) ", "query($v: Int!, $w: Int) "}
		}
		for _, h := range heads {
			d := h + "{ " + body + " }" + frags
			if !seen[d] {
				seen[d] = true
				out = append(out, d)
			}
		}
	}
	// no fragment
	for _, s := range smallList("Query", budget, "") {
		add(s.text, "")
	}
	// one fragment on each composite type; the operation must be able to spend at least one selection on the spread
	for _, ft := range []string{"Query", "A", "B", "I", "U", "C"} {
		for fb := 1; fb < budget; fb++ {
			bodies := smallList(ft, fb, "")
			ops := smallList("Query", budget-fb, "F")
			for _, o := range ops {
				if !strings.Contains(o.text, "...F") {
					continue
				}
				for _, b := range bodies {
					if b.cost != fb {
						continue
					}
					add(o.text, " fragment F on "+ft+" { "+b.text+" }")
				}
			}
		}
	}
	// a fragment that spreads itself, an unused one, an undefined spread
	add("...F", " fragment F on Query { s ...F }")
	add("s", " fragment F on Query { s }")
	add("...G", "")
	add("a { ...F }", " fragment F on A { o { ...F } }")
	sort.Strings(out)
	return out
}

// ---- small-scope exhaustive VALUES (C08) ----
//
// Every literal up to a small size at every kind of input position: one field
// per argument type (nullable / non-null / defaulted scalars of every built-in
// kind, lists of three shapes, an enum, an input object with required,
// defaulted, list and recursive fields, a oneOf input object, a custom
// scalar), crossed with every way of declaring the one variable the literal
// may use.  Nothing is random: Rules.tla decides every document.

const valueSDL = `
enum E { RED GREEN }
scalar Any
input In { a: Int b: [Int!] r: Int! d: Int! = 1 n: In }
input One @oneOf { a: Int s: String }
type Query {
  i(x: Int): Int  inn(x: Int!): Int  idf(x: Int! = 5): Int
  li(x: [Int]): Int  lnn(x: [Int!]!): Int  ll(x: [[Int]]): Int  ldf(x: [Int!] = [1]): Int
  e(x: E): Int  s(x: String): Int  b(x: Boolean): Int  fl(x: Float): Int  id(x: ID): Int
  o(x: In): Int  onn(x: In!): Int  one(x: One): Int  any(x: Any): Int
}
`

func smallValueDocs(full bool) []string {
	atoms := []string{"1", "1.5", `"s"`, "true", "null", "RED", "BLUE", "$v"}
	items := []string{"1", `"s"`, "null", "$v", "[1]"}
	objAtoms := []string{"1", "null", `"s"`, "$v"}
	var lits []string
	lits = append(lits, atoms...)
	lits = append(lits, "[]")
	for _, a := range items {
		lits = append(lits, "["+a+"]")
		for _, b := range items {
			lits = append(lits, "["+a+", "+b+"]")
		}
	}
	lits = append(lits, "{}")
	for _, a := range objAtoms {
		lits = append(lits, "{a: "+a+"}", "{r: "+a+"}", "{zz: "+a+"}", "{s: "+a+"}", "{b: ["+a+"], r: 1}", "{r: 1, d: "+a+"}", "{n: {r: "+a+"}, r: 1}", "{a: "+a+", a: 2}")
		for _, b := range objAtoms {
			lits = append(lits, "{a: "+a+", r: "+b+"}", "{a: "+a+", s: "+b+"}")
		}
	}
	fields := []string{"i", "inn", "idf", "li", "lnn", "ll", "ldf", "e", "s", "b", "fl", "id", "o", "onn", "one", "any"}
	heads := []string{"query($v: Int) ", "query($v: Int!) ", "query($v: Int = 1) ", "query($v: Int = null) ", "query($v: [Int]) ", "query($v: [Int!]!) ", "query($v: String) ", "query($v: String!) ",
		"query($v: In) ", "query($v: E = RED) ", "query($v: Any) ", "query($v: One) ", ""}
	var out []string
	k := 0
	for _, f := range fields {
		// the argument left out altogether
		out = append(out, "{ "+f+" }")
		for _, l := range lits {
			if !strings.Contains(l, "$v") {
				out = append(out, "{ "+f+"(x: "+l+") }")
				continue
			}
			for _, h := range heads {
				k++
				if !full && k%3 != 0 {
					continue // the quick tier takes every third declaration (fixed stride, no seed)
				}
				out = append(out, h+"{ "+f+"(x: "+l+") }")
			}
		}
	}
	// variable defaults checked against the variable's own type
	for _, t := range []string{"Int", "Int!", "[Int]", "[Int!]", "E", "In", "One", "Any", "String", "Boolean", "Float", "ID"} {
		for _, l := range lits {
			if strings.Contains(l, "$v") {
				continue
			}
			k++
			if !full && k%3 != 0 {
				continue
			}
			out = append(out, "query($v: "+t+" = "+l+") { any(x: $v) }")
		}
	}
	return out
}
