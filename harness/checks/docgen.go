package checks

import (
	"fmt"
	"math/rand"
	"sort"
	"strconv"

	"github.com/vektah/gqlparser/v2/ast"
)

// DGen generates executable documents that are valid by construction against
// a loaded schema (typed generator), as generic trees (see gtree.go).
type DGen struct {
	R      *rand.Rand
	S      *ast.Schema
	frags  []GT                // fragment definitions created so far
	fragOn map[string][]string // type condition -> fragment names (usable for spreading)
	vars   []GT                // variable definitions of the operation being built
	nvar   int
	nfrag  int
	nalias int
	inFrag bool // building a fragment body: no variables (they would have to be declared by every operation using it)
}

func (g *DGen) typeNames(kinds ...ast.DefinitionKind) []string {
	var out []string
	for n, d := range g.S.Types {
		for _, k := range kinds {
			if d.Kind == k && (len(n) < 2 || n[:2] != "__") {
				out = append(out, n)
			}
		}
	}
	sort.Strings(out)
	return out
}

func gtType(t *ast.Type) GT {
	var n GT
	if t.Elem != nil {
		n = GT{T: "list", K: []GT{gtType(t.Elem)}}
	} else {
		n = GT{T: "named", K: []GT{leaf("name", t.NamedType)}}
	}
	if t.NonNull {
		n.K = append(n.K, leaf("nn", "!"))
	}
	return n
}

// literal of input type t (never a variable)
func (g *DGen) literal(t *ast.Type, depth int) GT {
	if !t.NonNull && g.R.Intn(8) == 0 {
		return leaf("null", "null")
	}
	if t.Elem != nil {
		if g.R.Intn(6) == 0 && depth > 0 {
			// single value where a list is expected (list input coercion)
			if t.Elem.Elem == nil {
				v := g.literal(&ast.Type{NamedType: t.Elem.NamedType, NonNull: true}, depth-1)
				return v
			}
		}
		n := GT{T: "listv"}
		for i := g.R.Intn(3); i > 0; i-- {
			n.K = append(n.K, g.literal(t.Elem, depth-1))
		}
		return n
	}
	def := g.S.Types[t.NamedType]
	if def == nil {
		return leaf("null", "null")
	}
	switch def.Kind {
	case ast.Scalar:
		switch def.Name {
		case "Int":
			return leaf("int", []string{"0", "7", "-3", "2147483647", "-2147483648"}[g.R.Intn(5)])
		case "Float":
			return []GT{leaf("float", "1.5"), leaf("int", "2"), leaf("float", "-1e3")}[g.R.Intn(3)]
		case "String":
			return leaf("str", []string{"s", "", "a b", `q"q`}[g.R.Intn(4)])
		case "Boolean":
			return leaf("bool", []string{"true", "false"}[g.R.Intn(2)])
		case "ID":
			return []GT{leaf("str", "id1"), leaf("int", "4")}[g.R.Intn(2)]
		default:
			// custom scalar: any literal
			return []GT{leaf("int", "99"), leaf("str", "x"), leaf("float", "2.5"), leaf("bool", "true"), leaf("enum", "ANY"),
				{T: "listv", K: []GT{leaf("int", "1"), {T: "obj", K: []GT{{T: "objfield", K: []GT{leaf("name", "k"), leaf("null", "null")}}}}}},
				{T: "obj", K: []GT{{T: "objfield", K: []GT{leaf("name", "anything"), leaf("str", "goes")}}}}}[g.R.Intn(7)]
		}
	case ast.Enum:
		return leaf("enum", def.EnumValues[g.R.Intn(len(def.EnumValues))].Name)
	case ast.InputObject:
		n := GT{T: "obj"}
		oneOf := def.Directives.ForName("oneOf") != nil
		if oneOf {
			f := def.Fields[g.R.Intn(len(def.Fields))]
			if f.Type.Name() == def.Name && depth <= 1 {
				f = def.Fields[0] // never self-referential (generator invariant)
			}
			nt := *f.Type
			nt.NonNull = true
			n.K = append(n.K, GT{T: "objfield", K: []GT{leaf("name", f.Name), g.literal(&nt, depth-1)}})
			return n
		}
		for _, f := range def.Fields {
			required := f.Type.NonNull && f.DefaultValue == nil
			if required || (depth > 0 && g.R.Intn(3) == 0) {
				if !required && f.Type.Name() == def.Name && depth <= 1 {
					continue
				}
				n.K = append(n.K, GT{T: "objfield", K: []GT{leaf("name", f.Name), g.literal(f.Type, depth-1)}})
			}
		}
		return n
	}
	return leaf("null", "null")
}

// value of input type t, sometimes through a variable (declared on the fly)
func (g *DGen) value(t *ast.Type, hasLocDefault bool, depth int) GT {
	if !g.inFrag && g.R.Intn(4) == 0 {
		// a variable whose type is compatible with the position
		vt := *t
		forceDefault := false
		switch {
		case !vt.NonNull && g.R.Intn(2) == 0:
			vt.NonNull = true
		case vt.NonNull && hasLocDefault && g.R.Intn(2) == 0:
			// a nullable variable is allowed in a non-null position that declares a default
			vt.NonNull = false
		case vt.NonNull && g.R.Intn(3) == 0:
			// ... or when the variable itself has a non-null default
			vt.NonNull = false
			forceDefault = true
		}
		g.nvar++
		name := fmt.Sprintf("v%d", g.nvar)
		vd := GT{T: "vardef", K: []GT{leaf("var", name), gtType(&vt)}}
		if forceDefault {
			nn := vt
			nn.NonNull = true
			vd.K = append(vd.K, GT{T: "default", K: []GT{g.literal(&nn, 1)}})
		} else if g.R.Intn(3) == 0 {
			vd.K = append(vd.K, GT{T: "default", K: []GT{g.literal(&vt, 1)}})
		}
		if g.R.Intn(5) == 0 {
			if d := g.dirsFor("VARIABLE_DEFINITION", true); len(d) > 0 {
				vd.K = append(vd.K, d...)
			}
		}
		g.vars = append(g.vars, vd)
		return leaf("var", name)
	}
	if def := g.S.Types[t.NamedType]; !g.inFrag && t.Elem == nil && def != nil && def.Kind == ast.Scalar && !def.BuiltIn && len(g.vars) > 0 && g.R.Intn(2) == 0 {
		// a custom scalar takes any literal: put variables the operation already declares
		// (and uses in a typed position) inside lists and objects, where no type guides the walk
		pick := func() GT {
			return leaf("var", g.vars[g.R.Intn(len(g.vars))].K[0].V)
		}
		switch g.R.Intn(4) {
		case 0:
			return GT{T: "listv", K: []GT{pick()}}
		case 1:
			return GT{T: "listv", K: []GT{leaf("int", "1"), {T: "listv", K: []GT{pick(), {T: "listv", K: []GT{pick()}}}}}}
		case 2:
			return GT{T: "obj", K: []GT{{T: "objfield", K: []GT{leaf("name", "ids"), {T: "listv", K: []GT{pick()}}}}}}
		default:
			return GT{T: "obj", K: []GT{{T: "objfield", K: []GT{leaf("name", "a"), pick()}}, {T: "objfield", K: []GT{leaf("name", "b"), {T: "obj", K: []GT{{T: "objfield", K: []GT{leaf("name", "c"), {T: "listv", K: []GT{pick(), leaf("null", "null")}}}}}}}}}}
		}
	}
	v := g.literal(t, depth)
	return v
}

func (g *DGen) args(defs ast.ArgumentDefinitionList, constOnly bool) []GT {
	var out []GT
	for _, a := range defs {
		required := a.Type.NonNull && a.DefaultValue == nil
		if !required && g.R.Intn(2) == 0 {
			continue
		}
		var v GT
		if constOnly {
			v = g.literal(a.Type, 2)
		} else {
			v = g.value(a.Type, a.DefaultValue != nil, 2)
		}
		out = append(out, GT{T: "arg", K: []GT{leaf("name", a.Name), v}})
	}
	return out
}

// directives allowed at loc (each non-repeatable one at most once)
func (g *DGen) dirsFor(loc string, constOnly bool) []GT {
	var out []GT
	if g.R.Intn(4) != 0 {
		return nil
	}
	var names []string
	for n := range g.S.Directives {
		names = append(names, n)
	}
	sort.Strings(names)
	g.R.Shuffle(len(names), func(i, j int) { names[i], names[j] = names[j], names[i] })
	for _, n := range names {
		d := g.S.Directives[n]
		ok := false
		for _, l := range d.Locations {
			if string(l) == loc {
				ok = true
			}
		}
		if !ok {
			continue
		}
		out = append(out, GT{T: "dir", K: append([]GT{leaf("name", n)}, g.args(d.Arguments, constOnly)...)})
		if len(out) >= 2 || g.R.Intn(2) == 0 {
			break
		}
	}
	return out
}

func (g *DGen) possible(name string) []string {
	def := g.S.Types[name]
	if def == nil {
		return nil
	}
	var out []string
	if def.Kind == ast.Object {
		return []string{name}
	}
	for _, p := range g.S.PossibleTypes[name] {
		if p.Kind == ast.Object {
			out = append(out, p.Name)
		}
	}
	return out
}

// type conditions that may be spread inside parent: composite types whose possible objects intersect
func (g *DGen) spreadable(parent string) []string {
	ps := map[string]bool{}
	for _, p := range g.possible(parent) {
		ps[p] = true
	}
	var out []string
	for _, c := range g.typeNames(ast.Object, ast.Interface, ast.Union) {
		for _, p := range g.possible(c) {
			if ps[p] {
				out = append(out, c)
				break
			}
		}
	}
	return out
}

func (g *DGen) alias() string {
	g.nalias++
	return "k" + strconv.Itoa(g.nalias)
}

// selection set on composite type parent
func (g *DGen) selset(parent string, depth int, subscriptionRoot bool) []GT {
	def := g.S.Types[parent]
	var out []GT
	if def == nil {
		return []GT{{T: "field", K: []GT{leaf("alias", "__typename"), leaf("name", "__typename")}}}
	}
	n := 1 + g.R.Intn(3)
	if subscriptionRoot {
		n = 1
	}
	used := map[string]bool{}
	for i := 0; i < n; i++ {
		switch k := g.R.Intn(12); {
		case k < 8 || subscriptionRoot || depth <= 0:
			var cands []*ast.FieldDefinition
			for _, f := range def.Fields {
				if len(f.Name) >= 2 && f.Name[:2] == "__" {
					continue
				}
				cands = append(cands, f)
			}
			if len(cands) == 0 || (!subscriptionRoot && g.R.Intn(8) == 0) {
				if !used["__typename"] && !subscriptionRoot {
					used["__typename"] = true
					out = append(out, GT{T: "field", K: []GT{leaf("alias", "__typename"), leaf("name", "__typename")}})
				}
				continue
			}
			fd := cands[g.R.Intn(len(cands))]
			ft := g.S.Types[fd.Type.Name()]
			if ft != nil && ft.IsCompositeType() && depth <= 0 {
				// no room for the mandatory sub-selection: pick a leaf field if there is one
				var leaves []*ast.FieldDefinition
				for _, c := range cands {
					if t := g.S.Types[c.Type.Name()]; t != nil && t.IsLeafType() {
						leaves = append(leaves, c)
					}
				}
				if len(leaves) == 0 {
					if !used["__typename"] && !subscriptionRoot {
						used["__typename"] = true
						out = append(out, GT{T: "field", K: []GT{leaf("alias", "__typename"), leaf("name", "__typename")}})
						continue
					}
				} else {
					fd = leaves[g.R.Intn(len(leaves))]
					ft = g.S.Types[fd.Type.Name()]
				}
			}
			f := GT{T: "field"}
			// a unique response key, so that independent choices never conflict
			f.K = append(f.K, leaf("alias", g.alias()), leaf("name", fd.Name))
			f.K = append(f.K, g.args(fd.Arguments, false)...)
			f.K = append(f.K, g.dirsFor("FIELD", false)...)
			if ft != nil && ft.IsCompositeType() {
				f.K = append(f.K, g.selset(ft.Name, depth-1, false)...)
			}
			out = append(out, f)
			if g.R.Intn(10) == 0 && !subscriptionRoot {
				// the same field again under the same key with identical arguments: mergeable
				out = append(out, f)
			}
		case k < 10:
			in := GT{T: "inline"}
			next := parent
			if g.R.Intn(4) != 0 {
				cs := g.spreadable(parent)
				if len(cs) > 0 {
					next = cs[g.R.Intn(len(cs))]
					in.K = append(in.K, leaf("typecond", next))
				}
			}
			in.K = append(in.K, g.dirsFor("INLINE_FRAGMENT", false)...)
			in.K = append(in.K, g.selset(next, depth-1, false)...)
			out = append(out, in)
		default:
			cs := g.spreadable(parent)
			if len(cs) == 0 {
				continue
			}
			cond := cs[g.R.Intn(len(cs))]
			var name string
			if fs := g.fragOn[cond]; len(fs) > 0 && g.R.Intn(2) == 0 {
				name = fs[g.R.Intn(len(fs))]
			} else if !g.inFrag || depth > 0 {
				name = g.newFragment(cond, depth-1)
			}
			if name == "" {
				continue
			}
			sp := GT{T: "spread", K: []GT{leaf("name", name)}}
			sp.K = append(sp.K, g.dirsFor("FRAGMENT_SPREAD", false)...)
			out = append(out, sp)
		}
	}
	if len(out) == 0 {
		out = append(out, GT{T: "field", K: []GT{leaf("alias", "__typename"), leaf("name", "__typename")}})
	}
	return out
}

// newFragment defines a fragment on cond; fragments only spread fragments that already exist (no cycles)
func (g *DGen) newFragment(cond string, depth int) string {
	if len(g.frags) >= 4 {
		return ""
	}
	g.nfrag++
	name := fmt.Sprintf("F%d", g.nfrag)
	saved := g.inFrag
	g.inFrag = true
	f := GT{T: "frag", K: []GT{leaf("name", name), leaf("typecond", cond)}}
	f.K = append(f.K, g.dirsFor("FRAGMENT_DEFINITION", true)...)
	if depth < 0 {
		depth = 0
	}
	f.K = append(f.K, g.selset(cond, depth, false)...)
	g.inFrag = saved
	g.frags = append(g.frags, f)
	if g.fragOn == nil {
		g.fragOn = map[string][]string{}
	}
	g.fragOn[cond] = append(g.fragOn[cond], name)
	return name
}

func (g *DGen) operation(kind string, root *ast.Definition, name string, depth int) GT {
	g.vars = nil
	op := GT{T: "op", K: []GT{leaf("opkind", kind)}}
	if name != "" {
		op.K = append(op.K, leaf("name", name))
	}
	loc := map[string]string{"query": "QUERY", "mutation": "MUTATION", "subscription": "SUBSCRIPTION"}[kind]
	dirs := g.dirsFor(loc, false)
	var sels []GT
	if kind == "query" && g.R.Intn(8) == 0 {
		// shallow introspection
		sels = append(sels, GT{T: "field", K: []GT{leaf("alias", g.alias()), leaf("name", "__schema"),
			{T: "field", K: []GT{leaf("alias", "types"), leaf("name", "types"),
				{T: "field", K: []GT{leaf("alias", "name"), leaf("name", "name")}},
				{T: "field", K: []GT{leaf("alias", "fields"), leaf("name", "fields"),
					{T: "field", K: []GT{leaf("alias", "name"), leaf("name", "name")}}}}}}}})
		sels = append(sels, GT{T: "field", K: []GT{leaf("alias", g.alias()), leaf("name", "__type"),
			{T: "arg", K: []GT{leaf("name", "name"), leaf("str", root.Name)}},
			{T: "field", K: []GT{leaf("alias", "kind"), leaf("name", "kind")}}}})
	}
	sels = append(sels, g.selset(root.Name, depth, kind == "subscription")...)
	op.K = append(op.K, g.vars...)
	op.K = append(op.K, dirs...)
	op.K = append(op.K, sels...)
	return op
}

// Doc generates a valid document: 1-2 operations and the fragments they use.
func (g *DGen) Doc() []GT {
	g.frags, g.fragOn, g.nvar, g.nfrag, g.nalias = nil, map[string][]string{}, 0, 0, 0
	var ops []GT
	roots := []struct {
		kind string
		def  *ast.Definition
	}{{"query", g.S.Query}}
	if g.S.Mutation != nil {
		roots = append(roots, struct {
			kind string
			def  *ast.Definition
		}{"mutation", g.S.Mutation})
	}
	if g.S.Subscription != nil {
		roots = append(roots, struct {
			kind string
			def  *ast.Definition
		}{"subscription", g.S.Subscription})
	}
	nops := 1 + g.R.Intn(2)
	for i := 0; i < nops; i++ {
		r := roots[g.R.Intn(len(roots))]
		if r.def == nil {
			continue
		}
		name := fmt.Sprintf("Op%d", i)
		if nops == 1 && g.R.Intn(2) == 0 {
			name = ""
		}
		ops = append(ops, g.operation(r.kind, r.def, name, 2+g.R.Intn(2)))
	}
	return append(ops, g.frags...)
}
