package checks

import (
	"encoding/json"
	"fmt"
	"github.com/vektah/gqlparser/v2/gqlerror"
	"github.com/vektah/gqlparser/v2/parser"
	"github.com/vektah/gqlparser/v2/validator"
	"github.com/vektah/gqlparser/v2/validator/rules"
	"math/rand"
	"strconv"

	"github.com/vektah/gqlparser/v2/ast"

	"verif/harness/core"
)

func init() {
	Registry["C09"] = checkC09
}

type LinkFact struct {
	P string `json:"p"`
	K string `json:"k"`
	A string `json:"a"`
	B string `json:"b"`
}

type linkProj struct {
	schema *ast.Schema
	doc    *ast.QueryDocument
	n      int
	facts  []LinkFact
}

func (lp *linkProj) id() string          { lp.n++; return "n" + strconv.Itoa(lp.n) }
func (lp *linkProj) leaf(t, v string) GT { return GT{T: t, V: v, P: lp.id()} }

func (lp *linkProj) defName(d *ast.Definition) string {
	if d == nil {
		return ""
	}
	if lp.schema.Types[d.Name] != d {
		return "!not-the-schema's-definition:" + d.Name
	}
	return d.Name
}

func (lp *linkProj) typ(t *ast.Type) GT {
	var n GT
	if t.Elem != nil {
		n = GT{T: "list", P: lp.id(), K: []GT{lp.typ(t.Elem)}}
	} else {
		n = GT{T: "named", P: lp.id(), K: []GT{lp.leaf("name", t.NamedType)}}
	}
	if t.NonNull {
		n.K = append(n.K, lp.leaf("nn", "!"))
	}
	return n
}

func (lp *linkProj) value(v *ast.Value) GT {
	var n GT
	switch v.Kind {
	case ast.Variable:
		n = lp.leaf("var", v.Raw)
		if v.VariableDefinition != nil {
			opIdx := 0
			for i, op := range lp.doc.Operations {
				for _, vd := range op.VariableDefinitions {
					if vd == v.VariableDefinition {
						opIdx = i + 1
					}
				}
			}
			lp.facts = append(lp.facts, LinkFact{P: n.P, K: "varuse", A: v.VariableDefinition.Variable, B: strconv.Itoa(opIdx)})
		}
	case ast.IntValue:
		n = lp.leaf("int", v.Raw)
	case ast.FloatValue:
		n = lp.leaf("float", v.Raw)
	case ast.StringValue, ast.BlockValue:
		n = lp.leaf("str", v.Raw)
	case ast.BooleanValue:
		n = lp.leaf("bool", v.Raw)
	case ast.NullValue:
		n = lp.leaf("null", v.Raw)
	case ast.EnumValue:
		n = lp.leaf("enum", v.Raw)
	case ast.ListValue:
		n = GT{T: "listv", P: lp.id()}
		for _, c := range v.Children {
			n.K = append(n.K, lp.value(c.Value))
		}
	case ast.ObjectValue:
		n = GT{T: "obj", P: lp.id()}
		for _, c := range v.Children {
			n.K = append(n.K, GT{T: "objfield", P: lp.id(), K: []GT{lp.leaf("name", c.Name), lp.value(c.Value)}})
		}
	}
	exp := ""
	if v.ExpectedType != nil {
		exp = v.ExpectedType.String()
	}
	lp.facts = append(lp.facts, LinkFact{P: n.P, K: "value", A: exp, B: lp.defName(v.Definition)})
	return n
}

func (lp *linkProj) args(as ast.ArgumentList) []GT {
	var out []GT
	for _, a := range as {
		out = append(out, GT{T: "arg", P: lp.id(), K: []GT{lp.leaf("name", a.Name), lp.value(a.Value)}})
	}
	return out
}

func (lp *linkProj) dirs(ds ast.DirectiveList) []GT {
	var out []GT
	for _, d := range ds {
		n := GT{T: "dir", P: lp.id()}
		n.K = append(n.K, lp.leaf("name", d.Name))
		n.K = append(n.K, lp.args(d.Arguments)...)
		def := ""
		if d.Definition != nil {
			def = d.Definition.Name
			if lp.schema.Directives[def] != d.Definition {
				def = "!not-the-schema's-definition:" + def
			}
		}
		lp.facts = append(lp.facts, LinkFact{P: n.P, K: "dir", A: def, B: string(d.Location)})
		out = append(out, n)
	}
	return out
}

func (lp *linkProj) vardefs(vs ast.VariableDefinitionList) []GT {
	var out []GT
	for _, v := range vs {
		n := GT{T: "vardef", P: lp.id()}
		n.K = append(n.K, lp.leaf("var", v.Variable), lp.typ(v.Type))
		if v.DefaultValue != nil {
			n.K = append(n.K, GT{T: "default", P: lp.id(), K: []GT{lp.value(v.DefaultValue)}})
		}
		n.K = append(n.K, lp.dirs(v.Directives)...)
		lp.facts = append(lp.facts, LinkFact{P: n.P, K: "vardef", A: lp.defName(v.Definition)})
		out = append(out, n)
	}
	return out
}

func (lp *linkProj) sels(ss ast.SelectionSet) []GT {
	var out []GT
	for _, s := range ss {
		switch s := s.(type) {
		case *ast.Field:
			n := GT{T: "field", P: lp.id()}
			n.K = append(n.K, lp.leaf("alias", s.Alias), lp.leaf("name", s.Name))
			n.K = append(n.K, lp.args(s.Arguments)...)
			n.K = append(n.K, lp.dirs(s.Directives)...)
			n.K = append(n.K, lp.sels(s.SelectionSet)...)
			b := ""
			if s.Definition != nil {
				b = s.Definition.Type.String()
				if s.Name != "__typename" && s.ObjectDefinition != nil && s.ObjectDefinition.Fields.ForName(s.Name) != s.Definition {
					b = "!not-the-field-definition-of-the-parent-type:" + b
				}
				if s.Definition.Name != s.Name {
					b = "!definition-of-another-field:" + s.Definition.Name
				}
			}
			lp.facts = append(lp.facts, LinkFact{P: n.P, K: "field", A: lp.defName(s.ObjectDefinition), B: b})
			out = append(out, n)
		case *ast.FragmentSpread:
			n := GT{T: "spread", P: lp.id()}
			n.K = append(n.K, lp.leaf("name", s.Name))
			n.K = append(n.K, lp.dirs(s.Directives)...)
			a := ""
			if s.Definition != nil {
				a = s.Definition.Name
				if lp.doc.Fragments.ForName(a) != s.Definition {
					a = "!not-the-document's-fragment:" + a
				}
			}
			lp.facts = append(lp.facts, LinkFact{P: n.P, K: "spread", A: a})
			out = append(out, n)
		case *ast.InlineFragment:
			n := GT{T: "inline", P: lp.id()}
			if s.TypeCondition != "" {
				n.K = append(n.K, lp.leaf("typecond", s.TypeCondition))
			}
			n.K = append(n.K, lp.dirs(s.Directives)...)
			n.K = append(n.K, lp.sels(s.SelectionSet)...)
			lp.facts = append(lp.facts, LinkFact{P: n.P, K: "inline", A: lp.defName(s.ObjectDefinition)})
			out = append(out, n)
		}
	}
	return out
}

// projectWithLinks projects a validated document with node identities and
// collects the links found on the real AST.
func projectWithLinks(schema *ast.Schema, doc *ast.QueryDocument) ([]GT, []LinkFact) {
	lp := &linkProj{schema: schema, doc: doc}
	var out []GT
	for _, op := range doc.Operations {
		n := GT{T: "op", P: lp.id()}
		n.K = append(n.K, lp.leaf("opkind", string(op.Operation)))
		if op.Name != "" {
			n.K = append(n.K, lp.leaf("name", op.Name))
		}
		n.K = append(n.K, lp.vardefs(op.VariableDefinitions)...)
		n.K = append(n.K, lp.dirs(op.Directives)...)
		n.K = append(n.K, lp.sels(op.SelectionSet)...)
		out = append(out, n)
	}
	for _, f := range doc.Fragments {
		n := GT{T: "frag", P: lp.id()}
		n.K = append(n.K, lp.leaf("name", f.Name))
		n.K = append(n.K, lp.vardefs(f.VariableDefinition)...)
		n.K = append(n.K, lp.leaf("typecond", f.TypeCondition))
		n.K = append(n.K, lp.dirs(f.Directives)...)
		n.K = append(n.K, lp.sels(f.SelectionSet)...)
		lp.facts = append(lp.facts, LinkFact{P: n.P, K: "frag", A: lp.defName(f.Definition)})
		out = append(out, n)
	}
	return out, lp.facts
}

// rule subsets under which the links must be the same (an empty non-nil list = no rule at all)
var linkRuleSubsets = []struct {
	name  string
	rules []validator.Rule
}{
	{"no rules", []validator.Rule{}},
	{"only KnownTypeNames and ScalarLeafs (no value or directive observer)", []validator.Rule{rules.KnownTypeNamesRule, rules.ScalarLeafsRule}},
	{"only NoUnusedVariables", []validator.Rule{rules.NoUnusedVariablesRule}},
	{"only KnownDirectives", []validator.Rule{rules.KnownDirectivesRule}},
	{"only FieldsOnCorrectType and OverlappingFieldsCanBeMerged", []validator.Rule{rules.FieldsOnCorrectTypeRule, rules.OverlappingFieldsCanBeMergedRule}},
}

var handLinkDocs = []string{
	`{ u { ... on A { x } } }`, `{ u { __typename ... on B { y } } }`, `{ i { x ... on A { z } } ...F } fragment F on Query { s a { ...G } } fragment G on A { o { y } }`,
	`query($v: Int, $l: [Int]) { f(i: $v, l: [1, $v], ll: [[$v], $l], o: {a: $v, b: [$v, 2], r: 1}, nn: 1) }`,
	`{ f(l: 1, ll: 2, lln: [3], nn: 1) }`, `{ f(ll: [[1, 2], 3], nn: 1) }`, `{ any(x: {a: [1, {b: 2}]}) any2: any(x: [1, [2]]) }`,
	`query Q($v: Int = 1 @rep) @once { s @include(if: true) ... @skip(if: false) { s } ...F @rep } fragment F on Query @rep { s }`,
	`{ __schema { types { name } } __type(name: "A") { name } __typename }`, `{ one(x: {a: 1}) e(v: RED) }`,
	`query A($v: Int) { ...F } query B($v: Int) { ...F } fragment F on Query { f(i: $v, nn: 1) }`,
	`query($v: In) { f(o: $v, nn: 1) }`, `{ a { o { y } } b { li } }`,
	// a single input object where a list of input objects is expected (list input coercion), at the argument and nested
	`{ lo(os: {r: 1, a: 2}) l2: lo(oo: {inner: {r: 1, b: [3]}, one: {r: 2}}) l3: lo(ooo: {inner: {r: 1}}) l4: lo(ooo: [{inner: [{r: 5}]}]) }`,
	`query($v: Int!, $w: [Int]) { lo(os: {r: $v, b: $w}) l2: lo(oo: {inner: {r: $v, b: [$v]}}) }`,
	// a variable used only by a directive of a fragment definition, reached through another fragment
	`query B($u: Int) { ...G } fragment G on Query { a { ...F } } fragment F on A @fd(x: $u) { x }`,
	// variables used by directives on the operation itself and on its variable definitions
	`query Q($v: Int, $b: Boolean!) @opd(x: $v, b: $b) { f(i: $v, nn: 1) s @include(if: $b) }`, `mutation M($b: Boolean!) @opd(b: $b) { m @skip(if: $b) }`,
	// a literal for an input type with more fields than it gives, and the reverse
	`query($v: Int) { wide(w: {f0: $v, f9: 2, f4: 3, f10: [$v, 1], f11: {r: 1, b: [$v]}}) }`, `{ wide(w: {f0: 1, f1: 1, f2: 1, f3: 1, f4: 1, f5: 1, f6: 1, f7: 1, f8: 1, f9: 1, f10: [1], f11: {r: 1}}, a0: 1, a1: 2, a2: 3) }`,
	// variables where no type guides the walk: inside lists and objects given to a custom scalar
	`query($v: Int, $w: String) { f(i: $v, nn: 1) e1: any(x: [$v]) e2: any(x: {ids: [$v, [$w]]}) e3: any(x: [[$v], {k: $w}]) e4: any(x: $w) }`,
	`query($v: Int) { f(i: $v, nn: 1) ...F } fragment F on Query { any(x: [1, [$v]]) }`,
	// the same fragment spread twice in one operation, with directives on the later spread
	`query($h: Boolean!) { a { ...G } b: a { ...G @skip(if: $h) @rep } s @include(if: $h) } fragment G on A { x }`,
	// several operations share a fragment that uses a variable only some of them... all declare it
	`query First($id: Int) { ...Sel } query Second($id: Int) { ...Sel s } fragment Sel on Query { f(i: $id, nn: 1) }`,
}

func checkC09(c *core.Ctx) {
	c.Rule = "cases are VALID (schema, document) pairs from the typed generators plus hand-written documents on a fixed schema (fields reached only through fragments, __typename on unions, introspection fields, values nested in lists inside input objects inside lists, list-coerced single values, variables in every position, directives everywhere). After validator.Validate returns no errors every link of every node of the real AST (with pointer identity against the schema's own definitions) is recorded as a fact and Links_Trace compares the facts with those the typed walk of Rules.tla implies: none wrong, none missing. Non-trivial = documents with at least one fragment or one nested value; distinct by text"
	c.Assumptions = []string{
		"the typed walk (Events) of Rules.tla defines the expected links; a variable use inside a fragment shared by several operations may link to the definition of any operation that reaches it; Directive.ParentDefinition is not part of the statement",
		"node identity is a counter assigned by the projection to both the tree given to the specification and the facts",
	}
	devs := rulesDevs(c)
	if fs, err := core.LoadFindings(); err == nil {
		for _, f := range fs {
			if f.Property == "C09" && f.Status == "open" && f.Dev == "InlineFragmentLinksParent" {
				l, hs, crash := loadReal([]*ast.Source{{Name: "hand.graphql", Input: handRuleSDL}})
				if crash != "" || !l.OK {
					continue
				}
				o := validateReal(hs, `{ u { ... on A { x } } }`)
				if o.ParseOK && len(o.Errs) == 0 {
					in := o.Doc.Operations[0].SelectionSet[0].(*ast.Field).SelectionSet[0].(*ast.InlineFragment)
					if in.ObjectDefinition != nil && in.ObjectDefinition.Name == "U" {
						devs = append(devs, f.Dev)
						c.Known(f.Dev, `schema=hand query={ u { ... on A { x } } }: `+f.What)
					}
				}
			}
		}
	}
	c.SetExtra("deviations_enabled", devs)
	nschemas, ndocs := 3, 120
	if c.Thorough() {
		nschemas, ndocs = 30, 400
	}
	rng := rand.New(rand.NewSource(c.Seed*32452867 + 9))
	tg := &TGen{R: rng}
	run := func(schema *ast.Schema, sdl string, texts []string) bool {
		hdr, _ := json.Marshal(map[string]any{"schema": ProjectRSchema(schema)})
		var schema2 *ast.Schema
		if l2, s2, crash := loadReal([]*ast.Source{{Name: "schema.graphql", Input: sdl}}); crash == "" && l2.OK {
			schema2 = s2
		}
		var lines [][]byte
		var events []int64
		docs := map[int]string{}
		var nontrivial int64
		id := 0
		for _, text := range texts {
			o := validateReal(schema, text)
			if o.Crash != "" {
				c.Violation(fmt.Sprintf("Validate crashed: %s on %q", o.Crash, text), map[string]any{"sdl": sdl, "query": text, "crash": o.Crash})
				continue
			}
			if !o.ParseOK || len(o.Errs) > 0 {
				c.AddExtraInt("documents_not_valid_skipped", 1)
				continue
			}
			tree, facts := projectWithLinks(schema, o.Doc)
			if id%5 == 4 {
				// the same document as a program would build it: the operation kind of a query left at its zero
				// value (the library documents "" as query); validated afresh, it must carry the same links
				if d3, err := parser.ParseQuery(&ast.Source{Input: text, Name: "q.graphql"}); err == nil {
					zeroed := false
					for _, op := range d3.Operations {
						if op.Operation == ast.Query {
							op.Operation = ""
							zeroed = true
						}
					}
					if zeroed {
						var errs3 gqlerror.List
						func() {
							defer guard("validator.Validate (operation kind unset)", text)()
							errs3 = validator.Validate(schema, d3)
						}()
						if len(errs3) == 0 {
							for _, op := range d3.Operations {
								if op.Operation == "" {
									op.Operation = ast.Query // (the projection names the kind)
								}
							}
							tree, facts = projectWithLinks(schema, d3)
							c.AddExtraInt("documents_with_operation_kind_unset", 1)
						}
					}
				}
			}
			id++
			b, _ := json.Marshal(map[string]any{"id": id, "doc": gtNorm(tree), "links": facts})
			lines = append(lines, b)
			events = append(events, int64(len(facts)))
			docs[id] = text
			// the links are written by the walk, whatever rules listen: the same document validated
			// on a fresh parse with a subset of the rules (none, no value-observing rule, no
			// directive-observing rule, ...) must carry the same links
			if id%3 == 0 {
				sub := linkRuleSubsets[(id/3)%len(linkRuleSubsets)]
				if d2, err := parser.ParseQuery(&ast.Source{Input: text, Name: "q.graphql"}); err == nil {
					func() {
						defer guard("validator.Validate with "+sub.name, text)()
						validator.Validate(schema, d2, sub.rules...)
					}()
					tree2, facts2 := projectWithLinks(schema, d2)
					id++
					b2, _ := json.Marshal(map[string]any{"id": id, "doc": gtNorm(tree2), "links": facts2})
					lines = append(lines, b2)
					events = append(events, int64(len(facts2)))
					docs[id] = text + "   [validated with " + sub.name + "]"
				}
			}
			// the same validated tree validated again against ANOTHER instance of the same schema (a schema
			// reload in front of a document cache): every link leads into the instance validated against last
			if id%4 == 2 && schema2 != nil {
				var errs2 gqlerror.List
				func() {
					defer guard("validator.Validate against a second instance of the schema", text)()
					errs2 = validator.Validate(schema2, o.Doc)
				}()
				if len(errs2) > 0 {
					c.Violation(fmt.Sprintf("a valid document is refused when validated again against a second instance of the same schema: %v; document %q", errs2, text), map[string]any{"sdl": sdl, "query": text})
				} else {
					tree4, facts4 := projectWithLinks(schema2, o.Doc)
					id++
					b4, _ := json.Marshal(map[string]any{"id": id, "doc": gtNorm(tree4), "links": facts4})
					lines = append(lines, b4)
					events = append(events, int64(len(facts4)))
					docs[id] = text + "   [validated against one instance of the schema, then against another]"
					c.AddExtraInt("documents_revalidated_against_second_instance", 1)
				}
			}
			if len(o.Doc.Fragments) > 0 || len(facts) > 12 {
				nontrivial++
			}
			if id == 1 {
				c.Sample(map[string]any{"document": text, "link_facts": len(facts), "first_facts": facts[:min(6, len(facts))]})
			}
		}
		if len(lines) == 0 {
			return true
		}
		cfg := "SPECIFICATION Spec\nCONSTANTS\n  Devs = " + core.DevSetTLA(devs) + "\nCHECK_DEADLOCK FALSE\n"
		bad, ok := RunTrace(c, TraceJob{Module: "Links_Trace", CfgText: cfg, Lines: lines, Events: events, Shards: 14, Stack: "512m", Heap: "3g", Header: hdr})
		if !ok {
			return false
		}
		c.Count(int64(len(lines)), nontrivial, int64(len(lines)))
		for _, raw := range bad {
			var b struct {
				ID       int        `json:"id"`
				Class    string     `json:"class"`
				Fact     LinkFact   `json:"fact"`
				Expected []LinkFact `json:"expected"`
			}
			json.Unmarshal(raw, &b)
			c.Violation(fmt.Sprintf("%s: node %s %s links to (%q, %q), the walk expects %v; document %q (schema %q)", b.Class, b.Fact.P, b.Fact.K, b.Fact.A, b.Fact.B, b.Expected, docs[b.ID], clip(sdl, 300)),
				map[string]any{"sdl": sdl, "query": docs[b.ID], "fact": b.Fact, "expected": b.Expected, "what": b.Class})
		}
		return true
	}
	for si := 0; si < nschemas; si++ {
		var schema *ast.Schema
		var sdl string
		for try := 0; try < 20 && schema == nil; try++ {
			gs := tg.Gen()
			sdl = gs.doc.SDL()
			l, s, crash := loadReal([]*ast.Source{{Name: "schema.graphql", Input: sdl}})
			if crash == "" && l.OK {
				schema = s
			}
		}
		if schema == nil {
			c.Internal("could not generate a loadable schema")
			return
		}
		dg := &DGen{R: rng, S: schema}
		var texts []string
		for i := 0; i < ndocs; i++ {
			texts = append(texts, RenderSpaces(UnparseQuery(dg.Doc(), nil)))
		}
		if !run(schema, sdl, texts) {
			return
		}
	}
	if l, hs, crash := loadReal([]*ast.Source{{Name: "hand.graphql", Input: handRuleSDL}}); crash == "" && l.OK {
		run(hs, handRuleSDL, handLinkDocs)
	}
	// small scope: the valid ones among all documents with at most 3 / 4 selections over the small schema (c08small.go)
	if l, ss, crash := loadReal([]*ast.Source{{Name: "small.graphql", Input: smallSDL}}); crash == "" && l.OK {
		budget := 3
		if c.Thorough() {
			budget = 4
		}
		all := smallScopeDocs(budget)
		if len(all) > 40000 {
			// every third document of the sorted enumeration (the enumeration itself is exhaustive in C08)
			var pick []string
			for i := 0; i < len(all); i += 3 {
				pick = append(pick, all[i])
			}
			all = pick
		}
		c.SetExtra("small_scope_documents_tried", len(all))
		run(ss, smallSDL, all)
	}
	// small scope, values: the valid ones among every literal at every kind of input position (c08small.go)
	if l, vs, crash := loadReal([]*ast.Source{{Name: "values.graphql", Input: valueSDL}}); crash == "" && l.OK {
		all := smallValueDocs(c.Thorough())
		c.SetExtra("small_scope_value_documents_tried", len(all))
		run(vs, valueSDL, all)
	}
}

func min(a, b int) int {
	if a < b {
		return a
	}
	return b
}
