package checks

import (
	"fmt"
	"sort"
	"strconv"
	"strings"

	"github.com/vektah/gqlparser/v2/ast"
)

// Abstract type-system documents: the shape TypeSystem.tla works on (JSON
// field names are the TLA+ record fields), what the typed generator
// produces and what the real parser's output is projected to.

type AType struct {
	K    string  `json:"k"` // named | list
	Name string  `json:"name"`
	NN   bool    `json:"nn"`
	Of   []AType `json:"of"`
}

func TNamed(n string, nn bool) AType { return AType{K: "named", Name: n, NN: nn, Of: []AType{}} }
func TList(of AType, nn bool) AType  { return AType{K: "list", NN: nn, Of: []AType{of}} }
func (t AType) Base() string {
	if t.K == "named" {
		return t.Name
	}
	return t.Of[0].Base()
}
func (t AType) String() string {
	s := t.Name
	if t.K == "list" {
		s = "[" + t.Of[0].String() + "]"
	}
	if t.NN {
		s += "!"
	}
	return s
}
func (t AType) Nullable() AType { t.NN = false; return t }
func (t AType) Equal(u AType) bool {
	return t.String() == u.String()
}

// AValue: a literal. K: int float str bool null enum list map var
type AValue struct {
	K     string   `json:"k"`
	S     string   `json:"s"`
	Items []AValue `json:"items"`
	Ents  []AEnt   `json:"ents"`
}
type AEnt struct {
	Name string `json:"name"`
	V    AValue `json:"v"`
}

func (v AValue) Lit() string {
	switch v.K {
	case "str":
		return quoteGraphQL(v.S, nil)
	case "var":
		return "$" + v.S
	case "list":
		p := make([]string, len(v.Items))
		for i, x := range v.Items {
			p[i] = x.Lit()
		}
		return "[" + strings.Join(p, ", ") + "]"
	case "map":
		p := make([]string, len(v.Ents))
		for i, e := range v.Ents {
			p[i] = e.Name + ": " + e.V.Lit()
		}
		return "{" + strings.Join(p, ", ") + "}"
	}
	return v.S
}

type AArgUse struct {
	Name   string `json:"name"`
	IsNull bool   `json:"isNull"`
	V      AValue `json:"-"`
}
type ADirUse struct {
	Name string    `json:"name"`
	Args []AArgUse `json:"args"`
}
type AArgDef struct {
	Name   string    `json:"name"`
	Type   AType     `json:"type"`
	HasDef bool      `json:"hasDef"`
	Dirs   []ADirUse `json:"dirs"`
	Def    *AValue   `json:"-"`
	Desc   string    `json:"-"`
}
type AFieldDef struct {
	Name   string    `json:"name"`
	Type   AType     `json:"type"`
	Args   []AArgDef `json:"args"`
	HasDef bool      `json:"hasDef"`
	Dirs   []ADirUse `json:"dirs"`
	Def    *AValue   `json:"-"`
	Desc   string    `json:"-"`
}
type AEnumVal struct {
	Name string    `json:"name"`
	Dirs []ADirUse `json:"dirs"`
	Desc string    `json:"-"`
}
type ATypeDef struct {
	Kind    string      `json:"kind"`
	Name    string      `json:"name"`
	Ext     bool        `json:"ext"`
	Builtin bool        `json:"builtin"`
	Ifaces  []string    `json:"ifaces"`
	Fields  []AFieldDef `json:"fields"`
	Members []string    `json:"members"`
	Values  []AEnumVal  `json:"values"`
	Dirs    []ADirUse   `json:"dirs"`
	File    int         `json:"file"`
	Desc    string      `json:"-"`
	OneOf   bool        `json:"-"`
}
type ADirDef struct {
	Name    string    `json:"name"`
	Builtin bool      `json:"builtin"`
	Args    []AArgDef `json:"args"`
	Locs    []string  `json:"locs"`
	Rep     bool      `json:"rep"`
	File    int       `json:"file"`
	Desc    string    `json:"-"`
}
type AOpType struct {
	Op   string `json:"op"`
	Type string `json:"type"`
}
type ASchemaDef struct {
	Ext  bool      `json:"ext"`
	Ops  []AOpType `json:"ops"`
	Dirs []ADirUse `json:"dirs"`
	File int       `json:"file"`
	Desc string    `json:"-"`
}
type ASDoc struct {
	Defs    []ATypeDef   `json:"defs"`
	DirDefs []ADirDef    `json:"dirdefs"`
	Schemas []ASchemaDef `json:"schemas"`
}

// ---- rendering to SDL ----

func sdlDesc(b *strings.Builder, d, indent string) {
	if d == "" {
		return
	}
	b.WriteString(indent)
	if blockable(d) && len(d)%2 == 0 {
		b.WriteString(`"""` + d + `"""`)
	} else {
		b.WriteString(quoteGraphQL(d, nil))
	}
	b.WriteString("\n")
}

func sdlDirs(ds []ADirUse) string {
	var b strings.Builder
	for _, d := range ds {
		b.WriteString(" @" + d.Name)
		if len(d.Args) > 0 {
			p := make([]string, len(d.Args))
			for i, a := range d.Args {
				p[i] = a.Name + ": " + a.V.Lit()
			}
			b.WriteString("(" + strings.Join(p, ", ") + ")")
		}
	}
	return b.String()
}

func sdlArgDefs(as []AArgDef) string {
	if len(as) == 0 {
		return ""
	}
	p := make([]string, len(as))
	for i, a := range as {
		s := ""
		if a.Desc != "" {
			s = quoteGraphQL(a.Desc, nil) + " "
		}
		s += a.Name + ": " + a.Type.String()
		if a.Def != nil {
			s += " = " + a.Def.Lit()
		}
		s += sdlDirs(a.Dirs)
		p[i] = s
	}
	return "(" + strings.Join(p, ", ") + ")"
}

var kindSDL = map[string]string{"SCALAR": "scalar", "OBJECT": "type", "INTERFACE": "interface", "UNION": "union", "ENUM": "enum", "INPUT_OBJECT": "input"}

func (d ATypeDef) SDL() string {
	var b strings.Builder
	if !d.Ext {
		sdlDesc(&b, d.Desc, "")
	} else {
		b.WriteString("extend ")
	}
	b.WriteString(kindSDL[d.Kind] + " " + d.Name)
	if len(d.Ifaces) > 0 {
		b.WriteString(" implements " + strings.Join(d.Ifaces, " & "))
	}
	b.WriteString(sdlDirs(d.Dirs))
	switch d.Kind {
	case "OBJECT", "INTERFACE", "INPUT_OBJECT":
		if len(d.Fields) > 0 {
			b.WriteString(" {\n")
			for _, f := range d.Fields {
				sdlDesc(&b, f.Desc, "  ")
				b.WriteString("  " + f.Name + sdlArgDefs(f.Args) + ": " + f.Type.String())
				if f.Def != nil {
					b.WriteString(" = " + f.Def.Lit())
				}
				b.WriteString(sdlDirs(f.Dirs) + "\n")
			}
			b.WriteString("}")
		}
	case "UNION":
		if len(d.Members) > 0 {
			b.WriteString(" = " + strings.Join(d.Members, " | "))
		}
	case "ENUM":
		if len(d.Values) > 0 {
			b.WriteString(" {\n")
			for _, v := range d.Values {
				sdlDesc(&b, v.Desc, "  ")
				b.WriteString("  " + v.Name + sdlDirs(v.Dirs) + "\n")
			}
			b.WriteString("}")
		}
	}
	b.WriteString("\n")
	return b.String()
}

func (d ADirDef) SDL() string {
	var b strings.Builder
	sdlDesc(&b, d.Desc, "")
	b.WriteString("directive @" + d.Name + sdlArgDefs(d.Args))
	if d.Rep {
		b.WriteString(" repeatable")
	}
	b.WriteString(" on " + strings.Join(d.Locs, " | ") + "\n")
	return b.String()
}

func (s ASchemaDef) SDL() string {
	var b strings.Builder
	if s.Ext {
		b.WriteString("extend ")
	} else {
		sdlDesc(&b, s.Desc, "")
	}
	b.WriteString("schema" + sdlDirs(s.Dirs))
	if len(s.Ops) > 0 {
		b.WriteString(" {\n")
		for _, o := range s.Ops {
			b.WriteString("  " + o.Op + ": " + o.Type + "\n")
		}
		b.WriteString("}")
	}
	b.WriteString("\n")
	return b.String()
}

// Items returns the top-level items of the document (each rendered) in their
// base order: schema definitions, directive definitions, type definitions.
type SDLItem struct {
	Text  string
	Names []string // type / directive names this item defines or extends ("schema" for schema items)
	Ext   bool
	Key   string // extensions of one type must keep their relative order: items with the same non-empty Key are never reordered among themselves
}

func (d *ASDoc) Items() []SDLItem {
	var out []SDLItem
	for _, s := range d.Schemas {
		key := ""
		if s.Ext {
			key = "schema-ext"
		}
		out = append(out, SDLItem{Text: s.SDL(), Names: []string{"schema"}, Ext: s.Ext, Key: key})
	}
	for _, dd := range d.DirDefs {
		out = append(out, SDLItem{Text: dd.SDL(), Names: []string{"@" + dd.Name}})
	}
	for _, t := range d.Defs {
		key := ""
		if t.Ext {
			key = "ext:" + t.Name
		}
		out = append(out, SDLItem{Text: t.SDL(), Names: []string{t.Name}, Ext: t.Ext, Key: key})
	}
	return out
}

func (d *ASDoc) SDL() string {
	var b strings.Builder
	for _, it := range d.Items() {
		b.WriteString(it.Text)
		b.WriteString("\n")
	}
	return b.String()
}

// ---- projection of the real parser output ----

func projAType(t *ast.Type) AType {
	if t == nil {
		return TNamed("", false)
	}
	if t.Elem != nil {
		return TList(projAType(t.Elem), t.NonNull)
	}
	return TNamed(t.NamedType, t.NonNull)
}

func projDirUses(ds ast.DirectiveList) []ADirUse {
	out := []ADirUse{}
	for _, d := range ds {
		u := ADirUse{Name: d.Name, Args: []AArgUse{}}
		for _, a := range d.Arguments {
			u.Args = append(u.Args, AArgUse{Name: a.Name, IsNull: a.Value != nil && a.Value.Kind == ast.NullValue})
		}
		out = append(out, u)
	}
	return out
}

func projAArgDefs(as ast.ArgumentDefinitionList) []AArgDef {
	out := []AArgDef{}
	for _, a := range as {
		out = append(out, AArgDef{Name: a.Name, Type: projAType(a.Type), HasDef: a.DefaultValue != nil, Dirs: projDirUses(a.Directives)})
	}
	return out
}

func projATypeDef(d *ast.Definition, ext bool, fileOf func(*ast.Position) int) ATypeDef {
	t := ATypeDef{Kind: string(d.Kind), Name: d.Name, Ext: ext, Builtin: d.BuiltIn, Ifaces: append([]string{}, d.Interfaces...),
		Fields: []AFieldDef{}, Members: append([]string{}, d.Types...), Values: []AEnumVal{}, Dirs: projDirUses(d.Directives), File: fileOf(d.Position)}
	for _, f := range d.Fields {
		t.Fields = append(t.Fields, AFieldDef{Name: f.Name, Type: projAType(f.Type), Args: projAArgDefs(f.Arguments), HasDef: f.DefaultValue != nil, Dirs: projDirUses(f.Directives)})
	}
	for _, v := range d.EnumValues {
		t.Values = append(t.Values, AEnumVal{Name: v.Name, Dirs: projDirUses(v.Directives)})
	}
	return t
}

// ProjectASDoc maps a parsed type-system document (prelude included) to the abstract form.
func ProjectASDoc(sd *ast.SchemaDocument, sources []*ast.Source) ASDoc {
	fileOf := func(p *ast.Position) int {
		if p == nil || p.Src == nil {
			return -1
		}
		for i, s := range sources {
			if s == p.Src {
				return i
			}
		}
		return -1
	}
	out := ASDoc{Defs: []ATypeDef{}, DirDefs: []ADirDef{}, Schemas: []ASchemaDef{}}
	for _, d := range sd.Definitions {
		out.Defs = append(out.Defs, projATypeDef(d, false, fileOf))
	}
	for _, d := range sd.Extensions {
		out.Defs = append(out.Defs, projATypeDef(d, true, fileOf))
	}
	for _, d := range sd.Directives {
		dd := ADirDef{Name: d.Name, Args: projAArgDefs(d.Arguments), Locs: []string{}, Rep: d.IsRepeatable, File: fileOf(d.Position)}
		if d.Position != nil && d.Position.Src != nil {
			dd.Builtin = d.Position.Src.BuiltIn
		}
		for _, l := range d.Locations {
			dd.Locs = append(dd.Locs, string(l))
		}
		out.DirDefs = append(out.DirDefs, dd)
	}
	projSchema := func(s *ast.SchemaDefinition, ext bool) ASchemaDef {
		x := ASchemaDef{Ext: ext, Ops: []AOpType{}, Dirs: projDirUses(s.Directives), File: fileOf(s.Position)}
		for _, o := range s.OperationTypes {
			x.Ops = append(x.Ops, AOpType{Op: string(o.Operation), Type: o.Type})
		}
		return x
	}
	for _, s := range sd.Schema {
		out.Schemas = append(out.Schemas, projSchema(s, false))
	}
	for _, s := range sd.SchemaExtension {
		out.Schemas = append(out.Schemas, projSchema(s, true))
	}
	return out
}

// ---- projection of a loaded schema ----

type ARel struct {
	Name string   `json:"name"`
	Of   []string `json:"of"`
}

type ALoaded struct {
	OK            bool     `json:"ok"`
	Types         []string `json:"types"`
	Builtins      []string `json:"builtins"`
	Dirs          []string `json:"dirs"`
	Possible      []ARel   `json:"possible"`
	Implements    []ARel   `json:"implements"`
	Q             []string `json:"q"`
	M             []string `json:"m"`
	S             []string `json:"s"`
	Introspection bool     `json:"introspection"`
	ErrFile       string   `json:"errfile"`
	Files         []string `json:"files"`
	Err           string   `json:"-"`
	Dangling      string   `json:"-"` // a relation entry or root that is nil / not the schema's own definition
}

func relOf(m map[string][]*ast.Definition, schema *ast.Schema, dangling *string) []ARel {
	out := []ARel{}
	names := make([]string, 0, len(m))
	for k := range m {
		names = append(names, k)
	}
	sort.Strings(names)
	for _, k := range names {
		r := ARel{Name: k, Of: []string{}}
		seen := map[string]bool{}
		for _, d := range m[k] {
			if d == nil {
				*dangling = fmt.Sprintf("relation entry of %s is nil", k)
				continue
			}
			if schema.Types[d.Name] != d {
				*dangling = fmt.Sprintf("relation entry %s of %s is not the definition registered under that name", d.Name, k)
			}
			if !seen[d.Name] {
				seen[d.Name] = true
				r.Of = append(r.Of, d.Name)
			}
		}
		sort.Strings(r.Of)
		if len(r.Of) > 0 {
			out = append(out, r)
		}
	}
	return out
}

func ProjectLoaded(s *ast.Schema) ALoaded {
	l := ALoaded{OK: true, Types: []string{}, Builtins: []string{}, Dirs: []string{}, Q: []string{}, M: []string{}, S: []string{}, Files: []string{}}
	for n, d := range s.Types {
		l.Types = append(l.Types, n)
		if d != nil && d.BuiltIn {
			l.Builtins = append(l.Builtins, n)
		}
		if d == nil {
			l.Dangling = "Types[" + n + "] is nil"
		} else if d.Name != n {
			l.Dangling = "Types[" + n + "] is named " + d.Name
		}
	}
	sort.Strings(l.Types)
	sort.Strings(l.Builtins)
	for n, d := range s.Directives {
		l.Dirs = append(l.Dirs, n)
		if d == nil {
			l.Dangling = "Directives[" + n + "] is nil"
		}
	}
	sort.Strings(l.Dirs)
	l.Possible = relOf(s.PossibleTypes, s, &l.Dangling)
	l.Implements = relOf(s.Implements, s, &l.Dangling)
	root := func(d *ast.Definition) []string {
		if d == nil {
			return []string{}
		}
		if s.Types[d.Name] != d {
			l.Dangling = "root " + d.Name + " is not the registered definition"
		}
		return []string{d.Name}
	}
	l.Q, l.M, l.S = root(s.Query), root(s.Mutation), root(s.Subscription)
	if s.Query != nil {
		l.Introspection = s.Query.Fields.ForName("__schema") != nil && s.Query.Fields.ForName("__type") != nil
	}
	// closure: every name a definition mentions resolves
	for _, d := range s.Types {
		if d == nil {
			continue
		}
		for _, f := range d.Fields {
			if f.Type == nil || s.Types[f.Type.Name()] == nil {
				l.Dangling = "field " + d.Name + "." + f.Name + " has an unresolved type"
			}
			for _, a := range f.Arguments {
				if a.Type == nil || s.Types[a.Type.Name()] == nil {
					l.Dangling = "argument " + d.Name + "." + f.Name + "(" + a.Name + ") has an unresolved type"
				}
			}
			for _, dr := range f.Directives {
				if s.Directives[dr.Name] == nil {
					l.Dangling = "directive @" + dr.Name + " on " + d.Name + "." + f.Name + " is not declared"
				}
			}
		}
		for _, i := range d.Interfaces {
			if s.Types[i] == nil {
				l.Dangling = d.Name + " implements unresolved " + i
			}
		}
		for _, m := range d.Types {
			if s.Types[m] == nil {
				l.Dangling = d.Name + " has unresolved member " + m
			}
		}
		for _, dr := range d.Directives {
			if s.Directives[dr.Name] == nil {
				l.Dangling = "directive @" + dr.Name + " on " + d.Name + " is not declared"
			}
		}
	}
	return l
}

func itoaQ(s string) string { return strconv.Quote(s) }
