package checks

import (
	"fmt"
	"math/rand"
	"sort"
	"strings"
)

// TGen generates type systems that are valid by construction: interfaces
// implementing interfaces, unions, oneOf inputs, repeatable directives,
// argument and input-field defaults, custom scalars, nested list/non-null
// types, directives on the type-system locations, extensions (including
// extension-only types), custom root names.
type TGen struct {
	R *rand.Rand
}

var builtinScalars = []string{"Int", "Float", "String", "Boolean", "ID"}

type genSchema struct {
	doc     *ASDoc
	scalars []string
	enums   []string
	inputs  []string
	ifaces  []string
	objects []string
	unions  []string
	dirs    []string
	defs    map[string]*ATypeDef // merged view by name (base def; extensions folded in before they are split off)
}

func (g *TGen) pick(xs []string) string { return xs[g.R.Intn(len(xs))] }

func (g *TGen) wrap(t AType, depth int) AType {
	switch g.R.Intn(6) {
	case 0:
		if depth > 0 {
			return g.wrap(TList(t, g.R.Intn(2) == 0), depth-1)
		}
	case 1:
		t.NN = true
	}
	return t
}

// defaultFor returns a literal of the given input type.
func (g *TGen) defaultFor(s *genSchema, t AType, depth int) AValue {
	if !t.NN && g.R.Intn(6) == 0 {
		return AValue{K: "null", S: "null"}
	}
	if t.K == "list" {
		v := AValue{K: "list"}
		for i := g.R.Intn(3); i > 0; i-- {
			v.Items = append(v.Items, g.defaultFor(s, t.Of[0], depth-1))
		}
		return v
	}
	switch t.Name {
	case "Int":
		return AValue{K: "int", S: fmt.Sprint(g.R.Intn(100))}
	case "Float":
		return AValue{K: "float", S: "1.5"}
	case "String":
		return AValue{K: "str", S: []string{"s", "a b", "q\"q", ""}[g.R.Intn(4)]}
	case "Boolean":
		return AValue{K: "bool", S: []string{"true", "false"}[g.R.Intn(2)]}
	case "ID":
		return AValue{K: "str", S: "id1"}
	}
	if d, ok := s.defs[t.Name]; ok {
		switch d.Kind {
		case "ENUM":
			return AValue{K: "enum", S: d.Values[g.R.Intn(len(d.Values))].Name}
		case "SCALAR":
			return AValue{K: "int", S: "7"}
		case "INPUT_OBJECT":
			v := AValue{K: "map"}
			for _, f := range d.Fields {
				if (f.Type.NN && f.Def == nil) || (depth > 0 && g.R.Intn(3) == 0) {
					if depth <= 0 && !f.Type.NN {
						continue
					}
					if f.Type.Base() == t.Name && depth <= 0 {
						continue
					}
					v.Ents = append(v.Ents, AEnt{Name: f.Name, V: g.defaultFor(s, f.Type, depth-1)})
				}
			}
			return v
		}
	}
	return AValue{K: "null", S: "null"}
}

func (g *TGen) inputType(s *genSchema) AType {
	pool := append(append(append([]string{}, builtinScalars...), s.scalars...), s.enums...)
	pool = append(pool, s.inputs...)
	return g.wrap(TNamed(g.pick(pool), false), 2)
}

func (g *TGen) outputType(s *genSchema) AType {
	pool := append(append(append([]string{}, builtinScalars...), s.scalars...), s.enums...)
	pool = append(pool, s.ifaces...)
	pool = append(pool, s.objects...)
	pool = append(pool, s.objects...)
	pool = append(pool, s.unions...)
	return g.wrap(TNamed(g.pick(pool), false), 2)
}

func (g *TGen) argDefs(s *genSchema, n int, prefix string) []AArgDef {
	var out []AArgDef
	for i := 0; i < n; i++ {
		a := AArgDef{Name: fmt.Sprintf("%s%d", prefix, i), Type: g.inputType(s), Dirs: []ADirUse{}}
		if g.R.Intn(3) == 0 {
			v := g.defaultFor(s, a.Type, 2)
			a.Def = &v
			a.HasDef = true
		}
		if g.R.Intn(5) == 0 {
			a.Desc = "arg " + a.Name
		}
		out = append(out, a)
	}
	return out
}

// dirUse applies a declared directive that allows loc (nil if none does).
func (g *TGen) dirUses(s *genSchema, loc string) []ADirUse {
	out := []ADirUse{}
	if g.R.Intn(3) != 0 {
		return out
	}
	for _, dd := range s.doc.DirDefs {
		ok := false
		for _, l := range dd.Locs {
			if l == loc {
				ok = true
			}
		}
		if !ok || g.R.Intn(2) == 0 {
			continue
		}
		u := ADirUse{Name: dd.Name, Args: []AArgUse{}}
		for _, a := range dd.Args {
			if (a.Type.NN && a.Def == nil) || g.R.Intn(2) == 0 {
				v := g.defaultFor(s, a.Type.Nullable(), 1)
				if a.Type.NN && v.K == "null" {
					v = g.defaultFor(s, AType{K: a.Type.K, Name: a.Type.Name, NN: true, Of: a.Type.Of}, 1)
				}
				u.Args = append(u.Args, AArgUse{Name: a.Name, IsNull: v.K == "null", V: v})
			}
		}
		out = append(out, u)
		if dd.Rep && g.R.Intn(2) == 0 {
			out = append(out, u)
		}
		if len(out) >= 2 {
			break
		}
	}
	return out
}

var typeSystemLocs = []string{"SCHEMA", "SCALAR", "OBJECT", "FIELD_DEFINITION", "ARGUMENT_DEFINITION", "INTERFACE", "UNION", "ENUM", "ENUM_VALUE", "INPUT_OBJECT", "INPUT_FIELD_DEFINITION"}
var executableLocs = []string{"QUERY", "MUTATION", "SUBSCRIPTION", "FIELD", "FRAGMENT_DEFINITION", "FRAGMENT_SPREAD", "INLINE_FRAGMENT", "VARIABLE_DEFINITION"}

// Gen produces a valid type system. rootNames: whether to use an explicit schema definition with custom root names.
func (g *TGen) Gen() *genSchema {
	s := &genSchema{doc: &ASDoc{}, defs: map[string]*ATypeDef{}}
	d := s.doc
	add := func(t ATypeDef) {
		if t.Ifaces == nil {
			t.Ifaces = []string{}
		}
		if t.Fields == nil {
			t.Fields = []AFieldDef{}
		}
		if t.Members == nil {
			t.Members = []string{}
		}
		if t.Values == nil {
			t.Values = []AEnumVal{}
		}
		if t.Dirs == nil {
			t.Dirs = []ADirUse{}
		}
		d.Defs = append(d.Defs, t)
		s.defs[t.Name] = &d.Defs[len(d.Defs)-1]
	}
	// custom scalars and enums first (leaf input types)
	for i := 0; i < 1+g.R.Intn(2); i++ {
		n := []string{"Any", "Date", "JSON"}[i]
		add(ATypeDef{Kind: "SCALAR", Name: n})
		s.scalars = append(s.scalars, n)
	}
	for i := 0; i < 1+g.R.Intn(2); i++ {
		n := fmt.Sprintf("E%d", i)
		t := ATypeDef{Kind: "ENUM", Name: n}
		for j := 0; j < 1+g.R.Intn(4); j++ {
			t.Values = append(t.Values, AEnumVal{Name: []string{"RED", "GREEN", "BLUE", "on", "type"}[j], Dirs: []ADirUse{}})
		}
		add(t)
		s.enums = append(s.enums, n)
	}
	// directives (declared before they are applied anywhere)
	for i := 0; i < 1+g.R.Intn(3); i++ {
		dd := ADirDef{Name: fmt.Sprintf("d%d", i), Rep: g.R.Intn(3) == 0}
		locs := map[string]bool{}
		for j := 0; j < 2+g.R.Intn(6); j++ {
			if g.R.Intn(2) == 0 {
				locs[g.pick(typeSystemLocs)] = true
			} else {
				locs[g.pick(executableLocs)] = true
			}
		}
		for _, l := range append(append([]string{}, executableLocs...), typeSystemLocs...) {
			if locs[l] {
				dd.Locs = append(dd.Locs, l)
			}
		}
		dd.Args = g.argDefs(s, g.R.Intn(3), "x")
		if dd.Args == nil {
			dd.Args = []AArgDef{}
		}
		d.DirDefs = append(d.DirDefs, dd)
		s.dirs = append(s.dirs, dd.Name)
	}
	// input objects (later ones may refer to earlier ones and, nullably, to themselves)
	for i := 0; i < 1+g.R.Intn(3); i++ {
		n := fmt.Sprintf("In%d", i)
		t := ATypeDef{Kind: "INPUT_OBJECT", Name: n}
		s.inputs = append(s.inputs, n)
		s.defs[n] = &t
		nf := 1 + g.R.Intn(4)
		for j := 0; j < nf; j++ {
			f := AFieldDef{Name: fmt.Sprintf("f%d", j), Type: g.inputType(s), Args: []AArgDef{}, Dirs: []ADirUse{}}
			if f.Type.Base() == n {
				// a self reference must be breakable: nullable or inside a list
				f.Type = TNamed(n, false)
				if j == 0 {
					// the first field is never self-referential, so that a value of the type can always be written
					f.Type = TNamed("Int", false)
				}
			}
			t.Fields = append(t.Fields, f)
		}
		if g.R.Intn(4) == 0 {
			// oneOf input: all fields nullable, no defaults
			t.OneOf = true
			for j := range t.Fields {
				t.Fields[j].Type.NN = false
			}
			t.Dirs = append(t.Dirs, ADirUse{Name: "oneOf", Args: []AArgUse{}})
		}
		add(t)
		if !t.OneOf {
			for j := range s.defs[n].Fields {
				f := &s.defs[n].Fields[j]
				if g.R.Intn(3) == 0 && f.Type.Base() != n {
					v := g.defaultFor(s, f.Type, 1)
					f.Def = &v
					f.HasDef = true
				}
			}
		}
	}
	// interfaces: I0 .. ; Ik may implement earlier ones (with all their transitive interfaces)
	nI := 1 + g.R.Intn(3)
	for i := 0; i < nI; i++ {
		s.ifaces = append(s.ifaces, fmt.Sprintf("I%d", i))
	}
	nO := 2 + g.R.Intn(4)
	for i := 0; i < nO; i++ {
		s.objects = append(s.objects, fmt.Sprintf("O%d", i))
	}
	nU := g.R.Intn(3)
	for i := 0; i < nU; i++ {
		s.unions = append(s.unions, fmt.Sprintf("U%d", i))
	}
	mkFields := func(n int, prefix string) []AFieldDef {
		var fs []AFieldDef
		for j := 0; j < n; j++ {
			f := AFieldDef{Name: fmt.Sprintf("%s%d", prefix, j), Type: g.outputType(s), Dirs: []ADirUse{}}
			f.Args = g.argDefs(s, []int{0, 0, 1, 2}[g.R.Intn(4)], "a")
			if f.Args == nil {
				f.Args = []AArgDef{}
			}
			if g.R.Intn(5) == 0 {
				f.Desc = "field " + f.Name
			}
			fs = append(fs, f)
		}
		return fs
	}
	closure := func(names []string) []string {
		seen := map[string]bool{}
		var out []string
		var visit func(n string)
		visit = func(n string) {
			if seen[n] {
				return
			}
			seen[n] = true
			for _, p := range s.defs[n].Ifaces {
				visit(p)
			}
			out = append(out, n)
		}
		for _, n := range names {
			visit(n)
		}
		return out
	}
	inherit := func(t *ATypeDef) {
		have := map[string]bool{}
		for _, f := range t.Fields {
			have[f.Name] = true
		}
		// every interface of t (parents and children alike) may require a field; satisfy all of them:
		// the strictest nullability and the union of the arguments
		order := []string{}
		req := map[string]*AFieldDef{}
		for _, in := range t.Ifaces {
			for _, rf := range s.defs[in].Fields {
				cur, ok := req[rf.Name]
				if !ok {
					c := AFieldDef{Name: rf.Name, Type: rf.Type, Dirs: []ADirUse{}}
					for _, a := range rf.Args {
						c.Args = append(c.Args, AArgDef{Name: a.Name, Type: a.Type, Def: a.Def, HasDef: a.HasDef, Dirs: []ADirUse{}})
					}
					req[rf.Name] = &c
					order = append(order, rf.Name)
					continue
				}
				if rf.Type.NN {
					cur.Type.NN = true
				}
				for _, a := range rf.Args {
					found := false
					for _, x := range cur.Args {
						if x.Name == a.Name {
							found = true
						}
					}
					if !found {
						cur.Args = append(cur.Args, AArgDef{Name: a.Name, Type: a.Type, Def: a.Def, HasDef: a.HasDef, Dirs: []ADirUse{}})
					}
				}
			}
		}
		for _, name := range order {
			if have[name] {
				continue
			}
			f := *req[name]
			// covariance: may strengthen nullability
			if !f.Type.NN && g.R.Intn(3) == 0 {
				f.Type.NN = true
			}
			if g.R.Intn(4) == 0 {
				hasExtra := false
				for _, a := range f.Args {
					if a.Name == "extra" {
						hasExtra = true
					}
				}
				if !hasExtra {
					// an additional optional argument
					f.Args = append(f.Args, AArgDef{Name: "extra", Type: TNamed("Int", false), Dirs: []ADirUse{}})
				}
			}
			if f.Args == nil {
				f.Args = []AArgDef{}
			}
			t.Fields = append(t.Fields, f)
		}
	}
	for i, n := range s.ifaces {
		t := ATypeDef{Kind: "INTERFACE", Name: n, Fields: mkFields(1+g.R.Intn(2), strings.ToLower(n)+"f")}
		if i > 0 && g.R.Intn(2) == 0 {
			t.Ifaces = closure([]string{s.ifaces[g.R.Intn(i)]})
		}
		s.defs[n] = &t
		inherit(&t)
		add(t)
	}
	for _, n := range s.objects {
		t := ATypeDef{Kind: "OBJECT", Name: n, Fields: mkFields(1+g.R.Intn(3), strings.ToLower(n)+"f")}
		if g.R.Intn(3) != 0 {
			t.Ifaces = closure([]string{g.pick(s.ifaces)})
			if g.R.Intn(3) == 0 {
				t.Ifaces = closure(append(t.Ifaces, g.pick(s.ifaces)))
			}
		}
		s.defs[n] = &t
		inherit(&t)
		add(t)
	}
	for _, n := range s.unions {
		t := ATypeDef{Kind: "UNION", Name: n}
		seen := map[string]bool{}
		for j := 0; j < 1+g.R.Intn(3); j++ {
			m := g.pick(s.objects)
			if !seen[m] {
				seen[m] = true
				t.Members = append(t.Members, m)
			}
		}
		add(t)
	}
	// roots
	custom := g.R.Intn(3) == 0
	qn, mn, sn := "Query", "Mutation", "Subscription"
	if custom {
		qn, mn, sn = "RootQ", "RootM", "RootS"
	}
	q := ATypeDef{Kind: "OBJECT", Name: qn, Fields: mkFields(2+g.R.Intn(3), "q")}
	s.defs[qn] = &q
	add(q)
	hasM, hasS := g.R.Intn(2) == 0, g.R.Intn(3) == 0
	if hasM {
		add(ATypeDef{Kind: "OBJECT", Name: mn, Fields: mkFields(1+g.R.Intn(2), "m")})
	}
	if hasS {
		add(ATypeDef{Kind: "OBJECT", Name: sn, Fields: mkFields(1+g.R.Intn(2), "s")})
	}
	if custom {
		sd := ASchemaDef{Ops: []AOpType{{Op: "query", Type: qn}}, Dirs: []ADirUse{}}
		if hasM {
			sd.Ops = append(sd.Ops, AOpType{Op: "mutation", Type: mn})
		}
		if hasS {
			sd.Ops = append(sd.Ops, AOpType{Op: "subscription", Type: sn})
		}
		if g.R.Intn(3) == 0 {
			sd.Desc = "the schema"
		}
		// a type named like a default root that is NOT a root
		if !hasM && g.R.Intn(2) == 0 {
			add(ATypeDef{Kind: "OBJECT", Name: "Mutation", Fields: mkFields(1, "notroot")})
		}
		d.Schemas = append(d.Schemas, sd)
	}
	// applied directives, descriptions
	for i := range d.Defs {
		t := &d.Defs[i]
		t.Dirs = append(t.Dirs, g.dirUses(s, t.Kind)...)
		if g.R.Intn(4) == 0 {
			t.Desc = []string{"A type.", "multi\nline", "with \"quotes\"", "  indented"}[g.R.Intn(4)]
		}
		for j := range t.Fields {
			f := &t.Fields[j]
			loc := "FIELD_DEFINITION"
			if t.Kind == "INPUT_OBJECT" {
				loc = "INPUT_FIELD_DEFINITION"
			}
			f.Dirs = append(f.Dirs, g.dirUses(s, loc)...)
			for k := range f.Args {
				f.Args[k].Dirs = append(f.Args[k].Dirs, g.dirUses(s, "ARGUMENT_DEFINITION")...)
			}
		}
		for j := range t.Values {
			t.Values[j].Dirs = append(t.Values[j].Dirs, g.dirUses(s, "ENUM_VALUE")...)
		}
	}
	if len(d.Schemas) > 0 {
		d.Schemas[0].Dirs = append(d.Schemas[0].Dirs, g.dirUses(s, "SCHEMA")...)
	} else if g.R.Intn(4) == 0 {
		if u := g.dirUses(s, "SCHEMA"); len(u) > 0 {
			d.Schemas = append(d.Schemas, ASchemaDef{Ext: true, Ops: []AOpType{}, Dirs: u})
		}
	}
	// split some definitions into base + extension; make some types extension-only
	var extra []ATypeDef
	for i := range d.Defs {
		t := &d.Defs[i]
		if g.R.Intn(4) != 0 {
			continue
		}
		switch t.Kind {
		case "OBJECT", "INTERFACE", "INPUT_OBJECT":
			if len(t.Fields) >= 2 {
				k := 1 + g.R.Intn(len(t.Fields)-1)
				e := ATypeDef{Kind: t.Kind, Name: t.Name, Ext: true, Fields: append([]AFieldDef{}, t.Fields[k:]...), Ifaces: []string{}, Members: []string{}, Values: []AEnumVal{}, Dirs: []ADirUse{}}
				t.Fields = t.Fields[:k]
				if len(t.Ifaces) > 0 && t.Kind != "INPUT_OBJECT" && g.R.Intn(2) == 0 {
					e.Ifaces, t.Ifaces = t.Ifaces, []string{}
				}
				if g.R.Intn(5) == 0 && t.Kind != "INPUT_OBJECT" {
					// extension-only: the base disappears
					base := *t
					base.Ext = true
					base.Desc = ""
					*t = base
				}
				extra = append(extra, e)
			}
		case "UNION":
			if len(t.Members) >= 2 {
				e := ATypeDef{Kind: t.Kind, Name: t.Name, Ext: true, Members: append([]string{}, t.Members[1:]...), Ifaces: []string{}, Fields: []AFieldDef{}, Values: []AEnumVal{}, Dirs: []ADirUse{}}
				t.Members = t.Members[:1]
				extra = append(extra, e)
			}
		case "ENUM":
			if len(t.Values) >= 2 {
				e := ATypeDef{Kind: t.Kind, Name: t.Name, Ext: true, Values: append([]AEnumVal{}, t.Values[1:]...), Ifaces: []string{}, Fields: []AFieldDef{}, Members: []string{}, Dirs: []ADirUse{}}
				t.Values = t.Values[:1]
				extra = append(extra, e)
			}
		}
	}
	d.Defs = append(d.Defs, extra...)
	// rebuild the merged view (pointers moved)
	s.defs = mergedView(d)
	return s
}

// mergedView folds extensions into one definition per name.
func mergedView(d *ASDoc) map[string]*ATypeDef {
	out := map[string]*ATypeDef{}
	for pass := 0; pass < 2; pass++ {
		for i := range d.Defs {
			t := d.Defs[i]
			if (pass == 0) == t.Ext {
				continue
			}
			m, ok := out[t.Name]
			if !ok {
				c := t
				c.Ext = false
				c.Fields = append([]AFieldDef{}, t.Fields...)
				c.Ifaces = append([]string{}, t.Ifaces...)
				c.Members = append([]string{}, t.Members...)
				c.Values = append([]AEnumVal{}, t.Values...)
				c.Dirs = append([]ADirUse{}, t.Dirs...)
				out[t.Name] = &c
				continue
			}
			m.Fields = append(m.Fields, t.Fields...)
			m.Ifaces = append(m.Ifaces, t.Ifaces...)
			m.Members = append(m.Members, t.Members...)
			m.Values = append(m.Values, t.Values...)
			m.Dirs = append(m.Dirs, t.Dirs...)
		}
	}
	return out
}

// ---- fault catalogue: one injected violation of one enforced rule ----

type SchemaFault struct {
	Rule     string   // TypeSystem.tla rule name the fault is meant to violate
	What     string   // description
	Involved []string // names of the definitions involved (for the error-file property)
}

// InjectFault mutates doc in place; returns nil if the chosen operator does not apply.
func (g *TGen) InjectFault(s *genSchema) *SchemaFault {
	d := s.doc
	pickDef := func(kinds ...string) *ATypeDef {
		var idx []int
		for i := range d.Defs {
			for _, k := range kinds {
				if d.Defs[i].Kind == k {
					idx = append(idx, i)
				}
			}
		}
		if len(idx) == 0 {
			return nil
		}
		return &d.Defs[idx[g.R.Intn(len(idx))]]
	}
	withFields := func(kinds ...string) *ATypeDef {
		for try := 0; try < 20; try++ {
			t := pickDef(kinds...)
			if t != nil && len(t.Fields) > 0 {
				return t
			}
		}
		return nil
	}
	implementer := func() (*ATypeDef, string) {
		for try := 0; try < 30; try++ {
			t := pickDef("OBJECT", "INTERFACE")
			if t != nil && len(t.Ifaces) > 0 {
				return t, t.Ifaces[g.R.Intn(len(t.Ifaces))]
			}
		}
		return nil, ""
	}
	ops := []func() *SchemaFault{
		func() *SchemaFault { // duplicate type
			t := pickDef("OBJECT", "SCALAR", "ENUM", "INTERFACE", "UNION", "INPUT_OBJECT")
			if t == nil || t.Ext {
				return nil
			}
			c := *t
			d.Defs = append(d.Defs, c)
			return &SchemaFault{"UniqueTypes", "type " + t.Name + " declared twice", []string{t.Name}}
		},
		func() *SchemaFault { // duplicate directive
			if len(d.DirDefs) == 0 {
				return nil
			}
			c := d.DirDefs[g.R.Intn(len(d.DirDefs))]
			d.DirDefs = append(d.DirDefs, c)
			return &SchemaFault{"UniqueDirectives", "directive @" + c.Name + " declared twice", []string{"@" + c.Name}}
		},
		func() *SchemaFault { // duplicate field (possibly through an extension)
			t := withFields("OBJECT", "INTERFACE", "INPUT_OBJECT")
			if t == nil {
				return nil
			}
			f := t.Fields[g.R.Intn(len(t.Fields))]
			if g.R.Intn(2) == 0 {
				t.Fields = append(t.Fields, f)
			} else {
				d.Defs = append(d.Defs, ATypeDef{Kind: t.Kind, Name: t.Name, Ext: true, Fields: []AFieldDef{f}, Ifaces: []string{}, Members: []string{}, Values: []AEnumVal{}, Dirs: []ADirUse{}})
			}
			return &SchemaFault{"UniqueFields", "field " + t.Name + "." + f.Name + " defined twice", []string{t.Name}}
		},
		func() *SchemaFault { // undefined field type
			t := withFields("OBJECT", "INTERFACE", "INPUT_OBJECT")
			if t == nil {
				return nil
			}
			// only on a field no interface requires, so that exactly this rule is hit first or alone
			f := &t.Fields[g.R.Intn(len(t.Fields))]
			f.Type = TNamed("Missing", false)
			return &SchemaFault{"RefsExist", "field " + t.Name + "." + f.Name + " of undefined type", []string{t.Name}}
		},
		func() *SchemaFault { // undefined argument type
			for try := 0; try < 20; try++ {
				t := withFields("OBJECT", "INTERFACE")
				if t == nil {
					return nil
				}
				f := &t.Fields[g.R.Intn(len(t.Fields))]
				if len(f.Args) > 0 {
					f.Args[0].Type = TList(TNamed("Nowhere", true), false)
					return &SchemaFault{"RefsExist", "argument of undefined type", []string{t.Name}}
				}
			}
			return nil
		},
		func() *SchemaFault { // undefined interface
			t := pickDef("OBJECT")
			if t == nil {
				return nil
			}
			t.Ifaces = append(t.Ifaces, "NoSuchIface")
			return &SchemaFault{"RefsExist", t.Name + " implements an undefined interface", []string{t.Name}}
		},
		func() *SchemaFault { // undefined union member
			t := pickDef("UNION")
			if t == nil {
				return nil
			}
			t.Members = append(t.Members, "Ghost")
			return &SchemaFault{"RefsExist", "union " + t.Name + " has an undefined member", []string{t.Name}}
		},
		func() *SchemaFault { // undefined root
			if len(d.Schemas) == 0 || d.Schemas[0].Ext {
				d.Schemas = append([]ASchemaDef{{Ops: []AOpType{{Op: "query", Type: "Nope"}}, Dirs: []ADirUse{}}}, d.Schemas...)
			} else {
				d.Schemas[0].Ops = append(d.Schemas[0].Ops, AOpType{Op: "subscription", Type: "Nope"})
			}
			return &SchemaFault{"RefsExist", "root operation type does not exist", []string{"schema"}}
		},
		func() *SchemaFault { // interface list names an object
			t := pickDef("OBJECT")
			o := pickDef("OBJECT")
			if t == nil || o == nil || t.Name == o.Name {
				return nil
			}
			t.Ifaces = append(t.Ifaces, o.Name)
			return &SchemaFault{"RightKinds", t.Name + " implements the object " + o.Name, []string{t.Name, o.Name}}
		},
		func() *SchemaFault { // union member that is not an object
			t := pickDef("UNION")
			if t == nil {
				return nil
			}
			m := g.pick(append(append([]string{"Int"}, s.ifaces...), s.enums...))
			t.Members = append(t.Members, m)
			return &SchemaFault{"RightKinds", "union " + t.Name + " lists non-object " + m, []string{t.Name, m}}
		},
		func() *SchemaFault { // output position holds an input object
			t := withFields("OBJECT")
			if t == nil || len(s.inputs) == 0 {
				return nil
			}
			// add a new field to an object so that no interface contract is disturbed
			t.Fields = append(t.Fields, AFieldDef{Name: "badOut", Type: TNamed(g.pick(s.inputs), false), Args: []AArgDef{}, Dirs: []ADirUse{}})
			return &SchemaFault{"RightKinds", "output field of input-object type", []string{t.Name}}
		},
		func() *SchemaFault { // input position holds an output type
			if g.R.Intn(2) == 0 {
				t := withFields("INPUT_OBJECT")
				if t == nil {
					return nil
				}
				t.Fields = append(t.Fields, AFieldDef{Name: "badIn", Type: TNamed(g.pick(s.objects), false), Args: []AArgDef{}, Dirs: []ADirUse{}})
				return &SchemaFault{"RightKinds", "input field of object type", []string{t.Name}}
			}
			t := withFields("OBJECT")
			if t == nil {
				return nil
			}
			t.Fields = append(t.Fields, AFieldDef{Name: "badArg", Type: TNamed("Int", false), Args: []AArgDef{{Name: "o", Type: TNamed(g.pick(s.objects), false), Dirs: []ADirUse{}}}, Dirs: []ADirUse{}})
			return &SchemaFault{"RightKinds", "argument of object type", []string{t.Name}}
		},
		func() *SchemaFault { // implementer drops a required field
			t, in := implementer()
			if t == nil {
				return nil
			}
			m := mergedView(d)
			if m[in] == nil {
				return nil
			}
			req := m[in].Fields
			if len(req) == 0 {
				return nil
			}
			name := req[g.R.Intn(len(req))].Name
			found := false
			for i := range d.Defs {
				if d.Defs[i].Name != t.Name {
					continue
				}
				var keep []AFieldDef
				for _, f := range d.Defs[i].Fields {
					if f.Name == name {
						found = true
						continue
					}
					keep = append(keep, f)
				}
				if keep == nil {
					keep = []AFieldDef{}
				}
				d.Defs[i].Fields = keep
			}
			if !found {
				return nil
			}
			// keep the type non-empty so that only the interface rule is violated
			for i := range d.Defs {
				if d.Defs[i].Name == t.Name && !d.Defs[i].Ext || d.Defs[i].Name == t.Name && len(m[t.Name].Fields) == 1 {
					d.Defs[i].Fields = append(d.Defs[i].Fields, AFieldDef{Name: "filler", Type: TNamed("Int", false), Args: []AArgDef{}, Dirs: []ADirUse{}})
					break
				}
			}
			return &SchemaFault{"Implementers", t.Name + " lacks field " + name + " required by " + in, []string{t.Name, in}}
		},
		func() *SchemaFault { // implementer field type not covariant
			t, in := implementer()
			if t == nil {
				return nil
			}
			m := mergedView(d)
			if m[in] == nil {
				return nil
			}
			for _, rf := range m[in].Fields {
				for i := range d.Defs {
					if d.Defs[i].Name != t.Name {
						continue
					}
					for j := range d.Defs[i].Fields {
						f := &d.Defs[i].Fields[j]
						if f.Name != rf.Name {
							continue
						}
						// weaken nullability at some nesting level, or change the list depth
						var weaken func(t AType) (AType, bool)
						weaken = func(t AType) (AType, bool) {
							if t.K == "list" && g.R.Intn(2) == 0 {
								if in, ok := weaken(t.Of[0]); ok {
									return TList(in, t.NN), true
								}
							}
							if t.NN {
								return t.Nullable(), true
							}
							if t.K == "list" {
								if in, ok := weaken(t.Of[0]); ok {
									return TList(in, t.NN), true
								}
							}
							return t, false
						}
						var rebase func(t AType, name string) AType
						rebase = func(t AType, name string) AType {
							if t.K == "list" {
								return TList(rebase(t.Of[0], name), t.NN)
							}
							return TNamed(name, t.NN)
						}
						// a possible type of an abstract base (a legal narrowing on its own)
						narrowed := rf.Type
						base := rf.Type.Base()
						if bd := m[base]; bd != nil && (bd.Kind == "INTERFACE" || bd.Kind == "UNION") {
							var poss []string
							for n, x := range m {
								if x.Kind != "OBJECT" {
									continue
								}
								for _, i := range x.Ifaces {
									if i == base {
										poss = append(poss, n)
									}
								}
							}
							poss = append(poss, bd.Members...)
							sort.Strings(poss)
							if len(poss) > 0 {
								narrowed = rebase(rf.Type, poss[g.R.Intn(len(poss))])
							}
						}
						w, canWeaken := weaken(rf.Type)
						switch k := g.R.Intn(4); {
						case k == 0 && canWeaken:
							f.Type = w
						case k == 1 && rf.Type.K == "list":
							f.Type = narrowed.Of[0] // one list level less
						case k == 2:
							f.Type = TList(narrowed, narrowed.NN) // one list level more, around a legal narrowing
						default:
							if canWeaken {
								f.Type = w
							} else if rf.Type.K == "list" {
								f.Type = rf.Type.Of[0]
							} else {
								f.Type = TList(rf.Type, false)
							}
						}
						return &SchemaFault{"Implementers", t.Name + "." + f.Name + " is not covariant with " + in, []string{t.Name, in}}
					}
				}
			}
			return nil
		},
		func() *SchemaFault { // implementer argument: missing / different type / extra required
			t, in := implementer()
			if t == nil {
				return nil
			}
			m := mergedView(d)
			mode := g.R.Intn(3)
			if m[in] == nil {
				return nil
			}
			for _, rf := range m[in].Fields {
				for i := range d.Defs {
					if d.Defs[i].Name != t.Name {
						continue
					}
					for j := range d.Defs[i].Fields {
						f := &d.Defs[i].Fields[j]
						if f.Name != rf.Name {
							continue
						}
						switch {
						case mode == 0 && len(rf.Args) > 0:
							var keep []AArgDef
							for _, a := range f.Args {
								if a.Name != rf.Args[0].Name {
									keep = append(keep, a)
								}
							}
							if keep == nil {
								keep = []AArgDef{}
							}
							f.Args = keep
							return &SchemaFault{"Implementers", "interface argument missing on " + t.Name + "." + f.Name, []string{t.Name, in}}
						case mode == 1 && len(rf.Args) > 0:
							for k := range f.Args {
								if f.Args[k].Name == rf.Args[0].Name {
									a := f.Args[k].Type
									a.NN = !a.NN
									f.Args[k].Type = a
									if a.NN {
										// keep it optional so that only the identity rule is hit
										v := AValue{K: "null", S: "null"}
										_ = v
									}
									return &SchemaFault{"Implementers", "interface argument with a different type on " + t.Name + "." + f.Name, []string{t.Name, in}}
								}
							}
						case mode == 2:
							f.Args = append(f.Args, AArgDef{Name: "mustGive", Type: TNamed("Int", true), Dirs: []ADirUse{}})
							return &SchemaFault{"Implementers", "additional required argument on " + t.Name + "." + f.Name, []string{t.Name, in}}
						}
					}
				}
			}
			return nil
		},
		func() *SchemaFault { // missing transitive interface
			m := mergedView(d)
			for i := range d.Defs {
				t := &d.Defs[i]
				for _, in := range t.Ifaces {
					if m[in] == nil {
						continue
					}
					for _, tr := range m[in].Ifaces {
						// drop tr from every part of t
						dropped := false
						for k := range d.Defs {
							if d.Defs[k].Name != t.Name {
								continue
							}
							var keep []string
							for _, x := range d.Defs[k].Ifaces {
								if x == tr {
									dropped = true
									continue
								}
								keep = append(keep, x)
							}
							if keep == nil {
								keep = []string{}
							}
							d.Defs[k].Ifaces = keep
						}
						if dropped {
							return &SchemaFault{"Implementers", t.Name + " implements " + in + " but not its interface " + tr, []string{t.Name, in, tr}}
						}
					}
				}
			}
			return nil
		},
		func() *SchemaFault { // empty type
			n := fmt.Sprintf("Empty%d", g.R.Intn(100))
			k := []string{"OBJECT", "INTERFACE", "INPUT_OBJECT", "ENUM"}[g.R.Intn(4)]
			d.Defs = append(d.Defs, ATypeDef{Kind: k, Name: n, Ifaces: []string{}, Fields: []AFieldDef{}, Members: []string{}, Values: []AEnumVal{}, Dirs: []ADirUse{}})
			return &SchemaFault{"NonEmpty", "empty " + k + " " + n, []string{n}}
		},
		func() *SchemaFault { // reserved name
			switch g.R.Intn(5) {
			case 0:
				d.Defs = append(d.Defs, ATypeDef{Kind: "SCALAR", Name: "__Mine", Ifaces: []string{}, Fields: []AFieldDef{}, Members: []string{}, Values: []AEnumVal{}, Dirs: []ADirUse{}})
				return &SchemaFault{"NoDunder", "type named __Mine", []string{"__Mine"}}
			case 1:
				t := withFields("OBJECT", "INTERFACE", "INPUT_OBJECT")
				if t == nil {
					return nil
				}
				t.Fields = append(t.Fields, AFieldDef{Name: "__f", Type: TNamed("Int", false), Args: []AArgDef{}, Dirs: []ADirUse{}})
				return &SchemaFault{"NoDunder", "field named __f", []string{t.Name}}
			case 2:
				t := withFields("OBJECT", "INTERFACE")
				if t == nil {
					return nil
				}
				t.Fields = append(t.Fields, AFieldDef{Name: "withArg", Type: TNamed("Int", false), Args: []AArgDef{{Name: "__a", Type: TNamed("Int", false), Dirs: []ADirUse{}}}, Dirs: []ADirUse{}})
				return &SchemaFault{"NoDunder", "argument named __a", []string{t.Name}}
			case 3:
				t := pickDef("ENUM")
				if t == nil {
					return nil
				}
				t.Values = append(t.Values, AEnumVal{Name: "__V", Dirs: []ADirUse{}})
				return &SchemaFault{"NoDunder", "enum value named __V", []string{t.Name}}
			default:
				d.DirDefs = append(d.DirDefs, ADirDef{Name: "__dir", Args: []AArgDef{}, Locs: []string{"FIELD"}})
				return &SchemaFault{"NoDunder", "directive named __dir", []string{"@__dir"}}
			}
		},
		func() *SchemaFault { // an extension of the wrong kind, right after an extension of the right kind of the same type
			t := pickDef("OBJECT", "INTERFACE", "INPUT_OBJECT")
			if t == nil || t.Ext {
				return nil
			}
			wrong := map[string]string{"OBJECT": "INTERFACE", "INTERFACE": "OBJECT", "INPUT_OBJECT": "OBJECT"}[t.Kind]
			ft := TNamed("Int", false)
			mk := func(kind, field string) ATypeDef {
				return ATypeDef{Kind: kind, Name: t.Name, Ext: true, Fields: []AFieldDef{{Name: field, Type: ft, Args: []AArgDef{}, Dirs: []ADirUse{}}}, Ifaces: []string{}, Members: []string{}, Values: []AEnumVal{}, Dirs: []ADirUse{}}
			}
			name := t.Name
			if g.R.Intn(3) != 0 {
				d.Defs = append(d.Defs, mk(t.Kind, "rightKindExtra"))
			}
			d.Defs = append(d.Defs, mk(wrong, "wrongKindExtra"))
			return &SchemaFault{"ExtensionKinds", "extension of " + name + " with the keyword of another kind", []string{name}}
		},
		func() *SchemaFault { // the violation sits in an extension of a BUILT-IN type (merged into the prelude's definition)
			ext := func(kind, name string) ATypeDef {
				return ATypeDef{Kind: kind, Name: name, Ext: true, Fields: []AFieldDef{}, Ifaces: []string{}, Members: []string{}, Values: []AEnumVal{}, Dirs: []ADirUse{}}
			}
			fld := func(name string, t AType) AFieldDef {
				return AFieldDef{Name: name, Type: t, Args: []AArgDef{}, Dirs: []ADirUse{}}
			}
			obj := []string{"__Schema", "__Type", "__Field", "__InputValue", "__EnumValue", "__Directive"}[g.R.Intn(6)]
			switch g.R.Intn(5) {
			case 0:
				e := ext("OBJECT", obj)
				e.Fields = append(e.Fields, fld("extra", TNamed("Missing", false)))
				d.Defs = append(d.Defs, e)
				return &SchemaFault{"RefsExist", "extension of built-in " + obj + " adds a field of undefined type", []string{obj}}
			case 1:
				e := ext("OBJECT", obj)
				e.Fields = append(e.Fields, fld(map[string]string{"__Schema": "types", "__Type": "name", "__Field": "name", "__InputValue": "name", "__EnumValue": "name", "__Directive": "name"}[obj], TNamed("Int", false)))
				d.Defs = append(d.Defs, e)
				return &SchemaFault{"UniqueFields", "extension of built-in " + obj + " repeats one of its fields", []string{obj}}
			case 2:
				sc := builtinScalars[g.R.Intn(len(builtinScalars))]
				e := ext("SCALAR", sc)
				e.Dirs = append(e.Dirs, ADirUse{Name: "undeclared", Args: []AArgUse{}})
				d.Defs = append(d.Defs, e)
				return &SchemaFault{"DirectivesOK", "extension of built-in scalar " + sc + " uses an undeclared directive", []string{sc}}
			case 3:
				if len(s.inputs) == 0 {
					return nil
				}
				e := ext("OBJECT", obj)
				e.Fields = append(e.Fields, fld("extra", TNamed(g.pick(s.inputs), false)))
				d.Defs = append(d.Defs, e)
				return &SchemaFault{"RightKinds", "extension of built-in " + obj + " adds an output field of input-object type", []string{obj}}
			default:
				if len(s.ifaces) == 0 {
					return nil
				}
				in := g.pick(s.ifaces)
				for _, t := range d.Defs {
					if t.Name == in && len(t.Fields) == 0 {
						return nil
					}
				}
				e := ext("OBJECT", obj)
				e.Ifaces = append(e.Ifaces, in)
				d.Defs = append(d.Defs, e)
				return &SchemaFault{"Implementers", "extension makes built-in " + obj + " implement " + in + " without its fields", []string{obj, in}}
			}
		},
		func() *SchemaFault { // directive misuse
			t := pickDef("OBJECT", "INTERFACE", "ENUM", "UNION", "SCALAR", "INPUT_OBJECT")
			if t == nil {
				return nil
			}
			switch g.R.Intn(4) {
			case 0:
				t.Dirs = append(t.Dirs, ADirUse{Name: "undeclared", Args: []AArgUse{}})
				return &SchemaFault{"DirectivesOK", "undeclared directive on " + t.Name, []string{t.Name}}
			case 1:
				// a directive declared only for an executable location
				d.DirDefs = append(d.DirDefs, ADirDef{Name: "onlyField", Args: []AArgDef{}, Locs: []string{"FIELD"}})
				t.Dirs = append(t.Dirs, ADirUse{Name: "onlyField", Args: []AArgUse{}})
				return &SchemaFault{"DirectivesOK", "directive used where it is not declared", []string{t.Name, "@onlyField"}}
			case 2:
				d.DirDefs = append(d.DirDefs, ADirDef{Name: "needs", Args: []AArgDef{{Name: "must", Type: TNamed("Int", true), Dirs: []ADirUse{}}}, Locs: typeSystemLocs})
				u := ADirUse{Name: "needs", Args: []AArgUse{}}
				if g.R.Intn(2) == 0 {
					u.Args = append(u.Args, AArgUse{Name: "must", IsNull: true, V: AValue{K: "null", S: "null"}})
				}
				t.Dirs = append(t.Dirs, u)
				return &SchemaFault{"DirectivesOK", "required directive argument missing or null", []string{t.Name, "@needs"}}
			default:
				d.DirDefs = append(d.DirDefs, ADirDef{Name: "plain", Args: []AArgDef{}, Locs: typeSystemLocs})
				t.Dirs = append(t.Dirs, ADirUse{Name: "plain", Args: []AArgUse{{Name: "unknown", V: AValue{K: "int", S: "1"}}}})
				return &SchemaFault{"DirectivesOK", "unknown directive argument", []string{t.Name, "@plain"}}
			}
		},
	}
	for try := 0; try < 40; try++ {
		if f := ops[g.R.Intn(len(ops))](); f != nil {
			return f
		}
	}
	return nil
}
