package checks

import (
	"encoding/json"
	"fmt"
	"strconv"
	"strings"
	"sync"
	"sync/atomic"
	"unicode/utf8"

	"github.com/vektah/gqlparser/v2/ast"
	"github.com/vektah/gqlparser/v2/lexer"

	"verif/harness/core"
	"verif/harness/tlc"
)

// ---- abstract token (shared by spec output and projection of the real lexer) ----

type Tok struct {
	K string `json:"k"`
	S int    `json:"s"`
	E int    `json:"e"`
	L int    `json:"l"`
	C int    `json:"c"`
	V []int  `json:"v"`
	W string `json:"w,omitempty"`
}

type LexResult struct {
	Toks []Tok `json:"toks"`
	Err  bool  `json:"err"`
}

var valuedKinds = map[string]bool{"Name": true, "Int": true, "Float": true, "String": true, "BlockString": true}

func cps(s string) []int {
	out := make([]int, 0, len(s))
	for _, r := range s {
		out = append(out, int(r))
	}
	return out
}

func fromCps(c []int) string {
	var b strings.Builder
	for _, r := range c {
		b.WriteRune(rune(r))
	}
	return b.String()
}

// LexReal runs the real lexer to the end of the input (or its first error).
// crash is non-empty if the lexer panicked or failed to make progress.
func LexReal(input string) (res LexResult, crash string) {
	defer guard("lexer.ReadToken loop", input)()
	defer func() {
		if r := recover(); r != nil {
			crash = fmt.Sprintf("panic: %v", r)
		}
	}()
	lx := lexer.New(&ast.Source{Input: input, Name: "t"})
	limit := utf8.RuneCountInString(input) + 3
	for i := 0; ; i++ {
		if i > limit {
			return res, "no progress: more tokens than characters"
		}
		t, err := lx.ReadToken()
		if err != nil {
			res.Err = true
			return res, ""
		}
		res.Toks = append(res.Toks, Tok{K: t.Kind.Name(), S: t.Pos.Start, E: t.Pos.End, L: t.Pos.Line, C: t.Pos.Column, V: cps(t.Value)})
		if t.Kind == lexer.EOF {
			return res, ""
		}
	}
}

// compareLex compares the observed result with the expected one and returns a
// description per class: "tokens" (C03: kinds, extents, values, failure
// point) and "position" (C04: start offset, line, column of each token).
// Values are compared for the kinds the property names; a nil expected value
// means the model did not determine it.
func compareLex(exp, got LexResult) map[string]string {
	out := map[string]string{}
	n := len(exp.Toks)
	if len(got.Toks) < n {
		n = len(got.Toks)
	}
	for i := 0; i < n; i++ {
		e, g := exp.Toks[i], got.Toks[i]
		if e.K != g.K || e.S != g.S || e.E != g.E {
			if out["tokens"] == "" {
				out["tokens"] = fmt.Sprintf("token %d: expected %s[%d,%d) got %s[%d,%d)", i, e.K, e.S, e.E, g.K, g.S, g.E)
			}
			if e.K == g.K && e.S != g.S && out["position"] == "" {
				out["position"] = fmt.Sprintf("token %d (%s): expected start offset %d, got %d", i, e.K, e.S, g.S)
			}
			continue
		}
		if valuedKinds[e.K] && e.V != nil && !eqInts(e.V, g.V) && out["tokens"] == "" {
			out["tokens"] = fmt.Sprintf("token %d (%s): expected value %q got %q", i, e.K, fromCps(e.V), fromCps(g.V))
		}
		if (e.L != g.L || e.C != g.C) && out["position"] == "" {
			out["position"] = fmt.Sprintf("token %d (%s at offset %d): expected line %d column %d, got line %d column %d", i, e.K, e.S, e.L, e.C, g.L, g.C)
		}
	}
	if out["tokens"] == "" {
		if len(exp.Toks) != len(got.Toks) {
			out["tokens"] = fmt.Sprintf("expected %d tokens, got %d (expected err=%v, got err=%v)", len(exp.Toks), len(got.Toks), exp.Err, got.Err)
		} else if exp.Err != got.Err {
			out["tokens"] = fmt.Sprintf("after %d tokens: expected err=%v, got err=%v", len(exp.Toks), exp.Err, got.Err)
		}
	}
	return out
}

func eqInts(a, b []int) bool {
	if len(a) != len(b) {
		return false
	}
	for i := range a {
		if a[i] != b[i] {
			return false
		}
	}
	return true
}

// ---- lexer deviations (known findings) ----

type lexWitness struct {
	Input string `json:"input"`
	Index int    `json:"index"`
	Kind  string `json:"kind"`
	Value string `json:"value,omitempty"`
	Col   int    `json:"col,omitempty"`
	Line  int    `json:"line,omitempty"`
	End   int    `json:"end,omitempty"`
}

var lexerDevNames = map[string]bool{
	"NumNoLookahead": true, "StringColAfterQuote": true, "BlockStringEndLine": true,
	"BlockIndentFirstLine": true, "BlockCloseLast3": true, "CRLFColumn": true,
}

// LexerDevs decides which lexer deviations are switched on in the
// specification for this run: the open known findings whose witness still
// shows the deviating behaviour on the code under test. It prints the
// KNOWN-FINDING line for those that belong to the running property.
// LexerDevsQuiet: the same set without printing the KNOWN-FINDING lines again
func LexerDevsQuiet() []string {
	var devs []string
	fs, err := core.LoadFindings()
	if err != nil {
		return nil
	}
	for _, f := range fs {
		if !lexerDevNames[f.Dev] || f.Status != "open" {
			continue
		}
		var w lexWitness
		if json.Unmarshal(f.Witness, &w) != nil {
			continue
		}
		got, crash := LexReal(w.Input)
		if crash == "" && w.Index < len(got.Toks) && got.Toks[w.Index].K == w.Kind &&
			(w.Value == "" || fromCps(got.Toks[w.Index].V) == w.Value) && (w.Col == 0 || got.Toks[w.Index].C == w.Col) {
			devs = append(devs, f.Dev)
		}
	}
	return devs
}

func LexerDevs(c *core.Ctx) []string {
	fs, err := core.LoadFindings()
	if err != nil {
		c.Internal("known_findings.json: %v", err)
		return nil
	}
	var devs []string
	for _, f := range fs {
		if !lexerDevNames[f.Dev] || f.Status != "open" {
			continue
		}
		var w lexWitness
		if err := json.Unmarshal(f.Witness, &w); err != nil {
			c.Internal("finding %s: bad witness: %v", f.Dev, err)
			continue
		}
		got, crash := LexReal(w.Input)
		shows := crash == "" && w.Index < len(got.Toks) && got.Toks[w.Index].K == w.Kind
		if shows {
			t := got.Toks[w.Index]
			if w.Value != "" && fromCps(t.V) != w.Value {
				shows = false
			}
			if w.Col != 0 && t.C != w.Col {
				shows = false
			}
			if w.Line != 0 && t.L != w.Line {
				shows = false
			}
			if w.End != 0 && t.E != w.End {
				shows = false
			}
		}
		if shows {
			devs = append(devs, f.Dev)
			if f.Property == c.ID {
				c.Known(f.Dev, fmt.Sprintf("input=%s: %s", strconv.Quote(w.Input), f.What))
			}
		} else {
			c.Logf("open finding %s no longer reproduces on its witness %q; the specification runs strict there", f.Dev, w.Input)
		}
	}
	return devs
}

// ---- M->C: replay of the Lexer_MC state graph ----

type stepOut struct {
	Out    []Tok  `json:"out"`
	AppPre []int  `json:"appPre"`
	Reset  bool   `json:"reset"`
	App    []int  `json:"app"`
	Mode   string `json:"mode"`
}

type LexMismatch struct {
	Input    []int             `json:"input"`
	Classes  map[string]string `json:"classes"`
	Expected LexResult         `json:"expected"`
	Observed LexResult         `json:"observed"`
	Crash    string            `json:"crash,omitempty"`
}

type lexWalkStats struct {
	Inputs, Nontrivial int64
	Mismatches         []LexMismatch
	NMismatch          map[string]int64
	kept               map[string]int
}

func (st *lexWalkStats) record(mu *sync.Mutex, input []int, exp, got LexResult, crash string) {
	var cl map[string]string
	if crash != "" {
		cl = map[string]string{"tokens": crash, "position": crash}
	} else {
		cl = compareLex(exp, got)
	}
	if len(cl) == 0 {
		return
	}
	mu.Lock()
	for k := range cl {
		st.NMismatch[k]++
		st.kept[k]++
	}
	keep := false
	for k := range cl {
		if st.kept[k] <= 60 {
			keep = true
		}
	}
	if keep {
		st.Mismatches = append(st.Mismatches, LexMismatch{Input: input, Classes: cl, Expected: exp, Observed: got, Crash: crash})
	}
	mu.Unlock()
}

func readAction(a string) (int, bool) {
	if strings.HasPrefix(a, "Read(") && strings.HasSuffix(a, ")") {
		v, err := strconv.Atoi(a[5 : len(a)-1])
		return v, err == nil
	}
	return 0, false
}

// WalkLexGraph enumerates every path of the dumped Lexer_MC graph, renders it
// as an input string and compares the real lexer with the path's outputs.
func WalkLexGraph(c *core.Ctx, g *tlc.Graph, workers int) *lexWalkStats {
	outs := make([]stepOut, len(g.Nodes))
	for i := range g.Nodes {
		if g.Nodes[i].O == "" {
			c.Internal("lexer graph: node %s has no output variable", g.Nodes[i].ID)
			return nil
		}
		if err := json.Unmarshal([]byte(g.Nodes[i].O), &outs[i]); err != nil {
			c.Internal("lexer graph: node %s: %v", g.Nodes[i].ID, err)
			return nil
		}
	}
	st := &lexWalkStats{NMismatch: map[string]int64{}, kept: map[string]int{}}
	var mu sync.Mutex
	var inputs, nontrivial int64

	type frame struct {
		node  int
		input []int
		toks  []Tok
		val   []int
	}
	apply := func(f frame, to int, ch int, isRead bool) frame {
		o := &outs[to]
		nf := frame{node: to}
		if isRead {
			nf.input = append(append(make([]int, 0, len(f.input)+1), f.input...), ch)
		} else {
			nf.input = f.input
		}
		toks := append(make([]Tok, 0, len(f.toks)+2), f.toks...)
		val := append(append(make([]int, 0, len(f.val)+4), f.val...), o.AppPre...)
		for _, t := range o.Out {
			if t.W == "pre" {
				t.V = append([]int{}, val...)
				toks = append(toks, t)
			}
		}
		if o.Reset {
			val = val[:0]
		}
		val = append(val, o.App...)
		for _, t := range o.Out {
			if t.W != "pre" {
				t.V = append([]int{}, val...)
				toks = append(toks, t)
			}
		}
		nf.toks, nf.val = toks, val
		return nf
	}
	finish := func(f frame) {
		exp := LexResult{}
		for _, t := range f.toks {
			if t.K == "ERR" {
				exp.Err = true
				break
			}
			if t.K == "BlockString" {
				// the value of a block string is BlockStringValue(raw): the graph model
				// only determines it when the body is empty; otherwise it is left to
				// the Lexer_Cases configurations.
				if len(t.V) == 0 {
					t.V = []int{}
				} else {
					t.V = nil
				}
			}
			if !valuedKinds[t.K] {
				t.V = []int{}
			}
			t.W = ""
			exp.Toks = append(exp.Toks, t)
		}
		got, crash := LexReal(fromCps(f.input))
		atomic.AddInt64(&inputs, 1)
		if len(exp.Toks) >= 3 || (exp.Err && len(exp.Toks) >= 1) {
			atomic.AddInt64(&nontrivial, 1)
		}
		st.record(&mu, f.input, exp, got, crash)
	}
	var dfs func(f frame)
	dfs = func(f frame) {
		n := &g.Nodes[f.node]
		if len(n.Out) == 0 {
			m := outs[f.node].Mode
			if m != "eof" && m != "err" {
				// bound reached without a Finish edge would be a hole in the model
				c.Internal("lexer graph: non-terminal leaf %s (mode %s)", n.ID, m)
				return
			}
			finish(f)
			return
		}
		for _, e := range n.Out {
			ch, isRead := readAction(e.Action)
			dfs(apply(f, e.To, ch, isRead))
		}
	}
	// fan out at depth 2
	root := frame{node: g.Init}
	var tasks []frame
	for _, e := range g.Nodes[g.Init].Out {
		ch, isRead := readAction(e.Action)
		f1 := apply(root, e.To, ch, isRead)
		if len(g.Nodes[e.To].Out) == 0 {
			tasks = append(tasks, f1)
			continue
		}
		for _, e2 := range g.Nodes[e.To].Out {
			ch2, isRead2 := readAction(e2.Action)
			tasks = append(tasks, apply(f1, e2.To, ch2, isRead2))
		}
	}
	ch := make(chan frame, len(tasks))
	for _, t := range tasks {
		ch <- t
	}
	close(ch)
	var wg sync.WaitGroup
	for w := 0; w < workers; w++ {
		wg.Add(1)
		go func() {
			defer wg.Done()
			for f := range ch {
				dfs(f)
			}
		}()
	}
	wg.Wait()
	st.Inputs, st.Nontrivial = inputs, nontrivial
	return st
}

func lexMCcfg(devs []string, sigma []int, maxLen int) string {
	s := make([]string, len(sigma))
	for i, v := range sigma {
		s[i] = strconv.Itoa(v)
	}
	return fmt.Sprintf("SPECIFICATION Spec\nCONSTANTS\n  Devs = %s\n  Sigma = {%s}\n  MaxLen = %d\nINVARIANTS Bounds Terminal\nPROPERTY Progress\nCHECK_DEADLOCK FALSE\n",
		core.DevSetTLA(devs), strings.Join(s, ", "), maxLen)
}

// the 19 lexically significant characters of the exhaustive tier:
// a e u _ 0 1 - . " \ # SP LF CR BOM { ? U+0001 é
var lexSigma19 = []int{97, 101, 117, 95, 48, 49, 45, 46, 34, 92, 35, 32, 10, 13, 65279, 123, 63, 1, 233}

// RunLexGraph model-checks Lexer_MC with the given deviations, dumps its
// graph and replays every path. Returns nil on internal error.
func RunLexGraph(c *core.Ctx, devs []string, sigma []int, maxLen int) *lexWalkStats {
	r := c.RunTLC(tlc.Opts{Module: "Lexer_MC", CfgText: lexMCcfg(devs, sigma, maxLen), Workers: 4, DumpDot: true, Heap: "6g"})
	defer tlc.Cleanup(r)
	if c.HasInternal() {
		return nil
	}
	g, err := tlc.LoadDot(r.DotPath, false)
	if err != nil {
		c.Internal("lexer graph: %v", err)
		return nil
	}
	c.Logf("Lexer_MC |Sigma|=%d MaxLen=%d: %d states, %d edges (TLC %v)", len(sigma), maxLen, len(g.Nodes), g.NumEdges(), r.Wall.Round(1e8))
	if int64(len(g.Nodes)) != r.Distinct {
		c.Internal("lexer graph: dot has %d nodes, TLC reports %d distinct states", len(g.Nodes), r.Distinct)
		return nil
	}
	st := WalkLexGraph(c, g, 16)
	return st
}

// ---- M->C: Lexer_Cases (terminal-state print) ----

type lexCase struct {
	In []int     `json:"in"`
	R  LexResult `json:"r"`
}

func lexCasesCfg(devs []string, sigma []int, maxLen int, prefix, suffix string) string {
	s := make([]string, len(sigma))
	for i, v := range sigma {
		s[i] = strconv.Itoa(v)
	}
	return fmt.Sprintf("SPECIFICATION Spec\nCONSTANTS\n  Devs = %s\n  Sigma = {%s}\n  MaxLen = %d\n  Prefix <- %s\n  Suffix <- %s\nINVARIANT Emit\nCHECK_DEADLOCK FALSE\n",
		core.DevSetTLA(devs), strings.Join(s, ", "), maxLen, prefix, suffix)
}

// RunLexCases lets TLC print every case of a Lexer_Cases configuration with
// its expected tokens and runs each through the real lexer as it arrives.
func RunLexCases(c *core.Ctx, devs []string, sigma []int, maxLen int, prefix, suffix string) *lexWalkStats {
	st := &lexWalkStats{NMismatch: map[string]int64{}, kept: map[string]int{}}
	var mu sync.Mutex
	lines := make(chan string, 4096)
	var wg sync.WaitGroup
	var bad int64
	for w := 0; w < 8; w++ {
		wg.Add(1)
		go func() {
			defer wg.Done()
			for line := range lines {
				js, ok := tlc.PrintedJSON(line, "CASE")
				if !ok {
					continue
				}
				var cs lexCase
				if err := json.Unmarshal([]byte(js), &cs); err != nil {
					atomic.AddInt64(&bad, 1)
					continue
				}
				for i := range cs.R.Toks {
					if cs.R.Toks[i].V == nil {
						cs.R.Toks[i].V = []int{}
					}
				}
				got, crash := LexReal(fromCps(cs.In))
				atomic.AddInt64(&st.Inputs, 1)
				if len(cs.R.Toks) >= 2 && len(cs.R.Toks[0].V) > 0 {
					atomic.AddInt64(&st.Nontrivial, 1)
				}
				st.record(&mu, cs.In, cs.R, got, crash)
			}
		}()
	}
	r := c.RunTLC(tlc.Opts{Module: "Lexer_Cases", CfgText: lexCasesCfg(devs, sigma, maxLen, prefix, suffix), Workers: 8, Heap: "6g",
		LineFn: func(l string) { lines <- l }})
	close(lines)
	wg.Wait()
	defer tlc.Cleanup(r)
	if c.HasInternal() {
		return nil
	}
	if bad > 0 {
		c.Internal("Lexer_Cases: %d unparsable case lines", bad)
		return nil
	}
	// every terminal state prints exactly one case; terminal states are the
	// "done" half of the distinct states minus nothing else: cross-check
	if st.Inputs == 0 || st.Inputs*2 != r.Distinct {
		c.Internal("Lexer_Cases: %d cases received for %d distinct states (expected exactly half)", st.Inputs, r.Distinct)
		return nil
	}
	c.Logf("Lexer_Cases |Sigma|=%d MaxLen=%d prefix=%s suffix=%s: %d cases (TLC %v)", len(sigma), maxLen, prefix, suffix, st.Inputs, r.Wall.Round(1e8))
	return st
}
