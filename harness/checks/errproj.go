package checks

import (
	"github.com/vektah/gqlparser/v2/gqlerror"
)

// EErr is the projection of one error: everything a client can observe.
type EErr struct {
	Rule string  `json:"rule"`
	Msg  string  `json:"msg"`
	Locs [][]int `json:"locs"`
	File string  `json:"file"`
}

func projErr(e *gqlerror.Error) EErr {
	x := EErr{Rule: e.Rule, Msg: e.Message, Locs: [][]int{}}
	for _, l := range e.Locations {
		x.Locs = append(x.Locs, []int{l.Line, l.Column})
	}
	if f, ok := e.Extensions["file"].(string); ok {
		x.File = f
	}
	return x
}

func projErrs(l gqlerror.List) []EErr {
	out := []EErr{}
	for _, e := range l {
		out = append(out, projErr(e))
	}
	return out
}
