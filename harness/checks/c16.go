package checks

import (
	"encoding/json"
	"fmt"
	"math"
	"math/rand"
	"os"
	"runtime"
	"runtime/debug"
	"strconv"
	"strings"
	"time"

	"github.com/vektah/gqlparser/v2/ast"
	"github.com/vektah/gqlparser/v2/lexer"
	"github.com/vektah/gqlparser/v2/parser"
	"github.com/vektah/gqlparser/v2/verifhook"

	"verif/harness/core"
	"verif/harness/tlc"
)

func init() {
	Registry["C16"] = checkC16
	workers["limitbig"] = limitBigWorker
}

type limitCase struct {
	ID      int     `json:"id"`
	Grammar string  `json:"grammar"`
	Entry   string  `json:"entry"`
	Limit   int     `json:"limit"`
	N       int     `json:"n"`
	HasSrc  bool    `json:"hasSrc"`
	Src     []int   `json:"src"`
	OK0     bool    `json:"ok0"`
	OK      bool    `json:"ok"`
	Tree0   string  `json:"tree0"`
	Tree    string  `json:"tree"`
	Events  [][]any `json:"events"`
	Multi   bool    `json:"multi"`
	Srcs    [][]int `json:"srcs"`
	Alloc   int     `json:"alloc"` // bytes allocated during the call (multi-megabyte families only, else 0)
	Text    string  `json:"-"`
	ErrText string  `json:"-"`
}

// hook sinks (single-threaded use only)
func captureEvents(f func()) [][]any {
	evs := [][]any{}
	if !verifhook.Enabled {
		panic("harness built without -tags verif")
	}
	verifhook.OnLex = func(kind, start int) { evs = append(evs, []any{"L", lexer.Type(kind).Name(), start}) }
	verifhook.OnNext = func(count int) { evs = append(evs, []any{"N", count, 0}) }
	verifhook.OnLimitHit = func(count int) { evs = append(evs, []any{"H", count, 0}) }
	defer func() { verifhook.OnLex, verifhook.OnNext, verifhook.OnLimitHit = nil, nil, nil }()
	f()
	return evs
}

// parseLimited runs one of the limited entry points. limit < 0 means the unlimited entry point.
// hugeLimit stands (in the records the model reads, whose integers are 32 bits wide) for the largest int of the host
const hugeLimit = 400000

// unlimitedEntry: not a limit; selects the entry point without a limit
const unlimitedEntry = -1 << 40

func parseLimited(grammar, entry, text string, limit int) (tree string, ok bool, errText string, crash string) {
	defer guard(fmt.Sprintf("%s parse (%s) with token limit %d", grammar, entry, limit), text)()
	defer func() {
		if r := recover(); r != nil {
			crash = fmt.Sprintf("panic: %v", r)
		}
	}()
	src := &ast.Source{Input: text, Name: "lim"}
	if grammar == "query" {
		var doc *ast.QueryDocument
		var err error
		if limit == unlimitedEntry {
			doc, err = parser.ParseQuery(src)
		} else {
			doc, err = parser.ParseQueryWithTokenLimit(src, limit)
		}
		if err != nil {
			return "", false, err.Error(), ""
		}
		return gtListString(ProjectQuery(doc)), true, "", ""
	}
	// every other schema source is a built-in one: the marks are part of the tree that must be identical
	src.BuiltIn = len(text)%2 == 1
	var doc *ast.SchemaDocument
	var err error
	switch {
	case limit == unlimitedEntry && entry == "ParseSchemasWithLimit":
		doc, err = parser.ParseSchemas(src) // the unlimited counterpart of the entry point for lists of sources
	case limit == unlimitedEntry:
		doc, err = parser.ParseSchema(src)
	case entry == "ParseSchemasWithLimit":
		doc, err = parser.ParseSchemasWithLimit(limit, src)
	default:
		doc, err = parser.ParseSchemaWithLimit(src, limit)
	}
	if err != nil {
		return "", false, err.Error(), ""
	}
	return gtListString(ProjectSchemaDoc(doc)) + builtInMarks(doc), true, "", ""
}

// builtInMarks: which definitions and extensions of the document are marked built-in
func builtInMarks(d *ast.SchemaDocument) string {
	var b strings.Builder
	// what the document itself carries: its end-of-file comments (and whether it has a position) are part of the
	// tree a limited parse must reproduce
	fmt.Fprintf(&b, " document: position=%v comments=", d.Position != nil)
	if d.Comment != nil {
		for _, cm := range d.Comment.List {
			fmt.Fprintf(&b, "%q ", cm.Value)
		}
	}
	b.WriteString(" builtin:")
	for _, x := range d.Definitions {
		fmt.Fprintf(&b, " %s=%v", x.Name, x.BuiltIn)
	}
	b.WriteString(" /")
	for _, x := range d.Extensions {
		fmt.Fprintf(&b, " %s=%v", x.Name, x.BuiltIn)
	}
	return b.String()
}

func countTokens(text string) (int, bool) {
	lx := lexer.New(&ast.Source{Input: text})
	n := 0
	for {
		t, err := lx.ReadToken()
		if err != nil {
			return n, false
		}
		if t.Kind == lexer.EOF {
			return n, true
		}
		n++
	}
}

// ---- multi-megabyte families (run in a child process) ----

func bigInput(family string, size int) (grammar, text string, ntoks int) {
	var b strings.Builder
	switch family {
	case "nest-list-value": // { f(a: [[[[ ... 1 ... ]]]]) }
		d := size / 2
		b.WriteString("{f(a:")
		b.WriteString(strings.Repeat("[", d))
		b.WriteString("1")
		b.WriteString(strings.Repeat("]", d))
		b.WriteString(")}")
		return "query", b.String(), 2*d + 8
	case "nest-type": // query($v: [[[[ Int ]]]]) { f }
		d := size / 2
		b.WriteString("query($v:")
		b.WriteString(strings.Repeat("[", d))
		b.WriteString("Int")
		b.WriteString(strings.Repeat("]", d))
		b.WriteString("){f}")
		return "query", b.String(), 2*d + 10
	case "nest-selection": // {a{a{a ... }}}
		d := size / 3
		b.WriteString(strings.Repeat("{a", d))
		b.WriteString(strings.Repeat("}", d))
		return "query", b.String(), 3 * d
	case "nest-object-value":
		d := size / 5
		b.WriteString("{f(a:")
		b.WriteString(strings.Repeat("{k:", d))
		b.WriteString("1")
		b.WriteString(strings.Repeat("}", d))
		b.WriteString(")}")
		return "query", b.String(), 4*d + 8
	case "token-flood": // { a a a a ... }
		d := size / 2
		b.WriteString("{")
		b.WriteString(strings.Repeat("a ", d))
		b.WriteString("}")
		return "query", b.String(), d + 2
	case "comment-flood":
		d := size / 3
		b.WriteString(strings.Repeat("#c\n", d))
		b.WriteString("{a}")
		return "query", b.String(), d + 3
	case "comment-flood-inside":
		d := size / 3
		b.WriteString("{a ")
		b.WriteString(strings.Repeat("#c\n", d))
		b.WriteString("}")
		return "query", b.String(), d + 3
	case "schema-nest-type": // type T { f: [[[[Int]]]] }
		d := size / 2
		b.WriteString("type T{f:")
		b.WriteString(strings.Repeat("[", d))
		b.WriteString("Int")
		b.WriteString(strings.Repeat("]", d))
		b.WriteString("}")
		return "schema", b.String(), 2*d + 7
	case "schema-nest-default": // input I { f: Int = [[[[1]]]] }
		d := size / 2
		b.WriteString("input I{f:Int=")
		b.WriteString(strings.Repeat("[", d))
		b.WriteString("1")
		b.WriteString(strings.Repeat("]", d))
		b.WriteString("}")
		return "schema", b.String(), 2*d + 9
	case "schema-comment-flood":
		d := size / 3
		b.WriteString("type T{")
		b.WriteString(strings.Repeat("#c\n", d))
		b.WriteString("f:Int}")
		return "schema", b.String(), d + 7
	case "bom-flood-inside": // { a <U+FEFF ...> b c d e f }: ignored characters between two tokens within the limit
		d := size / 3
		b.WriteString("{ a ")
		b.WriteString(strings.Repeat("\ufeff", d))
		b.WriteString(" b c d e f g h i j k l }")
		return "query", b.String(), 14
	case "ignored-flood-inside":
		d := size / 6
		b.WriteString("{ a ")
		b.WriteString(strings.Repeat(" ,\t\ufeff\n", d))
		b.WriteString(" b c d e f g h i j k l }")
		return "query", b.String(), 14
	case "escaped-string-head": // strings with escapes among the first tokens, then a flood
		d := size / 2
		b.WriteString(`{ f(a: "x\ny", b: ["\u0041", "q\"q", "t\tt"], c: "\\") `)
		b.WriteString(strings.Repeat("a ", d))
		b.WriteString("}")
		return "query", b.String(), d + 18
	case "schema-escaped-description-head":
		d := size / 6
		b.WriteString(`"de\nsc" type T{ "fi\u0065ld" g(a: String = "x\ty"): Int `)
		b.WriteString(strings.Repeat("f:Int ", d))
		b.WriteString("}")
		return "schema", b.String(), 3*d + 16
	case "schema-field-flood":
		d := size / 6
		b.WriteString("type T{")
		b.WriteString(strings.Repeat("f:Int ", d))
		b.WriteString("}")
		return "schema", b.String(), 3*d + 4
	}
	return "", "", 0
}

var bigFamilies = []string{"nest-list-value", "nest-type", "nest-selection", "nest-object-value", "token-flood", "comment-flood", "comment-flood-inside",
	"schema-nest-type", "schema-nest-default", "schema-comment-flood", "schema-field-flood",
	"bom-flood-inside", "ignored-flood-inside", "escaped-string-head", "schema-escaped-description-head"}

// worker: limitbig <family> <size> <limit> <entry>  -> prints one JSON limitCase (events included)
func limitBigWorker(args []string) int {
	family := args[0]
	size, _ := strconv.Atoi(args[1])
	limit, _ := strconv.Atoi(args[2])
	entry := args[3]
	grammar, text, n := bigInput(family, size)
	var lc limitCase
	lc.Grammar, lc.Entry, lc.Limit, lc.N, lc.OK0 = grammar, entry, limit, n, true
	lc.Src = []int{}
	var crash string
	// recursion depth bounded by the limit: a goroutine stack beyond 16 MiB + 1 KiB per token of the limit ends
	// the process (the deepest legitimate nesting under a limit L is L levels of a few hundred bytes each)
	debug.SetMaxStack(16<<20 + 1024*limit)
	var m0, m1 runtime.MemStats
	runtime.GC()
	runtime.ReadMemStats(&m0)
	if entry == "ParseSchemasWithLimit(exact prefix)" {
		// two sources in one call: the first has EXACTLY `limit` tokens (so it fits), the second is the big
		// one. Every source has the limit to itself, so the second must fail after work bounded by the
		// limit. Only the events of the second source are kept (its parser's counter restarts at 1).
		prefix := strings.Repeat("scalar S ", limit/2)
		evs := captureEvents(func() {
			defer func() {
				if r := recover(); r != nil {
					crash = fmt.Sprintf("panic: %v", r)
				}
			}()
			d, err := parser.ParseSchemasWithLimit(limit, &ast.Source{Name: "prefix.graphql", Input: prefix}, &ast.Source{Name: "big.graphql", Input: text})
			lc.OK = err == nil && d != nil
			if err != nil {
				lc.ErrText = err.Error()
			}
		})
		cut, seen := 0, 0
		for i, e := range evs {
			if len(e) >= 2 && e[0] == "N" && fmt.Sprint(e[1]) == "1" {
				seen++
				if seen == 2 {
					cut = i
					if cut > 0 && evs[cut-1][0] == "L" {
						cut-- // the look-ahead read that precedes the first counted token of this source
					}
					break
				}
			}
		}
		lc.Events = evs[cut:]
		if seen < 2 && !lc.OK && strings.HasPrefix(lc.ErrText, "prefix.graphql") {
			fmt.Fprintln(os.Stderr, "the source with exactly limit tokens was refused: "+lc.ErrText)
			return 3
		}
	} else {
		lc.Events = captureEvents(func() {
			lc.Tree, lc.OK, lc.ErrText, crash = parseLimited(grammar, entry, text, limit)
		})
	}
	runtime.ReadMemStats(&m1)
	lc.Alloc = int(m1.TotalAlloc - m0.TotalAlloc)
	if lc.Alloc > 1<<30 {
		lc.Alloc = 1 << 30 // the model's integers are 32 bits wide
	}
	if crash != "" {
		fmt.Fprintln(os.Stderr, crash)
		return 3
	}
	lc.Tree, lc.Tree0 = "", ""
	b, _ := json.Marshal(lc)
	os.Stdout.Write(b)
	return 0
}

func checkC16(c *core.Ctx) {
	c.Rule = "cases are (document, entry point, limit) triples: generated executable and type-system documents (valid, and single-token mutations), rendered with comments, crossed with every limit from 0 to token-count+2 and both limited entry points of each grammar; plus multi-megabyte families (deep nesting of [ { ( and selection sets, token floods, comment floods) under limits 1..200000 run in a child process. Each case is the event stream of hook H1 (lexer calls, token counter, limit hit) validated by TokenLimit_Trace. Non-trivial = cases whose limit is within 2 of the token count, or over-limit cases; distinct by (text, entry, limit)"
	c.Assumptions = []string{
		"hook H1 (build tag verif) reports every lexer call and counter increment made by parser.peek/next; the work bound is stated on these deterministic counters, not on wall-clock time",
		"the token count of an input is the number of tokens before EOF, comments included; the specification recomputes it from the source text with Lexer.tla for inputs up to a few hundred characters, for the multi-megabyte families it is known by construction",
	}
	r := c.RunTLC(tlc.Opts{Module: "TokenLimit_MC", CfgFile: "TokenLimit_MC.cfg", Workers: 8})
	tlc.Cleanup(r)
	if c.HasInternal() {
		return
	}
	devs := LexerDevs(c)
	ndocs := 40
	if c.Thorough() {
		ndocs = 600
	}
	rng := rand.New(rand.NewSource(c.Seed*32452843 + 16))
	qg := &QGen{MaxDepth: 2}
	sg := &SGen{Q: &QGen{MaxDepth: 2}}
	var lines [][]byte
	var events []int64
	cases := map[int]*limitCase{}
	id := 0
	var nontrivial int64
	var validSchemaTexts []string
	nmulti := 10
	if c.Thorough() {
		nmulti = 200
	}
	addDoc := func(grammar, text string) {
		n, lexOK := countTokens(text)
		tree0, ok0, _, crash := parseLimited(grammar, "", text, unlimitedEntry)
		if crash != "" {
			c.Violation(fmt.Sprintf("%s document %q: %s", grammar, text, crash), map[string]any{"text": text, "crash": crash})
			return
		}
		_ = lexOK
		entries := []string{"ParseQueryWithTokenLimit"}
		if grammar == "schema" {
			entries = []string{"ParseSchemaWithLimit", "ParseSchemasWithLimit"}
		}
		for _, entry := range entries {
			for limit := -2; limit <= n+2; limit++ { // (a negative limit is a limit no input fits)
				t0 := tree0
				if entry == "ParseSchemasWithLimit" && ok0 {
					// (a document built from a list of sources carries neither position nor end-of-file comments)
					t0, _, _, _ = parseLimited(grammar, entry, text, unlimitedEntry)
				}
				lc := &limitCase{Grammar: grammar, Entry: entry, Limit: limit, N: n, HasSrc: true, Src: cps(text), OK0: ok0, Tree0: t0, Text: text, Srcs: [][]int{}}
				var crash string
				lc.Events = captureEvents(func() {
					lc.Tree, lc.OK, lc.ErrText, crash = parseLimited(grammar, entry, text, limit)
				})
				if crash != "" {
					c.Violation(fmt.Sprintf("%s(%q, limit %d): %s", entry, text, limit, crash), map[string]any{"text": text, "limit": limit, "crash": crash})
					continue
				}
				id++
				lc.ID = id
				b, _ := json.Marshal(lc)
				lines = append(lines, b)
				events = append(events, int64(len(lc.Events)))
				cases[id] = lc
				if limit != 0 && limit >= n-2 {
					nontrivial++
				} else if limit != 0 && limit < n {
					nontrivial++
				}
			}
		}
	}
	for i := 0; i < ndocs; i++ {
		qg.R, sg.R, sg.Q.R = rng, rng, rng
		var toks []RTok
		grammar := "query"
		if i%2 == 0 {
			toks = UnparseQuery(qg.Doc(), rng)
		} else {
			grammar = "schema"
			toks = UnparseSchema(sg.Doc(), rng)
		}
		if len(toks) > 60 {
			continue
		}
		if i%5 == 4 {
			pool := queryMutPool
			if grammar == "schema" {
				pool = schemaMutPool
			}
			toks, _ = MutateTokens(toks, rng, pool)
		}
		text := RenderIgnored(toks, rng)
		if grammar == "schema" && i%5 != 4 {
			if _, err := parser.ParseSchema(&ast.Source{Input: text}); err == nil {
				validSchemaTexts = append(validSchemaTexts, text)
			}
		}
		addDoc(grammar, text)
		if i < 2 {
			c.Sample(map[string]any{"source": "generated document x every limit 0..tokens+2, hook events validated by TokenLimit_Trace", "grammar": grammar, "text": text})
		}
	}
	// hand-picked shapes: comments in every position, empty input, only comments
	for _, t := range []string{"", "#only a comment", "#a\n#b\n{a}", "{a #c\n}", "{a}#tail", "query Q($v:[Int!]=[1,2])@d{a:b(x:{y:[$v]})...F...on T{c}}", "{ a # one\n # two\n b }"} {
		addDoc("query", t)
	}
	for _, t := range []string{"#c\ntype T{f:Int}", "type T{#c\nf:Int #d\n}", "\"\"\"d\"\"\" type T implements A&B @x{f(a:Int=1):[T!]!}", "extend schema @d #c\n"} {
		addDoc("schema", t)
	}
	// mid-size documents (20,002 tokens, more than any plausible built-in default) under the limits that matter:
	// 0 (unlimited), one below, exactly and one above the count, and a round number below
	for _, mid := range []struct{ grammar, text string }{
		{"query", "{" + strings.Repeat(" a", 20000) + " }"},
		{"schema", strings.Repeat("scalar S ", 10001)},
	} {
		tree0, ok0, _, crash0 := parseLimited(mid.grammar, "", mid.text, unlimitedEntry)
		if crash0 != "" || !ok0 {
			c.Internal("mid-size %s document does not parse: %s", mid.grammar, crash0)
			break
		}
		entries := []string{"ParseQueryWithTokenLimit"}
		if mid.grammar == "schema" {
			entries = []string{"ParseSchemaWithLimit", "ParseSchemasWithLimit"}
		}
		for _, entry := range entries {
			if entry == "ParseSchemasWithLimit" {
				tree0, _, _, _ = parseLimited(mid.grammar, entry, mid.text, unlimitedEntry)
			}
			for _, limit := range []int{0, 15000, 20001, 20002, 20003, hugeLimit} {
				lc := &limitCase{Grammar: mid.grammar, Entry: entry, Limit: limit, N: 20002, HasSrc: false, Src: []int{}, OK0: true, Tree0: tree0, Text: fmt.Sprintf("(%s document of 20,002 tokens)", mid.grammar), Srcs: [][]int{}}
				var crash string
				callLimit := limit
				if limit == hugeLimit {
					callLimit = math.MaxInt // "practically unlimited" as callers write it; the model sees four hundred thousand, far above the 20,002 tokens
				}
				lc.Events = captureEvents(func() {
					lc.Tree, lc.OK, lc.ErrText, crash = parseLimited(mid.grammar, entry, mid.text, callLimit)
				})
				if crash != "" {
					c.Violation(fmt.Sprintf("%s(20,002-token %s document, limit %d): %s", entry, mid.grammar, callLimit, crash), map[string]any{"limit": limit, "crash": crash})
					continue
				}
				// (the trees are long: compared here, the specification gets their verdict as two short marks)
				if lc.OK && lc.Tree != tree0 {
					lc.Tree, lc.Tree0 = "differs", "unlimited"
				} else {
					lc.Tree, lc.Tree0 = "", ""
					if lc.OK {
						lc.Tree, lc.Tree0 = "same", "same"
					}
				}
				id++
				lc.ID = id
				b, _ := json.Marshal(lc)
				lines = append(lines, b)
				events = append(events, int64(len(lc.Events)))
				cases[id] = lc
				nontrivial++
			}
		}
	}
	// several sources in one call: the limit is per source
	multi := func(texts []string) {
		var srcs []*ast.Source
		var cp [][]int
		maxN, sum := 0, 0
		for i, t := range texts {
			srcs = append(srcs, &ast.Source{Name: fmt.Sprintf("m%d.graphql", i), Input: t, BuiltIn: (i+len(texts[0]))%2 == 0})
			cp = append(cp, cps(t))
			n, _ := countTokens(t)
			sum += n
			if n > maxN {
				maxN = n
			}
		}
		d0, err0 := parser.ParseSchemas(srcs...)
		tree0 := ""
		if err0 == nil {
			tree0 = gtListString(ProjectSchemaDoc(d0)) + builtInMarks(d0)
		}
		for _, limit := range []int{0, 1, maxN - 1, maxN, maxN + 1, sum - 1, sum, sum + 1} {
			if limit < 0 {
				continue
			}
			lc := &limitCase{Grammar: "schema", Entry: "ParseSchemasWithLimit(several sources)", Limit: limit, N: maxN, OK0: err0 == nil, Tree0: tree0, Multi: true, Srcs: cp, Src: []int{}, Text: strings.Join(texts, " | ")}
			crash := ""
			lc.Events = captureEvents(func() {
				defer func() {
					if r := recover(); r != nil {
						crash = fmt.Sprintf("panic: %v", r)
					}
				}()
				d, err := parser.ParseSchemasWithLimit(limit, srcs...)
				if err != nil {
					lc.ErrText = err.Error()
					return
				}
				lc.OK = true
				lc.Tree = gtListString(ProjectSchemaDoc(d)) + builtInMarks(d)
			})
			if crash != "" {
				c.Violation(fmt.Sprintf("ParseSchemasWithLimit(%d, %d sources): %s", limit, len(srcs), crash), map[string]any{"texts": texts, "limit": limit, "crash": crash})
				continue
			}
			id++
			lc.ID = id
			b, _ := json.Marshal(lc)
			lines = append(lines, b)
			events = append(events, int64(len(lc.Events)))
			cases[id] = lc
			nontrivial++
		}
	}
	multi([]string{"type A { a: Int }", "type B { b: Int c: String }", "extend type A { d: Int }"})
	multi([]string{"#c\ntype T{f:Int}", "scalar S", "type T2{#c\nf:Int #d\n}"})
	multi([]string{"scalar S", "type T {"})
	for i := 0; i+2 < len(validSchemaTexts) && i < 3*nmulti; i += 3 {
		multi(validSchemaTexts[i : i+3])
	}
	cfg := "SPECIFICATION Spec\nCONSTANTS\n  Devs = " + core.DevSetTLA(devs) + "\nCHECK_DEADLOCK FALSE\n"
	bad, ok := RunTrace(c, TraceJob{Module: "TokenLimit_Trace", CfgText: cfg, Lines: lines, Events: events, Shards: 14, Stack: "256m", Timeout: 15 * time.Minute})
	if ok {
		c.Count(int64(len(lines)), nontrivial, int64(len(lines)))
		c.Logf("TokenLimit_Trace: %d (document, entry, limit) cases validated, %d disagreements", len(lines), len(bad))
		for _, raw := range bad {
			var b struct {
				ID    int    `json:"id"`
				Class string `json:"class"`
			}
			json.Unmarshal(raw, &b)
			lc := cases[b.ID]
			c.Violation(fmt.Sprintf("%s(%q, limit %d) [%d tokens]: %s (ok=%v err=%q)", lc.Entry, lc.Text, lc.Limit, lc.N, b.Class, lc.OK, lc.ErrText),
				map[string]any{"text": lc.Text, "entry": lc.Entry, "limit": lc.Limit, "tokens": lc.N, "what": b.Class, "events": lc.Events})
		}
	}

	// multi-megabyte families in child processes
	sizes := []int{1 << 20}
	limits := []int{-1, 1, 10, 1000}
	if c.Thorough() {
		sizes = []int{1 << 20, 8 << 20}
		limits = []int{-1, 1, 10, 1000, 200000}
	}
	var blines [][]byte
	var bevents []int64
	bcases := map[int]string{}
	for _, fam := range bigFamilies {
		for _, size := range sizes {
			for _, limit := range limits {
				grammar, _, _ := bigInput(fam, 64)
				entry := "ParseQueryWithTokenLimit"
				if grammar == "schema" {
					entry = []string{"ParseSchemaWithLimit", "ParseSchemasWithLimit"}[(limit+2)%2]
					if limit == 10 || limit == 200000 {
						entry = "ParseSchemasWithLimit(exact prefix)"
					}
				}
				wr := RunWorker(60*time.Second, nil, "limitbig", fam, strconv.Itoa(size), strconv.Itoa(limit), entry)
				desc := fmt.Sprintf("%s on family %s (%d bytes) under limit %d", entry, fam, size, limit)
				if wr.TimedOut {
					// re-run alone once before it counts
					wr = RunWorker(120*time.Second, nil, "limitbig", fam, strconv.Itoa(size), strconv.Itoa(limit), entry)
				}
				if wr.TimedOut {
					c.Violation(desc+": did not return within 120 s", map[string]any{"family": fam, "size": size, "limit": limit, "entry": entry, "hang": true})
					continue
				}
				if wr.Crashed {
					c.Violation(desc+": process died: "+firstLine(wr.Stderr), map[string]any{"family": fam, "size": size, "limit": limit, "entry": entry, "stderr": wr.Stderr})
					continue
				}
				var lc limitCase
				if err := json.Unmarshal(wr.Stdout, &lc); err != nil {
					c.Internal("limitbig worker output: %v", err)
					continue
				}
				id++
				lc.ID = id
				if lc.Srcs == nil {
					lc.Srcs = [][]int{}
				}
				b, _ := json.Marshal(lc)
				blines = append(blines, b)
				bevents = append(bevents, int64(len(lc.Events)))
				bcases[id] = desc
			}
		}
	}
	if len(blines) > 0 {
		bad, ok := RunTrace(c, TraceJob{Module: "TokenLimit_Trace", CfgText: cfg, Lines: blines, Events: bevents, Shards: 8, Stack: "512m", Heap: "3g"})
		if ok {
			c.Count(int64(len(blines)), int64(len(blines)), int64(len(blines)))
			c.Logf("TokenLimit_Trace: %d multi-megabyte cases validated (work bounded by the limit), %d disagreements", len(blines), len(bad))
			for _, raw := range bad {
				var b struct {
					ID    int    `json:"id"`
					Class string `json:"class"`
				}
				json.Unmarshal(raw, &b)
				c.Violation(bcases[b.ID]+": "+b.Class, map[string]any{"case": bcases[b.ID], "what": b.Class})
			}
		}
	}
}

func firstLine(s string) string {
	if i := strings.IndexByte(s, '\n'); i >= 0 {
		return s[:i]
	}
	return s
}
