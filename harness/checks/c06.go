package checks

import (
	"math/rand"

	"verif/harness/core"
)

func init() {
	Registry["C06"] = checkC06
	Replays["C06"] = func(c *core.Ctx, p string) int { return grammarReplay(c, p, schemaBind()) }
}

var schemaMutPool = []string{"{", "}", "(", ")", "[", "]", ":", "=", "!", "$", "@", "...", "|", "&", "A", "on", "type", "extend", "implements", "input", "enum", "union",
	"scalar", "interface", "directive", "schema", "repeatable", "query", "true", "null", "1", "2.5", `"d"`, `""`, "FIELD", "OBJECT"}

func checkC06(c *core.Ctx) {
	c.Rule = "inputs are (a) every path of the TLC state graph of SchemaGrammar_MC: each derivable token sequence up to the bound (must parse, projected SchemaDocument must equal the tree denoted by the specification's events, under two ignored-token layouts, BuiltIn flag propagated), each viable but incomplete prefix and each prefix followed by an inadmissible token class (must fail); (b) a shortest derivable sentence through every transition of the larger graph plus near-miss sentences; (c) generated type-system trees and their single-token mutations validated by SchemaGrammar_Trace. Non-trivial = derivable sentences whose tree is compared"
	c.Assumptions = []string{
		"SchemaGrammar.tla is the reading of the October-2021 type-system grammar used as oracle",
		"the projection ast.SchemaDocument -> generic tree (checks/sgen.go) is trusted; the five AST lists are compared in a fixed order, each in source order; an empty description equals no description",
	}
	gen := &SGen{Q: &QGen{MaxDepth: 2}}
	runGrammarCheck(c, schemaBind(), GrammarPlan{
		PrinterKind: "schemadoc",
		DevNames:    map[string]bool{"EmptySchemaDocument": true, "BareSchema": true, "NoIfaceExtImplements": true, "EnumValueKeyword": true},
		Invs:        "Nesting NoVariables TypeOK",
		MaxTok:      [2]int{5, 6}, Cover: [2]int{11, 14}, NDocs: [2]int{400, 6000},
		TraceModule: "SchemaGrammar_Trace", ClassOf: classOfSchemaToken, MutPool: schemaMutPool,
		Gen: func(i int, rng *rand.Rand) ([]GT, []RTok, bool) {
			gen.R = rng
			gen.Q.R = rng
			gen.Q.ConstFault = i%7 == 6
			doc := gen.Doc()
			return doc, UnparseSchema(doc, rng), gen.Q.ConstFault
		},
	})
}
