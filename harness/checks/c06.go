package checks

import (
	"encoding/json"
	"fmt"
	"github.com/vektah/gqlparser/v2/ast"
	"github.com/vektah/gqlparser/v2/parser"
	"math/rand"
	"strings"

	"verif/harness/core"
)

func init() {
	Registry["C06"] = checkC06
	Replays["C06"] = func(c *core.Ctx, p string) int { return grammarReplay(c, p, schemaBind()) }
}

var schemaMutPool = []string{"{", "}", "(", ")", "[", "]", ":", "=", "!", "$", "@", "...", "|", "&", "A", "on", "type", "extend", "implements", "input", "enum", "union",
	"scalar", "interface", "directive", "schema", "repeatable", "query", "true", "null", "1", "2.5", `"d"`, `""`, "FIELD", "OBJECT"}

func checkC06(c *core.Ctx) {
	c.Rule = "inputs are (a) every path of the TLC state graph of SchemaGrammar_MC: each derivable token sequence up to the bound (must parse, projected SchemaDocument must equal the tree denoted by the specification's events, under two ignored-token layouts, BuiltIn flag propagated), each viable but incomplete prefix and each prefix followed by an inadmissible token class (must fail); (b) a shortest derivable sentence through every transition of the larger graph plus near-miss sentences; (c) generated type-system trees and their single-token mutations validated by SchemaGrammar_Trace. Non-trivial = derivable sentences whose tree is compared"
	c.Assumptions = []string{
		"SchemaGrammar.tla is the reading of the October-2021 type-system grammar used as oracle",
		"the projection ast.SchemaDocument -> generic tree (checks/sgen.go) is trusted; the five AST lists are compared in a fixed order, each in source order; an empty description equals no description",
	}
	gen := &SGen{Q: &QGen{MaxDepth: 2}}
	runGrammarCheck(c, schemaBind(), GrammarPlan{
		PrinterKind: "schemadoc",
		HandTexts:   nestedListSchemaTexts,
		DevNames:    map[string]bool{"EmptySchemaDocument": true, "BareSchema": true, "NoIfaceExtImplements": true, "EnumValueKeyword": true},
		Invs:        "Nesting NoVariables TypeOK",
		MaxTok:      [2]int{5, 6}, Cover: [2]int{11, 14}, NDocs: [2]int{400, 6000},
		TraceModule: "SchemaGrammar_Trace", ClassOf: classOfSchemaToken, MutPool: schemaMutPool,
		Gen: func(i int, rng *rand.Rand) ([]GT, []RTok, bool) {
			gen.R = rng
			gen.Q.R = rng
			gen.Q.ConstFault = i%7 == 6
			doc := gen.Doc()
			return doc, UnparseSchema(doc, rng), gen.Q.ConstFault
		},
	})
	if !c.HasInternal() {
		builtInSources(c)
	}
}

// builtInSources: lists of sources in one call, built-in ones at every position (BuiltIn_Trace)
func builtInSources(c *core.Ctx) {
	n := 60
	if c.Thorough() {
		n = 1500
	}
	rng := rand.New(rand.NewSource(c.Seed*15485863 + 6))
	gen := &SGen{R: rng, Q: &QGen{R: rng, MaxDepth: 2}}
	var pool []string
	// small sources of one kind only (a first file that holds nothing but schema extensions, one directive, ...)
	pool = append(pool, "extend schema @a", "extend schema { query: Q }", "extend schema @a { mutation: M }", "schema { query: Q }", "directive @d on SCHEMA | SCALAR",
		"scalar S", "extend scalar S @d", "type Q { a: Int }", "extend type Q { b: Int }", "\"only a description\" scalar T")
	for len(pool) < 50 {
		t := RenderIgnored(UnparseSchema(gen.Doc(), rng), rng)
		if _, err := parser.ParseSchema(&ast.Source{Input: t}); err == nil && len(t) < 600 {
			pool = append(pool, t)
		}
	}
	type defRec struct {
		Name    string `json:"name"`
		Src     int    `json:"src"`
		Flag    bool   `json:"flag"`
		SrcFlag bool   `json:"srcflag"`
	}
	var lines [][]byte
	var events []int64
	descs := map[int]string{}
	for id := 1; id <= n; id++ {
		k := 2 + rng.Intn(3)
		var srcs []*ast.Source
		var parts [][]GTc
		var desc []string
		for j := 0; j < k; j++ {
			src := &ast.Source{Name: fmt.Sprintf("s%d.graphql", j), Input: pool[rng.Intn(len(pool))], BuiltIn: rng.Intn(2) == 0}
			srcs = append(srcs, src)
			alone, err := parser.ParseSchema(&ast.Source{Name: src.Name, Input: src.Input, BuiltIn: src.BuiltIn})
			if err != nil {
				c.Internal("pool text does not parse")
				return
			}
			parts = append(parts, toGTc(schemaNorm(ProjectSchemaDoc(alone))))
			desc = append(desc, fmt.Sprintf("%s(builtin=%v)=%q", src.Name, src.BuiltIn, clip(src.Input, 120)))
		}
		var doc *ast.SchemaDocument
		var err error
		entry := "ParseSchemas"
		func() {
			defer guard("parser.ParseSchemas", strings.Join(desc, " | "))()
			if id%2 == 0 {
				entry = "ParseSchemasWithLimit(0, ...)"
				doc, err = parser.ParseSchemasWithLimit(0, srcs...)
			} else {
				doc, err = parser.ParseSchemas(srcs...)
			}
		}()
		if err != nil || doc == nil {
			c.Violation(fmt.Sprintf("%s rejects a list of sources each of which parses alone: %v; %s", entry, err, strings.Join(desc, " | ")), map[string]any{"sources": sourcesJSON(srcs)})
			continue
		}
		defs := []defRec{}
		idx := func(p *ast.Position) (int, bool) {
			if p == nil || p.Src == nil {
				return 0, false
			}
			for j, s := range srcs {
				if s == p.Src {
					return j + 1, s.BuiltIn
				}
			}
			return 0, false
		}
		for _, d := range doc.Definitions {
			j, f := idx(d.Position)
			defs = append(defs, defRec{d.Name, j, d.BuiltIn, f})
		}
		for _, d := range doc.Extensions {
			j, f := idx(d.Position)
			defs = append(defs, defRec{"extend " + d.Name, j, d.BuiltIn, f})
		}
		b, _ := json.Marshal(map[string]any{"id": id, "parts": parts, "merged": toGTc(schemaNorm(ProjectSchemaDoc(doc))), "defs": defs})
		lines = append(lines, b)
		events = append(events, int64(len(defs)))
		descs[id] = entry + ": " + strings.Join(desc, " | ")
	}
	// Merge chains: ONE parsed document merged first into two documents, each of which then receives another one
	// (a cached base in front of two different tails): each chain lists its own sources, whatever the other did
	mid := n
	for k := 1; k <= 9; k++ {
		var bt, xt, yt strings.Builder
		for j := 0; j < k; j++ {
			fmt.Fprintf(&bt, "scalar B%d extend scalar B%d @d directive @b%d on SCALAR ", j, j, j)
		}
		xt.WriteString("scalar X extend scalar X @d directive @x on SCALAR")
		yt.WriteString("scalar Y extend scalar Y @d directive @y on SCALAR")
		parse := func(t string) *ast.SchemaDocument {
			d, err := parser.ParseSchema(&ast.Source{Name: "m.graphql", Input: t})
			if err != nil {
				return &ast.SchemaDocument{}
			}
			return d
		}
		base, x, y := parse(bt.String()), parse(xt.String()), parse(yt.String())
		var a, b ast.SchemaDocument
		func() {
			defer guard("SchemaDocument.Merge", bt.String())()
			a.Merge(base)
			b.Merge(base)
			a.Merge(x)
			b.Merge(y)
		}()
		for _, ch := range []struct {
			doc  *ast.SchemaDocument
			tail string
		}{{&a, xt.String()}, {&b, yt.String()}} {
			mid++
			parts := [][]GTc{toGTc(schemaNorm(ProjectSchemaDoc(parse(bt.String())))), toGTc(schemaNorm(ProjectSchemaDoc(parse(ch.tail))))}
			rec, _ := json.Marshal(map[string]any{"id": mid, "parts": parts, "merged": toGTc(schemaNorm(ProjectSchemaDoc(ch.doc))), "defs": []defRec{}})
			lines = append(lines, rec)
			events = append(events, 0)
			descs[mid] = fmt.Sprintf("Merge chain: a base of %d definitions / extensions / directives merged into two documents, then %q into this one (and another tail into the other)", k, ch.tail)
		}
	}
	cfg := "SPECIFICATION Spec\nCONSTANTS\n  LexDevs = {}\n  GrammarDevs = {}\nCHECK_DEADLOCK FALSE\n"
	bad, ok := RunTrace(c, TraceJob{Module: "BuiltIn_Trace", CfgText: cfg, Lines: lines, Events: events, Shards: 8, Stack: "256m"})
	if !ok {
		return
	}
	c.Count(int64(len(lines)), int64(len(lines)), int64(len(lines)))
	c.Logf("BuiltIn_Trace: %d lists of sources validated, %d disagreements", len(lines), len(bad))
	for _, raw := range bad {
		var b struct {
			ID    int    `json:"id"`
			Class string `json:"class"`
			At    string `json:"at"`
		}
		json.Unmarshal(raw, &b)
		c.Violation(fmt.Sprintf("%s (%s): %s", b.Class, b.At, descs[b.ID]), map[string]any{"what": b.Class, "at": b.At, "case": descs[b.ID]})
	}
}

// constant values with lists nested at every position, after earlier lists of the same document
var nestedListSchemaTexts = []string{
	// empty lists between their delimiters (none is derivable)
	`type T { f(): Int }`, `directive @d() on FIELD`, `type T @d() { f: Int }`, `input I {}`, `enum E {}`, `type T {}`, `schema {}`, `interface I { }`, `extend type T {}`, `extend input I { }`, `union U =`, `type T implements { f: Int }`,
	`directive @d on`, `type T { f( , ): Int }`,
	// every value of a type-system document is constant: a variable anywhere is not derivable
	`type T @d(x: $v) { f: Int }`, `type T { f(a: Int = $v): Int }`, `directive @d(a: Int = $v) on FIELD`, `enum E { A @d(x: $v) }`, `type T { f(a: Int @d(x: $v)): Int }`,
	`scalar S @d(x: [$v])`, `input I { f: Int = {k: $v} }`, `extend schema @d(x: $v)`, `schema @d(x: $v) { query: Q }`, `interface I { f: Int @d(x: $v) }`, `union U @d(x: $v) = A`,
	`extend type T @d(x: {k: [$v]})`, `input I { f: Int = 1 @d(x: $v) }`,
	// an empty description is a description: none may stand before an extension
	`"" extend type A { f: Int }`, `"""""" extend schema @d`, "\"\"\"\n   \n\"\"\"\nextend scalar S @d", `scalar S "" extend scalar S @d`, `"" scalar S`, `type T { "" f: Int "" g(""" """ a: Int): Int }`,
	`type T { f(ids: [Int] = [7, 8, 9], grid: [[Int]] = [[1], [2, 3], []], mixed: [In] = [{x: 1}, {xs: [7, 8]}, {x: 3}]): Int @window(rows: [[0, 1], [2, 3]]) }`,
	`directive @d(a: [[Int]] = [[1, 2], [3, [4, [5]]], 6]) on OBJECT input In { a: [Int] = [1] b: [[Int]] = [[2], [3]] c: [[[Int]]] = [[[4]], [[5], [6]]] }`,
	`scalar S @d(a: [1, 2]) @d(a: [[3], [4]]) @d(a: [{k: [5]}, {k: [[6], [7]]}]) extend scalar S @d(a: [[], [[]], [[], []]])`,
	`enum E @d(a: ["a", ["b", "c"], [["d"]]]) { A @d(a: [[A], [B, [C]]]) B }`,
}
