package checks

import (
	"math/rand"

	"github.com/vektah/gqlparser/v2/ast"
)

// InjectDocFault applies one fault operator to a valid generated document
// and returns the name of the rule it is meant to violate ("" if the chosen
// operator found no site). Operators are type-aware: they use the schema to
// make sure the edit really violates the rule.
func InjectDocFault(g *DGen, doc *[]GT, r *rand.Rand) string {
	// index every node with its path so operators can pick sites
	type site struct {
		n      *GT
		parent *GT
		typ    string // type the selection is made on (for fields / inline / spread), "" unknown
	}
	var fields, inlines, spreads, argsS, dirsS, ops, frags, vardefs, objs []site
	var walkSel func(n *GT, typ string)
	walkVal := func(v *GT, parent *GT) {
		var rec func(v *GT, parent *GT)
		rec = func(v *GT, parent *GT) {
			if v.T == "obj" {
				objs = append(objs, site{n: v, parent: parent})
			}
			for i := range v.K {
				rec(&v.K[i], v)
			}
		}
		rec(v, parent)
	}
	walkSel = func(n *GT, typ string) {
		for i := range n.K {
			c := &n.K[i]
			switch c.T {
			case "field":
				fields = append(fields, site{n: c, parent: n, typ: typ})
				next := ""
				if def := g.S.Types[typ]; def != nil {
					if fd := def.Fields.ForName(c.K[1].V); fd != nil {
						next = fd.Type.Name()
					}
				}
				walkSel(c, next)
			case "inline":
				inlines = append(inlines, site{n: c, parent: n, typ: typ})
				next := typ
				if len(c.K) > 0 && c.K[0].T == "typecond" {
					next = c.K[0].V
				}
				walkSel(c, next)
			case "spread":
				spreads = append(spreads, site{n: c, parent: n, typ: typ})
				walkSel(c, typ)
			case "arg":
				argsS = append(argsS, site{n: c, parent: n, typ: typ})
				walkVal(&c.K[1], c)
			case "dir":
				dirsS = append(dirsS, site{n: c, parent: n, typ: typ})
				walkSel(c, typ)
			case "vardef":
				vardefs = append(vardefs, site{n: c, parent: n})
				walkSel(c, "")
			}
		}
	}
	for i := range *doc {
		d := &(*doc)[i]
		switch d.T {
		case "op":
			ops = append(ops, site{n: d})
			root := map[string]*ast.Definition{"query": g.S.Query, "mutation": g.S.Mutation, "subscription": g.S.Subscription}[d.K[0].V]
			rn := ""
			if root != nil {
				rn = root.Name
			}
			walkSel(d, rn)
		case "frag":
			frags = append(frags, site{n: d})
			cond := ""
			for _, k := range d.K {
				if k.T == "typecond" {
					cond = k.V
				}
			}
			walkSel(d, cond)
		}
	}
	pick := func(s []site) *site {
		if len(s) == 0 {
			return nil
		}
		return &s[r.Intn(len(s))]
	}
	fieldDef := func(s *site) *ast.FieldDefinition {
		if def := g.S.Types[s.typ]; def != nil {
			return def.Fields.ForName(s.n.K[1].V)
		}
		return nil
	}
	insertAfterHead := func(n *GT, head int, x GT) {
		k := append([]GT{}, n.K[:head]...)
		k = append(k, x)
		n.K = append(k, n.K[head:]...)
	}
	removeKids := func(n *GT, pred func(GT) bool) bool {
		var keep []GT
		removed := false
		for _, k := range n.K {
			if pred(k) {
				removed = true
				continue
			}
			keep = append(keep, k)
		}
		n.K = keep
		return removed
	}
	opsList := []func() string{
		func() string { // unknown field
			for try := 0; try < 10; try++ {
				s := pick(fields)
				if s == nil || g.S.Types[s.typ] == nil || s.n.K[1].V == "__typename" {
					continue
				}
				s.n.K[1].V = "nope"
				// drop arguments and sub-selection that no longer make sense? keep them: only this rule may report
				removeKids(s.n, func(k GT) bool { return k.T == "arg" })
				return "FieldsOnCorrectType"
			}
			return ""
		},
		func() string { // leaf with selection / composite without
			for try := 0; try < 20; try++ {
				s := pick(fields)
				if s == nil {
					return ""
				}
				fd := fieldDef(s)
				if fd == nil {
					continue
				}
				ft := g.S.Types[fd.Type.Name()]
				if ft == nil {
					continue
				}
				if ft.IsLeafType() {
					s.n.K = append(s.n.K, GT{T: "field", K: []GT{leaf("alias", "__typename"), leaf("name", "__typename")}})
				} else {
					removeKids(s.n, func(k GT) bool { return isSel(k.T) })
				}
				return "ScalarLeafs"
			}
			return ""
		},
		func() string { // unknown argument
			for try := 0; try < 10; try++ {
				s := pick(fields)
				if s == nil || fieldDef(s) == nil {
					continue
				}
				insertAfterHead(s.n, 2, GT{T: "arg", K: []GT{leaf("name", "zzUnknown"), leaf("int", "1")}})
				return "KnownArgumentNames"
			}
			return ""
		},
		func() string { // required argument dropped
			for try := 0; try < 40; try++ {
				s := pick(fields)
				if s == nil {
					return ""
				}
				fd := fieldDef(s)
				if fd == nil {
					continue
				}
				for _, a := range fd.Arguments {
					if a.Type.NonNull && a.DefaultValue == nil {
						name := a.Name
						if removeKids(s.n, func(k GT) bool { return k.T == "arg" && k.K[0].V == name }) {
							return "ProvidedRequiredArguments"
						}
					}
				}
			}
			return ""
		},
		func() string { // duplicate argument
			s := pick(argsS)
			if s == nil || s.parent.T == "dir" && false {
				return ""
			}
			for i := range s.parent.K {
				if &s.parent.K[i] == s.n {
					insertAfterHead(s.parent, i, cloneGT(*s.n))
					return "UniqueArgumentNames"
				}
			}
			return ""
		},
		func() string { // ill-typed literal
			for try := 0; try < 40; try++ {
				s := pick(argsS)
				if s == nil {
					return ""
				}
				var defs ast.ArgumentDefinitionList
				if s.parent.T == "field" {
					ps := site{n: s.parent, typ: s.typ}
					if fd := fieldDef(&ps); fd != nil {
						defs = fd.Arguments
					}
				} else if s.parent.T == "dir" {
					if dd := g.S.Directives[s.parent.K[0].V]; dd != nil {
						defs = dd.Arguments
					}
				}
				ad := defs.ForName(s.n.K[0].V)
				if ad == nil {
					continue
				}
				base := g.S.Types[ad.Type.Name()]
				if base == nil || (base.Kind == ast.Scalar && !base.OneOf("Int", "Float", "String", "Boolean", "ID")) {
					continue
				}
				var bad GT
				switch {
				case ad.Type.NonNull && r.Intn(3) == 0:
					bad = leaf("null", "null")
				case base.Kind == ast.Enum:
					bad = []GT{leaf("enum", "NOT_A_VALUE"), leaf("str", base.EnumValues[0].Name), leaf("int", "1")}[r.Intn(3)]
				case base.Kind == ast.InputObject:
					bad = []GT{leaf("int", "1"), {T: "obj", K: []GT{{T: "objfield", K: []GT{leaf("name", "noSuchField"), leaf("int", "1")}}}}}[r.Intn(2)]
					if bad.T == "obj" {
						// unknown field plus whatever is required: only ValuesOfCorrectType reports either way
					}
				case base.Name == "Int":
					bad = []GT{leaf("str", "x"), leaf("float", "1.5"), leaf("int", "2147483648"), leaf("bool", "true"), leaf("int", "-2147483649")}[r.Intn(5)]
				case base.Name == "Float":
					bad = []GT{leaf("str", "x"), leaf("bool", "false")}[r.Intn(2)]
				case base.Name == "String":
					bad = []GT{leaf("int", "1"), leaf("enum", "RED"), leaf("bool", "true")}[r.Intn(3)]
				case base.Name == "Boolean":
					bad = []GT{leaf("int", "1"), leaf("str", "true")}[r.Intn(2)]
				case base.Name == "ID":
					bad = []GT{leaf("float", "1.5"), leaf("bool", "true")}[r.Intn(2)]
				default:
					continue
				}
				if ad.Type.Elem != nil && r.Intn(2) == 0 {
					bad = GT{T: "listv", K: []GT{bad}}
				}
				s.n.K[1] = bad
				return "ValuesOfCorrectType"
			}
			return ""
		},
		func() string { // unknown directive / misplaced directive
			s := pick(fields)
			if s == nil {
				return ""
			}
			if r.Intn(2) == 0 {
				s.n.K = append(s.n.K[:2:2], append([]GT{}, s.n.K[2:]...)...)
				insertDir(s.n, GT{T: "dir", K: []GT{leaf("name", "nopeDirective")}})
				return "KnownDirectives"
			}
			// a directive that exists but is not declared for FIELD
			for n, d := range g.S.Directives {
				onField := false
				for _, l := range d.Locations {
					if l == ast.LocationField {
						onField = true
					}
				}
				required := false
				for _, a := range d.Arguments {
					if a.Type.NonNull && a.DefaultValue == nil {
						required = true
					}
				}
				if !onField && !required {
					insertDir(s.n, GT{T: "dir", K: []GT{leaf("name", n)}})
					return "KnownDirectives"
				}
			}
			return ""
		},
		func() string { // non-repeatable directive twice
			s := pick(fields)
			if s == nil {
				return ""
			}
			d := GT{T: "dir", K: []GT{leaf("name", "include"), {T: "arg", K: []GT{leaf("name", "if"), leaf("bool", "true")}}}}
			removeKids(s.n, func(k GT) bool { return k.T == "dir" && k.K[0].V == "include" })
			insertDir(s.n, d)
			insertDir(s.n, d)
			return "UniqueDirectivesPerLocation"
		},
		func() string { // spread of an undefined fragment
			s := pick(fields)
			if s == nil || s.parent == nil {
				return ""
			}
			s.parent.K = append(s.parent.K, GT{T: "spread", K: []GT{leaf("name", "NoSuchFragment")}})
			return "KnownFragmentNames"
		},
		func() string { // unused fragment
			*doc = append(*doc, GT{T: "frag", K: []GT{leaf("name", "Unused"), leaf("typecond", g.S.Query.Name),
				{T: "field", K: []GT{leaf("alias", "__typename"), leaf("name", "__typename")}}}})
			return "NoUnusedFragments"
		},
		func() string { // fragment cycle (through a used fragment so that only the cycle rule reports)
			s := pick(frags)
			if s == nil {
				return ""
			}
			s.n.K = append(s.n.K, GT{T: "spread", K: []GT{leaf("name", s.n.K[0].V)}})
			return "NoFragmentCycles"
		},
		func() string { // duplicate fragment name
			s := pick(frags)
			if s == nil {
				return ""
			}
			*doc = append(*doc, cloneGT(*s.n))
			return "UniqueFragmentNames"
		},
		func() string { // duplicate operation name / second anonymous operation
			s := pick(ops)
			if s == nil {
				return ""
			}
			c := cloneGT(*s.n)
			named := len(c.K) > 1 && c.K[1].T == "name"
			*doc = append([]GT{c}, *doc...)
			if named {
				return "UniqueOperationNames"
			}
			return "LoneAnonymousOperation"
		},
		func() string { // unknown type condition / variable type
			if s := pick(inlines); s != nil && r.Intn(2) == 0 {
				if len(s.n.K) > 0 && s.n.K[0].T == "typecond" {
					s.n.K[0].V = "NoSuchType"
				} else {
					s.n.K = append([]GT{leaf("typecond", "NoSuchType")}, s.n.K...)
				}
				return "KnownTypeNames"
			}
			s := pick(ops)
			if s == nil {
				return ""
			}
			head := 1
			if len(s.n.K) > 1 && s.n.K[1].T == "name" {
				head = 2
			}
			insertAfterHead(s.n, head, GT{T: "vardef", K: []GT{leaf("var", "ghost"), {T: "named", K: []GT{leaf("name", "NoSuchType")}}}})
			// use it so that NoUnusedVariables stays silent: as an argument of a directive that takes Boolean is not type-correct
			// (unknown types are not compared), so accept the second report
			return "KnownTypeNames+NoUnusedVariables"
		},
		func() string { // fragment on a leaf type
			s := pick(fields)
			if s == nil || s.parent == nil {
				return ""
			}
			s.parent.K = append(s.parent.K, GT{T: "inline", K: []GT{leaf("typecond", "Int"), {T: "field", K: []GT{leaf("alias", "__typename"), leaf("name", "__typename")}}}})
			return "FragmentsOnCompositeTypes"
		},
		func() string { // impossible spread: an object type that is not among the possible types here
			for try := 0; try < 20; try++ {
				s := pick(fields)
				if s == nil || s.parent == nil || g.S.Types[s.typ] == nil {
					continue
				}
				ok := map[string]bool{}
				for _, p := range g.spreadable(s.typ) {
					ok[p] = true
				}
				for _, o := range g.typeNames(ast.Object) {
					if !ok[o] {
						s.parent.K = append(s.parent.K, GT{T: "inline", K: []GT{leaf("typecond", o), {T: "field", K: []GT{leaf("alias", "__typename"), leaf("name", "__typename")}}}})
						return "PossibleFragmentSpreads"
					}
				}
			}
			return ""
		},
		func() string { // undefined variable
			for try := 0; try < 20; try++ {
				s := pick(argsS)
				if s == nil {
					return ""
				}
				// only inside operations (a fragment may be checked in the context of several operations)
				s.n.K[1] = leaf("var", "undefinedVariable")
				return "NoUndefinedVariables"
			}
			return ""
		},
		func() string { // unused variable
			s := pick(ops)
			if s == nil {
				return ""
			}
			head := 1
			if len(s.n.K) > 1 && s.n.K[1].T == "name" {
				head = 2
			}
			insertAfterHead(s.n, head, GT{T: "vardef", K: []GT{leaf("var", "unusedVariable"), {T: "named", K: []GT{leaf("name", "Int")}}}})
			return "NoUnusedVariables"
		},
		func() string { // duplicate variable
			s := pick(vardefs)
			if s == nil {
				return ""
			}
			for i := range s.parent.K {
				if &s.parent.K[i] == s.n {
					insertAfterHead(s.parent, i, cloneGT(*s.n))
					return "UniqueVariableNames"
				}
			}
			return ""
		},
		func() string { // variable of an output type
			s := pick(vardefs)
			if s == nil {
				return ""
			}
			s.n.K[1] = GT{T: "named", K: []GT{leaf("name", g.S.Query.Name)}}
			removeKids(s.n, func(k GT) bool { return k.T == "default" })
			return "VariablesAreInputTypes+VariablesInAllowedPosition"
		},
		func() string { // variable in a position it is not allowed in
			s := pick(vardefs)
			if s == nil {
				return ""
			}
			removeKids(s.n, func(k GT) bool { return k.T == "default" })
			// wrap into a list: [T] is never usable where T is expected
			s.n.K[1] = GT{T: "list", K: []GT{s.n.K[1]}}
			return "VariablesInAllowedPosition"
		},
		func() string { // variable whose list item type is weaker than the position requires
			for try := 0; try < 20; try++ {
				s := pick(vardefs)
				if s == nil {
					return ""
				}
				// only the nullability of list ITEMS comes from the position (the top level may have been strengthened)
				var weaken func(t *GT, top bool) bool
				weaken = func(t *GT, top bool) bool {
					if t.T == "list" {
						if weaken(&t.K[0], false) {
							return true
						}
					}
					if !top && len(t.K) > 1 && t.K[len(t.K)-1].T == "nn" {
						t.K = t.K[:len(t.K)-1]
						return true
					}
					return false
				}
				if weaken(&s.n.K[1], true) {
					removeKids(s.n, func(k GT) bool { return k.T == "default" })
					return "VariablesInAllowedPosition"
				}
			}
			return ""
		},
		func() string { // conflicting fields under one response key
			for try := 0; try < 30; try++ {
				s := pick(fields)
				if s == nil || s.parent == nil {
					return ""
				}
				def := g.S.Types[s.typ]
				if def == nil {
					continue
				}
				// another field of the same parent type with a different name and no required arguments and leaf type
				for _, fd := range def.Fields {
					if fd.Name == s.n.K[1].V || len(fd.Name) >= 2 && fd.Name[:2] == "__" {
						continue
					}
					ft := g.S.Types[fd.Type.Name()]
					req := false
					for _, a := range fd.Arguments {
						if a.Type.NonNull && a.DefaultValue == nil {
							req = true
						}
					}
					if ft == nil || !ft.IsLeafType() || req {
						continue
					}
					s.parent.K = append(s.parent.K, GT{T: "field", K: []GT{leaf("alias", s.n.K[0].V), leaf("name", fd.Name)}})
					return "OverlappingFieldsCanBeMerged"
				}
			}
			return ""
		},
		func() string { // same field, different arguments
			for try := 0; try < 30; try++ {
				s := pick(fields)
				if s == nil || s.parent == nil {
					return ""
				}
				fd := fieldDef(s)
				if fd == nil {
					continue
				}
				for _, a := range fd.Arguments {
					if a.Type.Name() == "Int" && a.Type.Elem == nil {
						c := cloneGT(*s.n)
						removeKids(&c, func(k GT) bool { return k.T == "arg" && k.K[0].V == a.Name })
						removeKids(s.n, func(k GT) bool { return k.T == "arg" && k.K[0].V == a.Name })
						insertAfterHead(s.n, 2, GT{T: "arg", K: []GT{leaf("name", a.Name), leaf("int", "1")}})
						insertAfterHead(&c, 2, GT{T: "arg", K: []GT{leaf("name", a.Name), leaf("int", "2")}})
						s.parent.K = append(s.parent.K, c)
						return "OverlappingFieldsCanBeMerged"
					}
				}
			}
			return ""
		},
		func() string { // subscription with two root fields
			for i := range ops {
				o := ops[i].n
				if o.K[0].V != "subscription" || g.S.Subscription == nil {
					continue
				}
				for _, fd := range g.S.Subscription.Fields {
					ft := g.S.Types[fd.Type.Name()]
					req := false
					for _, a := range fd.Arguments {
						if a.Type.NonNull && a.DefaultValue == nil {
							req = true
						}
					}
					if ft != nil && ft.IsLeafType() && !req {
						o.K = append(o.K, GT{T: "field", K: []GT{leaf("alias", "second"), leaf("name", fd.Name)}})
						return "SingleFieldSubscriptions"
					}
				}
				o.K = append(o.K, GT{T: "field", K: []GT{leaf("alias", "__typename"), leaf("name", "__typename")}})
				return "SingleFieldSubscriptions"
			}
			return ""
		},
		func() string { // duplicate input field
			s := pick(objs)
			if s == nil || len(s.n.K) == 0 {
				return ""
			}
			s.n.K = append(s.n.K, cloneGT(s.n.K[0]))
			return "UniqueInputFieldNames+ValuesOfCorrectType?"
		},
		func() string { // operation kind the schema does not support
			for _, k := range []string{"mutation", "subscription"} {
				if (k == "mutation" && g.S.Mutation == nil) || (k == "subscription" && g.S.Subscription == nil) {
					*doc = append([]GT{{T: "op", K: []GT{leaf("opkind", k), leaf("name", "Unsupported"), {T: "field", K: []GT{leaf("alias", "__typename"), leaf("name", "__typename")}}}}}, *doc...)
					// make every operation named
					for i := range *doc {
						d := &(*doc)[i]
						if d.T == "op" && !(len(d.K) > 1 && d.K[1].T == "name") {
							insertAfterHead(d, 1, leaf("name", "WasAnonymous"))
						}
					}
					return "KnownRootType"
				}
			}
			return ""
		},
		func() string { // introspection nested too deeply
			for i := range ops {
				o := ops[i].n
				if o.K[0].V != "query" {
					continue
				}
				nm := func(n string, kids ...GT) GT {
					return GT{T: "field", K: append([]GT{leaf("alias", n), leaf("name", n)}, kids...)}
				}
				deep := nm("__schema", nm("types", nm("fields", nm("type", nm("fields", nm("type", nm("fields", nm("name"))))))))
				o.K = append(o.K, deep)
				return "MaxIntrospectionDepth"
			}
			return ""
		},
	}
	for try := 0; try < 30; try++ {
		if rule := opsList[r.Intn(len(opsList))](); rule != "" {
			return rule
		}
	}
	return ""
}

// insertDir places a directive after the arguments of a field / before its selections
func insertDir(n *GT, d GT) {
	pos := len(n.K)
	for i, k := range n.K {
		if isSel(k.T) {
			pos = i
			break
		}
	}
	k := append([]GT{}, n.K[:pos]...)
	k = append(k, d)
	n.K = append(k, n.K[pos:]...)
}
