package checks

import (
	"encoding/json"
	"fmt"
	"math/rand"
	"reflect"
	"sort"
	"strconv"
	"strings"
	"sync"

	"github.com/vektah/gqlparser/v2"
	"github.com/vektah/gqlparser/v2/ast"
	"github.com/vektah/gqlparser/v2/validator"

	"verif/harness/core"
	"verif/harness/tlc"
)

func init() {
	Registry["C14"] = checkC14
}

// ---- abstract values and types (mirror of Coerce.tla) ----

type JVal struct {
	K     string `json:"k"`
	I     int    `json:"i"`
	S     string `json:"s"`
	Items []JVal `json:"items"`
	Ents  []JEnt `json:"ents"`
}
type JEnt struct {
	Key string `json:"key"`
	V   JVal   `json:"v"`
}
type JType struct {
	K    string  `json:"k"`
	Name string  `json:"name"`
	NN   bool    `json:"nn"`
	Of   []JType `json:"of"`
}

func (t JType) String() string {
	s := t.Name
	if t.K == "list" {
		s = "[" + t.Of[0].String() + "]"
	}
	if t.NN {
		s += "!"
	}
	return s
}

func (v JVal) String() string {
	switch v.K {
	case "null":
		return "null"
	case "bool":
		return strconv.FormatBool(v.I == 1)
	case "int":
		return strconv.Itoa(v.I)
	case "float":
		return "float(" + v.S + ")"
	case "str":
		return strconv.Quote(v.S)
	case "num":
		return "json.Number(" + v.S + ")"
	case "list":
		p := make([]string, len(v.Items))
		for i, x := range v.Items {
			p[i] = x.String()
		}
		return "[" + strings.Join(p, ", ") + "]"
	case "map":
		p := make([]string, len(v.Ents))
		for i, e := range v.Ents {
			p[i] = e.Key + ": " + e.V.String()
		}
		return "{" + strings.Join(p, ", ") + "}"
	}
	return "?" + v.K
}

func jvNorm(v JVal) JVal {
	if v.Items == nil {
		v.Items = []JVal{}
	}
	if v.Ents == nil {
		v.Ents = []JEnt{}
	}
	for i := range v.Items {
		v.Items[i] = jvNorm(v.Items[i])
	}
	for i := range v.Ents {
		v.Ents[i].V = jvNorm(v.Ents[i].V)
	}
	return v
}

// toGo builds the Go value a caller would pass. variant selects among the
// Go kinds that JSON-like values come in (int / int32 / int64, float32/64,
// []interface{} or a typed slice when all items have one scalar kind).
func toGo(v JVal, variant int) interface{} {
	switch v.K {
	case "null":
		return nil
	case "bool":
		return v.I == 1
	case "int":
		switch variant % 3 {
		case 0:
			return v.I
		case 1:
			return int64(v.I)
		default:
			return int32(v.I)
		}
	case "float":
		f, _ := strconv.ParseFloat(v.S, 64)
		if variant%2 == 1 {
			return float32(f)
		}
		return f
	case "str":
		return v.S
	case "num":
		return json.Number(v.S)
	case "list":
		if variant%5 == 4 && len(v.Items) > 0 {
			allInt, allStr := true, true
			for _, x := range v.Items {
				if x.K != "int" {
					allInt = false
				}
				if x.K != "str" {
					allStr = false
				}
			}
			if allInt {
				out := make([]int, len(v.Items))
				for i, x := range v.Items {
					out[i] = x.I
				}
				return out
			}
			if allStr {
				out := make([]string, len(v.Items))
				for i, x := range v.Items {
					out[i] = x.S
				}
				return out
			}
		}
		out := make([]interface{}, len(v.Items))
		for i, x := range v.Items {
			out[i] = toGo(x, variant+i+1)
		}
		return out
	case "map":
		out := map[string]interface{}{}
		for i, e := range v.Ents {
			out[e.Key] = toGo(e.V, variant+i+1)
		}
		return out
	}
	return nil
}

// fromGo projects a coerced Go value back to the abstract form.
func fromGo(x interface{}) JVal {
	if x == nil {
		return JVal{K: "null"}
	}
	if n, ok := x.(json.Number); ok {
		return JVal{K: "num", S: string(n)}
	}
	rv := reflect.ValueOf(x)
	switch rv.Kind() {
	case reflect.Bool:
		if rv.Bool() {
			return JVal{K: "bool", I: 1}
		}
		return JVal{K: "bool"}
	case reflect.Int, reflect.Int8, reflect.Int16, reflect.Int32, reflect.Int64:
		return JVal{K: "int", I: int(rv.Int())}
	case reflect.Float32, reflect.Float64:
		return JVal{K: "float", S: strconv.FormatFloat(rv.Float(), 'g', 6, 64)}
	case reflect.String:
		return JVal{K: "str", S: rv.String()}
	case reflect.Slice:
		out := JVal{K: "list"}
		for i := 0; i < rv.Len(); i++ {
			out.Items = append(out.Items, fromGo(rv.Index(i).Interface()))
		}
		return out
	case reflect.Map:
		out := JVal{K: "map"}
		keys := rv.MapKeys()
		sort.Slice(keys, func(i, j int) bool { return keys[i].String() < keys[j].String() })
		for _, k := range keys {
			out.Ents = append(out.Ents, JEnt{Key: k.String(), V: fromGo(rv.MapIndex(k).Interface())})
		}
		return out
	case reflect.Ptr, reflect.Interface:
		if rv.IsNil() {
			return JVal{K: "null"}
		}
		return fromGo(rv.Elem().Interface())
	}
	return JVal{K: "go:" + rv.Kind().String()}
}

func jvEqual(a, b JVal) bool {
	if a.K != b.K {
		return false
	}
	switch a.K {
	case "float":
		fa, _ := strconv.ParseFloat(a.S, 64)
		fb, _ := strconv.ParseFloat(b.S, 64)
		return fa == fb
	case "list":
		if len(a.Items) != len(b.Items) {
			return false
		}
		for i := range a.Items {
			if !jvEqual(a.Items[i], b.Items[i]) {
				return false
			}
		}
		return true
	case "map":
		if len(a.Ents) != len(b.Ents) {
			return false
		}
		for _, e := range a.Ents {
			found := false
			for _, f := range b.Ents {
				if e.Key == f.Key {
					found = jvEqual(e.V, f.V)
				}
			}
			if !found {
				return false
			}
		}
		return true
	}
	return a.I == b.I && a.S == b.S
}

func literalOf(v JVal) string {
	switch v.K {
	case "int":
		return strconv.Itoa(v.I)
	case "list":
		p := make([]string, len(v.Items))
		for i, x := range v.Items {
			p[i] = literalOf(x)
		}
		return "[" + strings.Join(p, ", ") + "]"
	case "str":
		return strconv.Quote(v.S)
	case "map":
		p := make([]string, len(v.Ents))
		for i, e := range v.Ents {
			p[i] = e.Key + ": " + literalOf(e.V)
		}
		return "{" + strings.Join(p, ", ") + "}"
	}
	return "null"
}

const coerceSDL = `
enum E { RED GREEN }
scalar Any
input In { a: Int! b: [In] c: E = RED d: String! = "dflt" e: [[Int]] }
`

var (
	coerceSchemas sync.Map // type text -> *ast.Schema
	// renamedPhase: the cases of the bounded universe are replayed under the renaming E -> __TypeKind,
	// RED -> OBJECT, GREEN -> SCALAR, PURPLE -> BOGUS (the expectations are invariant under a renaming)
	renamedPhase bool
)

var coerceRenaming = map[string]string{"RED": "OBJECT", "GREEN": "SCALAR", "PURPLE": "BOGUS", "red": "object", "green": "scalar"}

func renameType(t JType) JType {
	if t.K == "named" && t.Name == "E" {
		t.Name = "__TypeKind"
	}
	of := make([]JType, len(t.Of))
	for i := range t.Of {
		of[i] = renameType(t.Of[i])
	}
	t.Of = of
	return t
}

func renameVal(v JVal) JVal {
	if (v.K == "str" || v.K == "num" || v.K == "enum") && coerceRenaming[v.S] != "" {
		v.S = coerceRenaming[v.S]
	}
	items := make([]JVal, len(v.Items))
	for i := range v.Items {
		items[i] = renameVal(v.Items[i])
	}
	v.Items = items
	ents := make([]JEnt, len(v.Ents))
	for i := range v.Ents {
		ents[i] = JEnt{Key: v.Ents[i].Key, V: renameVal(v.Ents[i].V)}
	}
	v.Ents = ents
	return v
}

func coerceSchemaFor(t string) (*ast.Schema, error) { return coerceSchemaVariant(t, false) }

// coerceSchemaVariant: narrow = a SECOND schema with the same type names whose enum E has one value only
// (what a process sees that serves two schemas: nothing learnt from one may be applied to the other)
func coerceSchemaVariant(t string, narrow bool) (*ast.Schema, error) {
	key := t
	sdl := coerceSDL
	if narrow {
		key = "narrow:" + t
		sdl = strings.Replace(coerceSDL, "enum E { RED GREEN }", "enum E { RED }", 1)
	}
	if renamedPhase {
		// the model's enum E stands for the BUILT-IN enum __TypeKind (RED = OBJECT, GREEN = SCALAR)
		key = "renamed:" + t
		sdl = "scalar Any\ninput In { a: Int! b: [In] c: __TypeKind = OBJECT d: String! = \"dflt\" e: [[Int]] }\n"
	}
	if s, ok := coerceSchemas.Load(key); ok {
		return s.(*ast.Schema), nil
	}
	s, err := gqlparser.LoadSchema(&ast.Source{Name: "coerce.graphql", Input: sdl + "type Query { f(x: " + t + "): Int }\n"})
	if err != nil {
		return nil, err
	}
	coerceSchemas.Store(key, s)
	return s, nil
}

type coerceCase struct {
	T     JType  `json:"t"`
	Def   []JVal `json:"def"`
	Given []JVal `json:"given"`
	Exp   struct {
		OK      bool `json:"ok"`
		Present bool `json:"present"`
		Val     JVal `json:"val"`
	} `json:"exp"`
}

type coerceObs struct {
	OK      bool   `json:"ok"`
	Present bool   `json:"present"`
	Val     JVal   `json:"val"`
	Err     string `json:"err,omitempty"`
	Crash   string `json:"crash,omitempty"`
}

// runCoerce validates `query($v: T = def) { f(x: $v) }` and coerces the variables map.
func runCoerce(t JType, def, given []JVal, variant int) (obs coerceObs, internal string) {
	return runCoerceOn(t, def, given, variant, false)
}

func runCoerceOn(t JType, def, given []JVal, variant int, narrow bool) (obs coerceObs, internal string) {
	tt := t.String()
	schema, err := coerceSchemaVariant(tt, narrow)
	if err != nil {
		return obs, "schema for " + tt + ": " + err.Error()
	}
	q := "query($v: " + tt
	if len(def) > 0 {
		q += " = " + literalOf(def[0])
	}
	q += ") { f(x: $v) }"
	doc, errs := gqlparser.LoadQuery(schema, q)
	if len(errs) > 0 {
		return obs, "operation " + q + " does not validate: " + errs.Error()
	}
	vars := map[string]interface{}{}
	if len(given) > 0 {
		vars["v"] = toGo(given[0], variant)
	}
	func() {
		defer func() {
			if r := recover(); r != nil {
				obs.Crash = fmt.Sprintf("panic: %v", r)
			}
		}()
		res, err := validator.VariableValues(schema, doc.Operations[0], vars)
		if err != nil {
			obs.Err = err.Error()
			return
		}
		obs.OK = true
		if x, ok := res["v"]; ok {
			obs.Present = true
			obs.Val = jvNorm(fromGo(x))
		}
	}()
	return obs, ""
}

func coerceDevs(c *core.Ctx) []string {
	fs, err := core.LoadFindings()
	if err != nil {
		c.Internal("known_findings.json: %v", err)
		return nil
	}
	var devs []string
	for _, f := range fs {
		if f.Property != "C14" || f.Status != "open" {
			continue
		}
		var w struct {
			T     JType `json:"t"`
			Given JVal  `json:"given"`
			OK    bool  `json:"ok"`
		}
		json.Unmarshal(f.Witness, &w)
		obs, internal := runCoerce(w.T, nil, []JVal{w.Given}, 0)
		if internal == "" && obs.Crash == "" && obs.OK == w.OK {
			devs = append(devs, f.Dev)
			c.Known(f.Dev, fmt.Sprintf("type %s value %s: %s", w.T, w.Given, f.What))
		} else {
			c.Logf("open finding %s no longer reproduces; the specification runs strict there", f.Dev)
		}
	}
	return devs
}

func checkC14(c *core.Ctx) {
	c.Rule = "cases are (variable type, default, supplied Go value) triples: (a) the bounded universe enumerated by TLC in Coerce_MC (every type of list depth <= D with every non-null pattern over Int, String, E, In, Any (+ Float, Boolean, ID in the thorough tier); conforming values and values with a defect at each depth: null, wrong kind, unknown / missing field, a __typename key beside a missing required field, single value for a list, the json.Number forms, strings in non-decimal integer syntax), each run through validate + VariableValues and compared with the expected result printed by the specification; (b) type-directed random values, deeper and wider, whose recorded outcome is re-computed by Coerce_Trace. Non-trivial = cases whose value is a list or a map or is rejected; distinct by (type, default, value)"
	c.Assumptions = []string{
		"Coerce.tla is the reading of CoerceVariableValues with the library's documented scalar kind table (DESIGN.md appendix B)",
		"Go values are built from the abstract value in several JSON-like Go kinds (int/int32/int64, float32/64, json.Number, []interface{}, typed slices, map[string]interface{}); the projection of results back is trusted",
		"the key __typename inside input objects is tolerated with any value and kept (the library's documented behaviour, modelled in Coerce.tla)",
	}
	devs := coerceDevs(c)
	c.SetExtra("deviations_enabled", devs)
	D := 1
	leaves := `{"Int", "String", "E", "In", "Any"}`
	if c.Thorough() {
		D = 2
		leaves = `{"Int", "Float", "String", "Boolean", "ID", "E", "In", "Any"}`
	}
	cfg := fmt.Sprintf("SPECIFICATION Spec\nCONSTANTS\n  Devs = %s\n  D = %d\n  Leaves = %s\nINVARIANTS Emit Sound Idempotent Identity Complete\nCHECK_DEADLOCK FALSE\n", core.DevSetTLA(devs), D, leaves)
	narrow := false
	label := "Coerce_MC"
	phaseNo := 0
	renamedPhase = false
phase:
	var mu sync.Mutex
	var ncases, nontrivial, nbad int64
	lines := make(chan string, 4096)
	var wg sync.WaitGroup
	for w := 0; w < 12; w++ {
		wg.Add(1)
		go func() {
			defer wg.Done()
			for line := range lines {
				js, ok := tlc.PrintedJSON(line, "CASE")
				if !ok {
					continue
				}
				var cs coerceCase
				if err := json.Unmarshal([]byte(js), &cs); err != nil {
					mu.Lock()
					nbad++
					mu.Unlock()
					continue
				}
				if renamedPhase {
					cs.T = renameType(cs.T)
					for i := range cs.Def {
						cs.Def[i] = renameVal(cs.Def[i])
					}
					for i := range cs.Given {
						cs.Given[i] = renameVal(cs.Given[i])
					}
					cs.Exp.Val = renameVal(cs.Exp.Val)
				}
				cs.Exp.Val = jvNorm(cs.Exp.Val)
				for variant := 0; variant < 5; variant++ {
					obs, internal := runCoerceOn(cs.T, cs.Def, cs.Given, variant, narrow)
					if internal != "" {
						c.Internal("%s", internal)
						break
					}
					what := ""
					switch {
					case obs.Crash != "":
						what = obs.Crash
					case obs.OK != cs.Exp.OK:
						what = fmt.Sprintf("expected ok=%v, got ok=%v (%s)", cs.Exp.OK, obs.OK, obs.Err)
					case obs.OK && obs.Present != cs.Exp.Present:
						what = fmt.Sprintf("expected variable present=%v, got %v", cs.Exp.Present, obs.Present)
					case obs.OK && obs.Present && !jvEqual(cs.Exp.Val, obs.Val):
						what = fmt.Sprintf("expected coerced value %s, got %s", cs.Exp.Val, obs.Val)
					}
					if what != "" {
						given := "(absent)"
						if len(cs.Given) > 0 {
							given = cs.Given[0].String()
						}
						c.Violation(fmt.Sprintf("%s case: $v: %s, value %s (Go kinds variant %d): %s", label, cs.T, given, variant, what),
							map[string]any{"case": cs, "variant": variant, "observed": obs})
						break
					}
				}
				mu.Lock()
				ncases++
				if len(cs.Given) > 0 && (cs.Given[0].K == "list" || cs.Given[0].K == "map" || !cs.Exp.OK) {
					nontrivial++
				}
				if ncases <= 3 {
					c.Sample(map[string]any{"source": "Coerce_MC", "type": cs.T.String(), "given": cs.Given, "expected": cs.Exp})
				}
				mu.Unlock()
			}
		}()
	}
	r := c.RunTLC(tlc.Opts{Module: "Coerce_MC", CfgText: cfg, Workers: 8, Heap: "8g", LineFn: func(l string) { lines <- l }})
	close(lines)
	wg.Wait()
	tlc.Cleanup(r)
	if c.HasInternal() {
		return
	}
	if nbad > 0 || ncases != r.Distinct {
		c.Internal("Coerce_MC: %d cases received (%d unparsable) for %d states", ncases, nbad, r.Distinct)
		return
	}
	c.Count(ncases*5, nontrivial, ncases)
	c.Logf("%s: %d cases (x5 Go-kind variants) replayed into validator.VariableValues", label, ncases)
	phaseNo++
	if phaseNo == 1 {
		// second phase, same process: a SECOND schema with the same type names but enum E { RED } only;
		// the specification is evaluated for that schema (switch SCHEMA2)
		narrow = true
		label = "Coerce_MC on a second schema (enum E { RED })"
		cfg = fmt.Sprintf("SPECIFICATION Spec\nCONSTANTS\n  Devs = %s\n  D = 1\n  Leaves = {\"E\", \"In\"}\nINVARIANTS Emit Sound Idempotent Identity Complete\nCHECK_DEADLOCK FALSE\n", core.DevSetTLA(append(append([]string{}, devs...), "SCHEMA2")))
		goto phase
	}
	if phaseNo == 2 {
		// third phase: the enum of the model is a BUILT-IN enum of the prelude (__TypeKind); the same cases under
		// the renaming, on a schema whose input object refers to it
		renamedPhase = true
		narrow = false
		label = "Coerce_MC under the renaming E -> __TypeKind (a built-in enum)"
		cfg = fmt.Sprintf("SPECIFICATION Spec\nCONSTANTS\n  Devs = %s\n  D = 1\n  Leaves = {\"E\", \"In\"}\nINVARIANTS Emit Sound Idempotent Identity Complete\nCHECK_DEADLOCK FALSE\n", core.DevSetTLA(devs))
		goto phase
	}
	renamedPhase = false

	// (b) random, deeper
	n := 3000
	if c.Thorough() {
		n = 200000
	}
	rng := rand.New(rand.NewSource(c.Seed*86028121 + 14))
	var tlines [][]byte
	var events []int64
	type rec struct {
		t     JType
		given JVal
		obs   coerceObs
		v     int
	}
	recs := map[int]rec{}
	var nt2 int64
	for i := 0; i < n; i++ {
		t := randType(rng, 3)
		v := randValue(rng, t, 4, true)
		variant := rng.Intn(5)
		obs, internal := runCoerce(t, nil, []JVal{v}, variant)
		if internal != "" {
			c.Internal("%s", internal)
			return
		}
		if obs.Crash != "" {
			c.Violation(fmt.Sprintf("random case: $v: %s, value %s: %s", t, v, obs.Crash), map[string]any{"t": t, "given": v, "observed": obs})
			continue
		}
		b, _ := json.Marshal(map[string]any{"id": i, "t": t, "given": jvNorm(v), "ok": obs.OK, "val": jvNorm(obs.Val)})
		tlines = append(tlines, b)
		events = append(events, 1)
		recs[i] = rec{t, v, obs, variant}
		if v.K == "list" || v.K == "map" {
			nt2++
		}
	}
	tcfg := "SPECIFICATION Spec\nCONSTANTS\n  Devs = " + core.DevSetTLA(devs) + "\nCHECK_DEADLOCK FALSE\n"
	bad, ok := RunTrace(c, TraceJob{Module: "Coerce_Trace", CfgText: tcfg, Lines: tlines, Events: events, Shards: 12, Stack: "256m"})
	if ok {
		c.Count(int64(len(tlines)), nt2, int64(len(tlines)))
		c.Logf("Coerce_Trace: %d random (type, value) outcomes re-computed by the specification, %d disagreements", len(tlines), len(bad))
		for _, raw := range bad {
			var b struct {
				ID    int    `json:"id"`
				Class string `json:"class"`
				Exp   JVal   `json:"exp"`
			}
			json.Unmarshal(raw, &b)
			rc := recs[b.ID]
			c.Violation(fmt.Sprintf("Coerce_Trace: $v: %s, value %s (variant %d): %s; observed ok=%v val=%s err=%q; specification expects %s", rc.t, rc.given, rc.v, b.Class, rc.obs.OK, rc.obs.Val, rc.obs.Err, b.Exp),
				map[string]any{"t": rc.t, "given": rc.given, "observed": rc.obs, "what": b.Class})
		}
	}
}

var coerceLeaves = []string{"Int", "Float", "String", "Boolean", "ID", "E", "In", "Any"}

func randType(r *rand.Rand, depth int) JType {
	if depth > 0 && r.Intn(2) == 0 {
		return JType{K: "list", NN: r.Intn(2) == 0, Of: []JType{randType(r, depth-1)}}
	}
	return JType{K: "named", Name: coerceLeaves[r.Intn(len(coerceLeaves))], NN: r.Intn(2) == 0, Of: []JType{}}
}

var coerceStrings = []string{"12", "-3", "7", "1.5", "1e3", "x", "RED", "GREEN", "red", "PURPLE", "zz"}

// randValue: mostly conforming for t, with a defect injected with small probability at every level.
func randValue(r *rand.Rand, t JType, depth int, top bool) JVal {
	if r.Intn(9) == 0 {
		// defect: anything
		switch r.Intn(7) {
		case 0:
			return JVal{K: "null"}
		case 1:
			return JVal{K: "bool", I: r.Intn(2)}
		case 2:
			return JVal{K: "str", S: coerceStrings[r.Intn(len(coerceStrings))]}
		case 3:
			return JVal{K: "num", S: []string{"7", "1.5", "zz", "12"}[r.Intn(4)]}
		case 4:
			return JVal{K: "list", Items: []JVal{{K: "int", I: 5}}}
		case 5:
			return JVal{K: "map", Ents: []JEnt{{Key: "zz", V: JVal{K: "int", I: 1}}}}
		default:
			return JVal{K: "float", S: "1.5"}
		}
	}
	if !t.NN && r.Intn(6) == 0 {
		return JVal{K: "null"}
	}
	if t.K == "list" {
		if r.Intn(5) == 0 || depth <= 0 {
			return randValue(r, t.Of[0], depth-1, false) // single value for a list
		}
		out := JVal{K: "list"}
		for i := r.Intn(4); i > 0; i-- {
			out.Items = append(out.Items, randValue(r, t.Of[0], depth-1, false))
		}
		return out
	}
	switch t.Name {
	case "Int":
		return []JVal{{K: "int", I: r.Intn(100) - 50}, {K: "float", S: "1.5"}, {K: "str", S: "12"}, {K: "num", S: "7"}}[r.Intn(4)]
	case "Float":
		return []JVal{{K: "float", S: "1.5"}, {K: "int", I: 3}, {K: "str", S: "1e3"}, {K: "num", S: "1.5"}}[r.Intn(4)]
	case "String":
		return JVal{K: "str", S: coerceStrings[r.Intn(len(coerceStrings))]}
	case "Boolean":
		return JVal{K: "bool", I: r.Intn(2)}
	case "ID":
		return []JVal{{K: "int", I: 7}, {K: "str", S: "x"}, {K: "num", S: "12"}}[r.Intn(3)]
	case "E":
		return JVal{K: "str", S: []string{"RED", "GREEN", "RED", "red", "PURPLE"}[r.Intn(5)]}
	case "Any":
		return randValue(r, randType(r, 1), depth-1, false)
	case "In":
		out := JVal{K: "map"}
		if r.Intn(8) != 0 {
			out.Ents = append(out.Ents, JEnt{Key: "a", V: randValue(r, JType{K: "named", Name: "Int", NN: true}, depth-1, false)})
		}
		if depth > 0 && r.Intn(3) == 0 {
			out.Ents = append(out.Ents, JEnt{Key: "b", V: randValue(r, JType{K: "list", Of: []JType{{K: "named", Name: "In"}}}, depth-1, false)})
		}
		if r.Intn(3) == 0 {
			out.Ents = append(out.Ents, JEnt{Key: "c", V: randValue(r, JType{K: "named", Name: "E"}, depth-1, false)})
		}
		if r.Intn(3) == 0 {
			out.Ents = append(out.Ents, JEnt{Key: "d", V: randValue(r, JType{K: "named", Name: "String", NN: true}, depth-1, false)})
		}
		if r.Intn(12) == 0 {
			out.Ents = append(out.Ents, JEnt{Key: "zz", V: JVal{K: "int", I: 1}})
		}
		return out
	}
	return JVal{K: "null"}
}
