package checks

import (
	"os"

	"verif/harness/core"
)

func readFile(p string) ([]byte, error) { return os.ReadFile(p) }

// CurCtx is the context of the running check (set by the CLI); guard brackets
// a call of the real code for the in-process monitor of core (Enter).
var CurCtx *core.Ctx

func guard(desc string, input any) func() {
	if CurCtx == nil {
		return func() {}
	}
	return CurCtx.Enter(desc, input)
}
