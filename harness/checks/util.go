package checks

import "os"

func readFile(p string) ([]byte, error) { return os.ReadFile(p) }
