package checks

import (
	"encoding/json"
	"errors"
	"fmt"
	"math/rand"
	"regexp"
	"sort"
	"strings"
	"unicode/utf8"

	"github.com/vektah/gqlparser/v2"
	"github.com/vektah/gqlparser/v2/ast"
	"github.com/vektah/gqlparser/v2/gqlerror"
	"github.com/vektah/gqlparser/v2/lexer"
	"github.com/vektah/gqlparser/v2/parser"
	"github.com/vektah/gqlparser/v2/validator"

	"verif/harness/core"
	"verif/harness/tlc"
)

func init() {
	Registry["C20"] = checkC20
}

type errJSON struct {
	Keys        []string   `json:"keys"`
	LocKeys     [][]string `json:"locKeys"`
	LocVals     []int      `json:"locVals"`
	PathKinds   []string   `json:"pathKinds"`
	MsgIsString bool       `json:"msgIsString"`
}

type errRec struct {
	ID       int      `json:"id"`
	Origin   string   `json:"origin"`
	MsgLen   int      `json:"msgLen"`
	Rule     string   `json:"rule"`
	Rules    []string `json:"rules"`
	Locs     [][]int  `json:"locs"`
	File     string   `json:"file"`
	SrcNames []string `json:"srcNames"`
	JSON     errJSON  `json:"json"`
	// LocsInFile: for every location, whether that line and column exist in the text of the file the error names
	// (empty when the texts of the sources are not at hand)
	LocsInFile []bool `json:"locsInFile"`
	msg        string
	desc     string
}

var reQuoted = regexp.MustCompile(`"(?:[^"\\]|\\.)*"`)
var reDigits = regexp.MustCompile(`[0-9]+`)

func template(msg string) string {
	return reDigits.ReplaceAllString(reQuoted.ReplaceAllString(msg, `"X"`), "N")
}

// curErrTexts: name -> text of the sources of the call whose errors are being recorded (nil: not at hand)
var curErrTexts map[string]string

func locInText(text string, line, col int) bool {
	n := 1
	start := 0
	rs := []rune(strings.ReplaceAll(strings.ReplaceAll(text, "\r\n", "\n"), "\r", "\n"))
	for i, r := range rs {
		if n == line {
			start = i
			break
		}
		if r == '\n' {
			n++
			start = i + 1
		}
	}
	if n != line {
		return false
	}
	end := start
	for end < len(rs) && rs[end] != '\n' {
		end++
	}
	return col >= 1 && col <= end-start+1
}

func projectErrRec(origin string, err error, rules []string, srcNames []string) (errRec, string) {
	r := errRec{Origin: origin, Rules: rules, SrcNames: srcNames, Locs: [][]int{}, LocsInFile: []bool{}}
	if r.Rules == nil {
		r.Rules = []string{}
	}
	var ge *gqlerror.Error
	if !errors.As(err, &ge) {
		ge = gqlerror.WrapIfUnwrapped(err)
	}
	r.msg = ge.Message
	r.MsgLen = utf8.RuneCountInString(ge.Message)
	r.Rule = ge.Rule
	for _, l := range ge.Locations {
		r.Locs = append(r.Locs, []int{l.Line, l.Column})
	}
	if f, ok := ge.Extensions["file"].(string); ok {
		r.File = f
	}
	if text, ok := curErrTexts[r.File]; ok {
		for _, l := range ge.Locations {
			r.LocsInFile = append(r.LocsInFile, locInText(text, l.Line, l.Column))
		}
	}
	b, merr := json.Marshal(ge)
	if merr != nil {
		return r, "error does not encode to JSON: " + merr.Error()
	}
	var m map[string]json.RawMessage
	if uerr := json.Unmarshal(b, &m); uerr != nil {
		return r, "JSON encoding of the error is not an object: " + uerr.Error()
	}
	r.JSON = errJSON{Keys: []string{}, LocKeys: [][]string{}, LocVals: []int{}, PathKinds: []string{}}
	for k := range m {
		r.JSON.Keys = append(r.JSON.Keys, k)
	}
	sort.Strings(r.JSON.Keys)
	var s string
	r.JSON.MsgIsString = json.Unmarshal(m["message"], &s) == nil
	if raw, ok := m["locations"]; ok {
		var locs []map[string]json.RawMessage
		if json.Unmarshal(raw, &locs) != nil {
			return r, "JSON locations is not a list of objects"
		}
		for _, l := range locs {
			var ks []string
			for k, v := range l {
				ks = append(ks, k)
				var n int
				if json.Unmarshal(v, &n) != nil {
					return r, "JSON location member is not an integer"
				}
				r.JSON.LocVals = append(r.JSON.LocVals, n)
			}
			sort.Strings(ks)
			r.JSON.LocKeys = append(r.JSON.LocKeys, ks)
		}
		// a location whose line or column is zero is dropped from the JSON by omitempty: count what is missing
		if len(locs) != len(ge.Locations) {
			return r, "JSON encoding drops locations"
		}
	}
	if raw, ok := m["path"]; ok {
		var els []interface{}
		if json.Unmarshal(raw, &els) != nil {
			return r, "JSON path is not a list"
		}
		for _, e := range els {
			switch e.(type) {
			case string:
				r.JSON.PathKinds = append(r.JSON.PathKinds, "s")
			case float64:
				r.JSON.PathKinds = append(r.JSON.PathKinds, "i")
			default:
				r.JSON.PathKinds = append(r.JSON.PathKinds, "?")
			}
		}
		// the path decodes back to the same path
		var back struct {
			Path ast.Path `json:"path"`
		}
		if json.Unmarshal(b, &back) != nil || !samePath(back.Path, ge.Path) {
			return r, fmt.Sprintf("error path %v does not survive JSON encode/decode (got %v)", ge.Path, back.Path)
		}
	}
	return r, ""
}

func samePath(a, b ast.Path) bool {
	if len(a) != len(b) {
		return false
	}
	for i := range a {
		switch x := a[i].(type) {
		case ast.PathName:
			y, ok := b[i].(ast.PathName)
			if !ok || x != y {
				return false
			}
		case ast.PathIndex:
			y, ok := b[i].(ast.PathIndex)
			if !ok || x != y {
				return false
			}
		}
	}
	return true
}

type tlaPathEl struct {
	K string          `json:"k"`
	V json.RawMessage `json:"v"`
}

func checkC20(c *core.Ctx) {
	c.Rule = "errors are provoked by error-biased drivers from every entry point: the lexer (unlexable material), both parsers on single-token mutations of generated documents (named sources), the limited entry points under small limits, LoadSchema on fault-injected type systems split over several named files, Validate on fault-injected and type-blind documents under the default rule set and random subsets, Validate under the default rule set after rules were registered through AddRule and ReplaceRule (of an unregistered name, of a specified rule; the registry is restored afterwards), VariableValues on defective values (including map keys with control characters, quotes and non-ASCII text, which end up in the error path). One record per error, checked by Errors_Trace for well-formedness (message, rule, locations, file, JSON shape); every error path must survive JSON encode/decode. Separately all 5461 paths over two names and two indices up to length 6 (printed by Errors_MC) are pushed through json.Marshal of an error and ast.Path.UnmarshalJSON under four name alphabets. Non-trivial = errors counted by distinct message template; distinct by (origin, message, location)"
	c.Assumptions = []string{"the JSON shape is the response-format shape: only message, locations, path, extensions at top level, locations are {line, column} with positive numbers", "message templates are normalised by replacing quoted strings and numbers"}
	devs := []string{}
	if fs, err := core.LoadFindings(); err == nil {
		for _, f := range fs {
			if f.Property == "C20" && f.Status == "open" && f.Dev == "LimitErrorBare" {
				_, err := parser.ParseQueryWithTokenLimit(&ast.Source{Name: "named.graphql", Input: "{ a b c }"}, 2)
				var ge *gqlerror.Error
				if err != nil && !errors.As(err, &ge) {
					devs = append(devs, f.Dev)
					c.Known(f.Dev, `source "named.graphql" text "{ a b c }" limit 2: `+f.What)
				}
			}
		}
	}
	// path codec, M->C
	var npaths, nbadlines int
	alphabets := []map[string]string{{"a": "a", "b": "b"}, {"a": "b\x01c", "b": "é\"q"}, {"a": "b\x7fc", "b": `x\y`}, {"a": "", "b": "\U000E0001\v"}}
	r := c.RunTLC(tlc.Opts{Module: "Errors_MC", CfgFile: "Errors_MC.cfg", Workers: 4, LineFn: func(l string) {
		js, ok := tlc.PrintedJSON(l, "CASE")
		if !ok {
			return
		}
		var pc struct {
			Path []tlaPathEl `json:"path"`
		}
		if json.Unmarshal([]byte(js), &pc) != nil {
			nbadlines++
			return
		}
		npaths++
		for _, al := range alphabets {
			var p ast.Path
			for _, e := range pc.Path {
				if e.K == "n" {
					var s string
					json.Unmarshal(e.V, &s)
					p = append(p, ast.PathName(al[s]))
				} else {
					var n int
					json.Unmarshal(e.V, &n)
					p = append(p, ast.PathIndex(n))
				}
			}
			ge := &gqlerror.Error{Message: "m", Path: p}
			b, err := json.Marshal(ge)
			if err != nil {
				c.Violation(fmt.Sprintf("error with path %v does not encode to JSON: %v", p, err), map[string]any{"path": fmt.Sprint(p)})
				continue
			}
			var back struct {
				Path ast.Path `json:"path"`
			}
			if err := json.Unmarshal(b, &back); err != nil || !samePath(back.Path, p) {
				if len(p) == 0 && len(back.Path) == 0 {
					continue
				}
				c.Violation(fmt.Sprintf("path %q encodes to %s and decodes to %q (%v)", fmt.Sprint(p), b, fmt.Sprint(back.Path), err), map[string]any{"path": fmt.Sprint(p), "json": string(b)})
			}
		}
	}})
	tlc.Cleanup(r)
	if c.HasInternal() {
		return
	}
	if nbadlines > 0 || int64(npaths)*2 != r.Distinct {
		c.Internal("Errors_MC: %d paths received (%d unparsable) for %d states", npaths, nbadlines, r.Distinct)
		return
	}
	c.Count(int64(npaths*len(alphabets)), int64(npaths), int64(npaths))
	c.Logf("Errors_MC: %d paths x %d name alphabets through json.Marshal / Path.UnmarshalJSON", npaths, len(alphabets))

	// error census
	n := 300
	if c.Thorough() {
		n = 20000
	}
	rng := rand.New(rand.NewSource(c.Seed*160481183 + 20))
	var recs []errRec
	templates := map[string]int{}
	add := func(origin string, err error, rules, srcNames []string, desc string) {
		if err == nil {
			return
		}
		rec, bad := projectErrRec(origin, err, rules, srcNames)
		rec.desc = desc
		if bad != "" {
			c.Violation(fmt.Sprintf("%s error %q: %s; %s", origin, rec.msg, bad, desc), map[string]any{"origin": origin, "message": rec.msg, "what": bad, "input": desc})
			return
		}
		rec.ID = len(recs) + 1
		recs = append(recs, rec)
		templates[origin+": "+template(rec.msg)]++
	}
	tg := &TGen{R: rng}
	qg := &QGen{R: rng, MaxDepth: 3}
	sg := &SGen{R: rng, Q: &QGen{R: rng, MaxDepth: 2}}
	// hand-written unlexable inputs: multi-byte text before every kind of line terminator, inside block
	// strings, comments and ignored text, then an error early on the following line
	for _, in := range []string{
		"\"\"\"éé日本語\r\nab", "\"\"\"éé日本語\rab", "\"\"\"éé日本語\nab", "\"\"\"\U0001F600\U0001F600\r\n\x01", "\"\"\"日本\r\n日本\r\n\"\"\" ?",
		"# éé日本語\r\n?", "# éé日本語\r?", "\"éé日本語\" \r\n\"x", "\ufeff\ufeff\r\n'", "a # \U0001F600\n\"\\q\"", "\"\"\"é\r\n\"\"\"\r\n..",
		"\"\"\"日\n本\r語\r\né\"\"\"\"\"\"\"\"\"\"x",
	} {
		lx := lexer.New(&ast.Source{Name: "lex.graphql", Input: in})
		for k := 0; k < 50; k++ {
			t, err := lx.ReadToken()
			if err != nil {
				add("lex", err, nil, []string{"lex.graphql"}, fmt.Sprintf("input %q", in))
				break
			}
			if t.Kind == lexer.EOF {
				break
			}
		}
		if _, err := parser.ParseQuery(&ast.Source{Name: "q.graphql", Input: in}); err != nil {
			add("parse", err, nil, []string{"q.graphql"}, fmt.Sprintf("query %q", in))
		}
		if _, err := parser.ParseSchema(&ast.Source{Name: "s.graphql", Input: in}); err != nil {
			add("parse", err, nil, []string{"s.graphql"}, fmt.Sprintf("schema %q", in))
		}
	}
	for i := 0; i < n; i++ {
		// lexer
		in := GenLexInput(rng, 3+rng.Intn(10)) + []string{"?", "\"abc", "\"\\q\"", "1.", "..", "\x01", "\"\"\"x", "0x", "-", "'a'"}[rng.Intn(10)]
		lx := lexer.New(&ast.Source{Name: "lex.graphql", Input: in})
		for k := 0; k < 200; k++ {
			t, err := lx.ReadToken()
			if err != nil {
				add("lex", err, nil, []string{"lex.graphql"}, fmt.Sprintf("input %q", clip(in, 200)))
				break
			}
			if t.Kind == lexer.EOF {
				break
			}
		}
		// parsers on mutations
		qt, _ := MutateTokens(UnparseQuery(qg.Doc(), rng), rng, queryMutPool)
		qtext := RenderIgnored(qt, rng)
		_, err := parser.ParseQuery(&ast.Source{Name: "q.graphql", Input: qtext})
		add("parse", err, nil, []string{"q.graphql"}, fmt.Sprintf("query %q", clip(qtext, 200)))
		st, _ := MutateTokens(UnparseSchema(sg.Doc(), rng), rng, schemaMutPool)
		stext := RenderIgnored(st, rng)
		_, err = parser.ParseSchema(&ast.Source{Name: "s.graphql", Input: stext})
		add("parse", err, nil, []string{"s.graphql"}, fmt.Sprintf("schema %q", clip(stext, 200)))
		// limits
		if i%4 == 0 {
			vt := RenderSpaces(UnparseQuery(qg.Doc(), nil))
			_, err = parser.ParseQueryWithTokenLimit(&ast.Source{Name: "q.graphql", Input: vt}, 1+rng.Intn(3))
			if err != nil && strings.Contains(err.Error(), "token limit") {
				add("limit", err, nil, []string{"q.graphql"}, fmt.Sprintf("limited query %q", clip(vt, 120)))
			}
			vs := RenderSpaces(UnparseSchema(sg.Doc(), nil))
			_, err = parser.ParseSchemasWithLimit(1+rng.Intn(3), &ast.Source{Name: "s.graphql", Input: vs})
			if err != nil && strings.Contains(err.Error(), "token limit") {
				add("limit", err, nil, []string{"s.graphql"}, fmt.Sprintf("limited schema %q", clip(vs, 120)))
			}
		}
		// loading, several named files (file names unique to this load: an error must name one of THEM)
		gs := tg.Gen()
		if i == 0 {
			// an early load that extends built-in definitions; nothing of it may show up in later errors
			gqlparser.LoadSchema(&ast.Source{Name: "early.graphql", Input: "directive @tag on SCALAR | OBJECT\nextend scalar String @tag\nextend type __Type @tag\ntype Query { a: String }"})
		}
		loadNamed := func(items []SDLItem, involved []string, what string) {
			v := permuteItems(items, rng, involved)
			var names []string
			for k, s := range v.Sources {
				s.Name = fmt.Sprintf("load%d_%d.graphql", i, k)
				names = append(names, s.Name)
			}
			curErrTexts = map[string]string{}
			for _, s := range v.Sources {
				curErrTexts[s.Name] = s.Input
			}
			_, err := gqlparser.LoadSchema(v.Sources...)
			add("load", err, nil, append(names, "prelude.graphql"), what)
			curErrTexts = nil
		}
		loadNamed(gs.doc.Items(), nil, "valid generated schema")
		if f := tg.InjectFault(gs); f != nil {
			loadNamed(gs.doc.Items(), f.Involved, "faulty schema: "+f.What)
		}
	}
	// rule violations whose two halves stand in different files, one file per item, laid out differently: every
	// location of the error exists in the file the error names
	for fi, its := range crossFileFaults {
		for _, rev := range []bool{false, true} {
			var srcs []*ast.Source
			var names []string
			curErrTexts = map[string]string{}
			for k := range its {
				j := k
				if rev {
					j = len(its) - 1 - k
				}
				pad := strings.Repeat("\n", 2*j) + strings.Repeat(" ", 3*j+1)
				s := &ast.Source{Name: fmt.Sprintf("cross%d_%d.graphql", fi, j), Input: "# file\n" + pad + strings.ReplaceAll(its[j], " { ", " {\n"+pad+"  ")}
				srcs = append(srcs, s)
				names = append(names, s.Name)
				curErrTexts[s.Name] = s.Input
			}
			_, err := gqlparser.LoadSchema(srcs...)
			add("load", err, nil, append(names, "prelude.graphql"), fmt.Sprintf("items in one file each: %q", its))
			curErrTexts = nil
		}
	}
	// hand-written type systems (most of them ill-formed), each in a named file of its own
	for hi, sdl := range handSchemas {
		name := fmt.Sprintf("hand%d.graphql", hi)
		_, err := gqlparser.LoadSchema(&ast.Source{Name: name, Input: sdl})
		add("load", err, nil, []string{name, "prelude.graphql"}, fmt.Sprintf("hand-written schema %q", clip(sdl, 200)))
	}
	// the hand-written documents of C08 / C18 under the without-suggestions variants of the rules
	if hs, err := gqlparser.LoadSchema(&ast.Source{Name: "hand.graphql", Input: handRuleSDL}); err == nil {
		vrs := append([]validator.Rule{}, standardRules...)
		var vnames []string
		for k := range vrs {
			for _, v := range variantRules {
				if vrs[k].Name == v.Base.Name {
					vrs[k] = v.Variant
				}
			}
			vnames = append(vnames, vrs[k].Name)
		}
		for _, q := range append(append([]string{}, handRuleDocs...), handComposeDocs...) {
			doc, perr := parser.ParseQuery(&ast.Source{Name: "q.graphql", Input: q})
			if perr != nil {
				continue
			}
			func() {
				defer func() { recover() }()
				for _, e := range validator.Validate(hs, doc, vrs...) {
					add("validate", e, vnames, []string{"q.graphql"}, fmt.Sprintf("document %q (rules without suggestions)", clip(q, 300)))
				}
			}()
		}
	}
	// rules registered through the package's own registry (AddRule, ReplaceRule of a name that is not registered
	// yet, ReplaceRule of a specified rule): errors of the DEFAULT rule set must still name their rule.
	if hs, err := gqlparser.LoadSchema(&ast.Source{Name: "hand.graphql", Input: handRuleSDL}); err == nil {
		probe := func(tag string) validator.RuleFunc {
			return func(observers *validator.Events, addError validator.AddErrFunc) {
				observers.OnField(func(walker *validator.Walker, field *ast.Field) {
					if field.Name == "s" {
						addError(validator.Message("verif probe %s", tag), validator.At(field.Position))
					}
				})
			}
		}
		var replacedName string
		var replacedFn validator.RuleFunc
		for _, rl := range standardRules {
			if rl.Name == "KnownDirectives" {
				replacedName, replacedFn = rl.Name, rl.RuleFunc
			}
		}
		func() {
			validator.AddRule("VerifAdded", probe("added"))
			validator.ReplaceRule("VerifReplacedNew", probe("replaced-new"))
			if replacedFn != nil {
				validator.ReplaceRule(replacedName, probe("replaced-existing"))
			}
			defer func() {
				validator.RemoveRule("VerifAdded")
				validator.RemoveRule("VerifReplacedNew")
				if replacedFn != nil {
					validator.ReplaceRule(replacedName, replacedFn)
				}
			}()
			names := []string{"VerifAdded", "VerifReplacedNew"}
			for _, rl := range standardRules {
				names = append(names, rl.Name)
			}
			want := map[string]string{"verif probe added": "VerifAdded", "verif probe replaced-new": "VerifReplacedNew", "verif probe replaced-existing": replacedName}
			for _, q := range []string{`{ s }`, `{ s a { nope } @nodir }`, `query Q($u: Int) { k: s ...F } fragment F on Query { s @skip(if: 3) }`} {
				doc, perr := parser.ParseQuery(&ast.Source{Name: "q.graphql", Input: q})
				if perr != nil {
					continue
				}
				seen := map[string]bool{}
				for _, e := range validator.Validate(hs, doc) {
					add("validate", e, names, []string{"q.graphql"}, fmt.Sprintf("document %q under the default rule set after AddRule / ReplaceRule", q))
					if r, ok := want[e.Message]; ok {
						seen[e.Message] = true
						if e.Rule != r {
							c.Violation(fmt.Sprintf("error %q of the rule registered as %q carries rule %q; document %q", e.Message, r, e.Rule, q), map[string]any{"message": e.Message, "registered": r, "rule": e.Rule, "document": q})
						}
					}
				}
				for m, r := range want {
					if !seen[m] && r != "" {
						c.Violation(fmt.Sprintf("the rule registered as %q did not run under the default rule set; document %q", r, q), map[string]any{"registered": r, "document": q})
					}
				}
			}
		}()
		// the registry is as it was: no probe error any more
		if doc, perr := parser.ParseQuery(&ast.Source{Name: "q.graphql", Input: "{ s }"}); perr == nil {
			if errs := validator.Validate(hs, doc); len(errs) > 0 {
				c.Violation(fmt.Sprintf("after RemoveRule / ReplaceRule back, the default rule set still reports %v on { s }", errs), map[string]any{"errors": fmt.Sprint(errs)})
			}
		}
	}
	// validation and coercion on a few schemas
	nsch := 2
	if c.Thorough() {
		nsch = 25
	}
	noSchema := false
	for si := 0; si < nsch; si++ {
		var schema *ast.Schema
		var sdl string
		for try := 0; try < 20 && schema == nil; try++ {
			gs := tg.Gen()
			sdl = gs.doc.SDL()
			if l, s, crash := loadReal([]*ast.Source{{Name: "schema.graphql", Input: sdl}}); crash == "" && l.OK {
				schema = s
			}
		}
		if schema == nil {
			// either the generator is broken or loading itself is: decided after the errors collected so far were examined
			noSchema = true
			break
		}
		dg := &DGen{R: rng, S: schema}
		vocab := schemaVocabulary(schema)
		for i := 0; i < n/2; i++ {
			var text string
			if i%4 == 3 {
				text = RenderSpaces(UnparseQuery(renameToVocabulary(qg.Doc(), vocab, rng), nil))
			} else {
				doc := dg.Doc()
				for k := 0; k < 1+rng.Intn(3); k++ {
					InjectDocFault(dg, &doc, rng)
				}
				if i%5 == 0 {
					misspell(&doc, rng)
				}
				text = RenderSpaces(UnparseQuery(doc, nil))
			}
			doc, perr := parser.ParseQuery(&ast.Source{Name: "q.graphql", Input: text})
			if perr != nil {
				continue
			}
			rs := standardRules
			if i%3 == 0 {
				perm := rng.Perm(len(standardRules))
				rs = nil
				for _, p := range perm[:5+rng.Intn(10)] {
					rs = append(rs, standardRules[p])
				}
			}
			if i%4 == 1 {
				// the without-suggestions variants in place of their base rules
				rs = append([]validator.Rule{}, rs...)
				for k := range rs {
					for _, v := range variantRules {
						if rs[k].Name == v.Base.Name {
							rs[k] = v.Variant
						}
					}
				}
			}
			var names []string
			for _, x := range rs {
				names = append(names, x.Name)
			}
			func() {
				defer func() { recover() }()
				for _, e := range validator.Validate(schema, doc, rs...) {
					add("validate", e, names, []string{"q.graphql"}, fmt.Sprintf("document %q", clip(text, 300)))
				}
			}()
		}
		// coercion with defective values and hostile keys
		for i := 0; i < n/2; i++ {
			t := randType(rng, 2)
			v := randValue(rng, t, 3, true)
			if rng.Intn(3) == 0 {
				v = JVal{K: "map", Ents: []JEnt{{Key: []string{"b\x01c", "b\x7fc", "q\"q", "é", `x\y`, "a.b[0]", ""}[rng.Intn(7)], V: JVal{K: "int", I: 1}}, {Key: "a", V: JVal{K: "null"}}}}
				t = JType{K: "named", Name: "In", NN: true, Of: []JType{}}
				if rng.Intn(2) == 0 {
					t = JType{K: "list", Of: []JType{t}}
					v = JVal{K: "list", Items: []JVal{{K: "map", Ents: []JEnt{{Key: "a", V: JVal{K: "int", I: 1}}}}, v}}
				}
			}
			cs, err := coerceSchemaFor(t.String())
			if err != nil {
				continue
			}
			doc, errs := gqlparser.LoadQuery(cs, "query($v: "+t.String()+") { f(x: $v) }")
			if len(errs) > 0 {
				continue
			}
			func() {
				defer func() { recover() }()
				_, err := validator.VariableValues(cs, doc.Operations[0], map[string]interface{}{"v": toGo(v, i)})
				add("coerce", err, nil, []string{}, fmt.Sprintf("$v: %s = %s", t, v))
			}()
		}
	}
	var lines [][]byte
	var events []int64
	for _, rec := range recs {
		b, _ := json.Marshal(rec)
		lines = append(lines, b)
		events = append(events, 1)
	}
	cfg := "SPECIFICATION Spec\nCONSTANTS\n  Devs = " + core.DevSetTLA(devs) + "\nCHECK_DEADLOCK FALSE\n"
	bad, ok := RunTrace(c, TraceJob{Module: "Errors_Trace", CfgText: cfg, Lines: lines, Events: events, Shards: 12, Heap: "3g"})
	if !ok {
		return
	}
	c.Count(int64(len(lines)), int64(len(templates)), int64(len(lines)))
	var tl []string
	for t, k := range templates {
		tl = append(tl, fmt.Sprintf("%s (x%d)", t, k))
	}
	sort.Strings(tl)
	c.SetExtra("distinct_message_templates", len(templates))
	c.SetExtra("message_templates", tl)
	c.Sample(map[string]any{"errors_examined": len(recs), "distinct_templates": len(templates), "example": recs[len(recs)/2]})
	c.Logf("Errors_Trace: %d errors (%d distinct message templates) validated, %d ill-formed", len(lines), len(templates), len(bad))
	if noSchema && len(bad) == 0 && c.NumViolations() == 0 {
		c.Internal("could not generate a loadable schema")
	}
	for _, raw := range bad {
		var b struct {
			ID    int    `json:"id"`
			Class string `json:"class"`
		}
		json.Unmarshal(raw, &b)
		rec := recs[b.ID-1]
		c.Violation(fmt.Sprintf("%s error %q (rule %q, locations %v, file %q): %s; %s", rec.Origin, rec.msg, rec.Rule, rec.Locs, rec.File, b.Class, rec.desc),
			map[string]any{"origin": rec.Origin, "message": rec.msg, "what": b.Class, "input": rec.desc, "record": rec})
	}
}
