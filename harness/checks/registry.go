// Package checks holds one file per property: the binding between the TLA+
// specifications under /verif/spec and the real gqlparser code.
package checks

import "verif/harness/core"

var Registry = map[string]func(*core.Ctx){}

// Replays re-run a single recorded case: exit code 1 if it still violates.
var Replays = map[string]func(*core.Ctx, string) int{}
