package checks

import (
	"encoding/json"
	"fmt"
	"math/rand"
	"sort"
	"strconv"
	"strings"
	"sync"
	"sync/atomic"

	"github.com/vektah/gqlparser/v2/lexer"

	"verif/harness/core"
	"verif/harness/tlc"
)

// ---- rendering of token sequences ----

// RTok is one token of a rendered document: its grammar class, its source
// text and the text it contributes to the tree (decoded value for strings).
type RTok struct {
	Class string `json:"c"`
	Text  string `json:"x"`
	Value string `json:"v"`
}

func isPunctText(s string) bool {
	switch s {
	case "!", "$", "&", "(", ")", "...", ":", "=", "@", "[", "]", "{", "}", "|":
		return true
	}
	return false
}

// canGlue says whether two lexemes may be written without anything between
// them and still lex as the same two tokens (conservative).
func canGlue(a, b string) bool {
	if strings.HasSuffix(a, `"`) && strings.HasPrefix(b, `"`) {
		return false
	}
	if isPunctText(a) && a != "..." {
		return true
	}
	if a == "..." {
		return b != "..." && !strings.HasPrefix(b, ".")
	}
	if isPunctText(b) && b != "..." {
		return true
	}
	if strings.HasSuffix(a, `"`) || strings.HasPrefix(b, `"`) {
		// a string next to a name / number / spread
		return !strings.HasSuffix(a, `"`) || !strings.HasPrefix(b, `"`)
	}
	return false
}

var ignoredSeps = []string{" ", " ", " ", ",", "\n", "\r\n", "\t", "\r", " , ", "\n\n", " # c\n", "#\n", "  ", "\ufeff", " #x,y {\r\n", " # é日本\U0001F600\n", " #c\r"}

// RenderSpaces joins lexemes with single spaces.
func RenderSpaces(toks []RTok) string {
	parts := make([]string, len(toks))
	for i, t := range toks {
		parts[i] = t.Text
	}
	return strings.Join(parts, " ")
}

var stringKeywords = []string{"query", "mutation", "subscription", "fragment", "on", "true", "false", "null", "extend", "type", "schema", "scalar",
	"interface", "union", "enum", "input", "directive", "implements", "repeatable"}

var optionalKeywords = []string{"on", "implements", "repeatable", "extend"}

// RenderComments puts a comment (ended by LF, CRLF or a bare CR in turn) into
// every gap: whatever the parser does between two tokens, it does it across a comment.
func RenderComments(toks []RTok, k int) string {
	ends := []string{"\n", "\r\n", "\r"}
	var b strings.Builder
	for i, t := range toks {
		if i > 0 {
			b.WriteString(" # c" + ends[abs3(i+k)])
		}
		b.WriteString(t.Text)
	}
	return b.String()
}

// RenderIgnored joins lexemes with randomly chosen ignored tokens (white
// space, commas, line terminators, BOM, comments), or nothing where legal.
func RenderIgnored(toks []RTok, r *rand.Rand) string {
	var b strings.Builder
	if r.Intn(4) == 0 {
		b.WriteString(ignoredSeps[r.Intn(len(ignoredSeps))])
	}
	for i, t := range toks {
		if i > 0 {
			if canGlue(toks[i-1].Text, t.Text) && r.Intn(3) == 0 {
				// nothing
			} else {
				b.WriteString(ignoredSeps[r.Intn(len(ignoredSeps))])
				if r.Intn(6) == 0 {
					b.WriteString(ignoredSeps[r.Intn(len(ignoredSeps))])
				}
			}
		}
		b.WriteString(t.Text)
	}
	if r.Intn(3) == 0 {
		b.WriteString(ignoredSeps[r.Intn(len(ignoredSeps))])
	}
	return b.String()
}

// ---- binding of a grammar automaton (QueryGrammar / SchemaGrammar) ----

type GrammarBind struct {
	Prop    string
	Module  string   // QueryGrammar_MC / SchemaGrammar_MC
	Classes []string // every class of the automaton
	// Lexeme chooses source text and tree text for token number i (1-based) of a class.
	Lexeme func(class string, i int) RTok
	// Parse runs the real parser: tree (projected), ok, crash text.
	Parse func(src string) ([]GT, bool, string)
	// Norm puts both trees in the comparable normal form.
	Norm func([]GT) []GT
}

type gstep struct {
	T  string      `json:"t"`
	Ev []TreeEvent `json:"ev"`
	St string      `json:"st"`
}

type GrammarMismatch struct {
	Kind     string `json:"kind"` // accept | reject | tree | crash
	Source   string `json:"source"`
	Tokens   []RTok `json:"tokens"`
	Text     string `json:"text"`
	Expected string `json:"expected"`
	Observed string `json:"observed"`
}

type grammarStats struct {
	Accepted, Incomplete, BadToken int64
	Mismatches                     []GrammarMismatch
	N                              int64
	mu                             sync.Mutex
}

func (s *grammarStats) add(m GrammarMismatch) {
	s.mu.Lock()
	s.N++
	if len(s.Mismatches) < 60 {
		s.Mismatches = append(s.Mismatches, m)
	}
	s.mu.Unlock()
}

func tokAction(a string) (string, bool) {
	if strings.HasPrefix(a, `Tok("`) && strings.HasSuffix(a, `")`) {
		return a[5 : len(a)-2], true
	}
	return "", false
}

// checkSentence runs one token sequence through the real parser under both
// renderings and compares with the expectation.
func (gb *GrammarBind) checkSentence(st *grammarStats, toks []RTok, evs []TreeEvent, expectOK bool, source string, seed int64) {
	var exp []GT
	if expectOK {
		lex := make([]string, len(toks))
		for i, t := range toks {
			lex[i] = t.Value
		}
		var err error
		exp, err = BuildTree(evs, lex)
		if err != nil {
			st.add(GrammarMismatch{Kind: "internal", Source: source, Tokens: toks, Expected: err.Error()})
			return
		}
		exp = gb.Norm(exp)
	}
	r := rand.New(rand.NewSource(seed))
	texts := []string{RenderSpaces(toks), RenderIgnored(toks, r), RenderComments(toks, int(seed))}
	// the same sentence with every string token spelling a keyword of the grammars: a string is a string
	// whatever it says (the expected tree carries the keyword as the string's value). Variants: a keyword
	// picked per position, and each of the keywords that are optional where they occur.
	hasStr := false
	for _, t := range toks {
		if t.Class == "STR" {
			hasStr = true
		}
	}
	for variant := 0; hasStr && variant < 2+len(optionalKeywords); variant++ {
		toks2 := append([]RTok{}, toks...)
		for i := range toks2 {
			if toks2[i].Class != "STR" {
				continue
			}
			kw := stringKeywords[(int(seed&0xffff)+i*5)%len(stringKeywords)]
			if variant > len(optionalKeywords) {
				kw = "" // the empty string is a string token too (an empty description is still a description)
			} else if variant > 0 {
				kw = optionalKeywords[variant-1]
			}
			if kw == "" && (i+int(seed))%3 == 2 {
				toks2[i].Text = "\"\"\"\n   \n\"\"\"" // a block string of blank lines has the empty value
			} else if (i+variant)%2 == 0 {
				toks2[i].Text = `"` + kw + `"`
			} else {
				toks2[i].Text = `"""` + kw + `"""`
			}
			toks2[i].Value = kw
		}
		var exp2 []GT
		if expectOK {
			lex := make([]string, len(toks2))
			for i, t := range toks2 {
				lex[i] = t.Value
			}
			e2, err := BuildTree(evs, lex)
			if err != nil {
				continue
			}
			exp2 = gb.Norm(e2)
		}
		text := RenderSpaces(toks2)
		tree, ok, crash := gb.Parse(text)
		switch {
		case crash != "":
			st.add(GrammarMismatch{Kind: "crash", Source: source + " (keyword strings)", Tokens: toks2, Text: text, Observed: crash})
		case expectOK && !ok:
			st.add(GrammarMismatch{Kind: "accept", Source: source + " (keyword strings)", Tokens: toks2, Text: text, Expected: "derivable: must parse", Observed: "rejected"})
		case !expectOK && ok:
			st.add(GrammarMismatch{Kind: "reject", Source: source + " (keyword strings)", Tokens: toks2, Text: text, Expected: "not derivable: must fail", Observed: "parsed"})
		case expectOK:
			if got := gb.Norm(tree); !gtListEqual(exp2, got) {
				st.add(GrammarMismatch{Kind: "tree", Source: source + " (keyword strings)", Tokens: toks2, Text: text, Expected: gtListString(exp2), Observed: gtListString(got)})
			}
		}
	}
	// a control character inside a comment is not a source character: the text is no document at all
	if len(toks) >= 2 && seed%4 == 0 {
		k := 1 + int(seed&0xff)%(len(toks)-1)
		text := RenderSpaces(toks[:k]) + " # bell\x07 in a comment\n" + RenderSpaces(toks[k:])
		if _, ok, crash := gb.Parse(text); crash != "" {
			st.add(GrammarMismatch{Kind: "crash", Source: source + " (control character in a comment)", Tokens: toks, Text: text, Observed: crash})
		} else if ok {
			st.add(GrammarMismatch{Kind: "reject", Source: source + " (control character in a comment)", Tokens: toks, Text: text, Expected: "a control character is not a source character: must fail", Observed: "parsed"})
		}
	}
	for _, text := range texts {
		tree, ok, crash := gb.Parse(text)
		switch {
		case crash != "":
			st.add(GrammarMismatch{Kind: "crash", Source: source, Tokens: toks, Text: text, Observed: crash})
		case expectOK && !ok:
			st.add(GrammarMismatch{Kind: "accept", Source: source, Tokens: toks, Text: text, Expected: "derivable: must parse", Observed: "rejected"})
		case !expectOK && ok:
			st.add(GrammarMismatch{Kind: "reject", Source: source, Tokens: toks, Text: text, Expected: "not derivable: must fail", Observed: "parsed"})
		case expectOK:
			got := gb.Norm(tree)
			if !gtListEqual(exp, got) {
				st.add(GrammarMismatch{Kind: "tree", Source: source, Tokens: toks, Text: text, Expected: gtListString(exp), Observed: gtListString(got)})
			}
		}
	}
}

// WalkGrammarGraph replays every path of the automaton's state graph.
func (gb *GrammarBind) WalkGrammarGraph(c *core.Ctx, g *tlc.Graph, maxTok int, workers int) *grammarStats {
	steps := make([]gstep, len(g.Nodes))
	for i := range g.Nodes {
		if i == g.Init {
			continue
		}
		if err := json.Unmarshal([]byte(g.Nodes[i].O), &steps[i]); err != nil {
			c.Internal("%s graph: node %s: %v (%q)", gb.Module, g.Nodes[i].ID, err, g.Nodes[i].O)
			return nil
		}
	}
	st := &grammarStats{}
	type frame struct {
		node int
		toks []RTok
		evs  []TreeEvent
	}
	var seedCtr int64
	var tasks []frame
	var dfs func(f frame, collect bool)
	dfs = func(f frame, collect bool) {
		if collect && len(f.toks) == 3 {
			tasks = append(tasks, f)
			return
		}
		n := &g.Nodes[f.node]
		enabled := map[string]bool{}
		hasEof := false
		for _, e := range n.Out {
			if cls, ok := tokAction(e.Action); ok {
				enabled[cls] = true
				tk := gb.Lexeme(cls, len(f.toks)+1)
				nf := frame{node: e.To,
					toks: append(append(make([]RTok, 0, len(f.toks)+1), f.toks...), tk),
					evs:  append(append(make([]TreeEvent, 0, len(f.evs)+4), f.evs...), steps[e.To].Ev...)}
				dfs(nf, collect)
				continue
			}
			// Eof
			hasEof = true
			fin := steps[e.To]
			sd := atomic.AddInt64(&seedCtr, 1)
			if fin.St == "accept" {
				atomic.AddInt64(&st.Accepted, 1)
				evs := append(append([]TreeEvent{}, f.evs...), fin.Ev...)
				gb.checkSentence(st, f.toks, evs, true, "path(accept)", c.Seed*1000003+sd)
			} else {
				atomic.AddInt64(&st.Incomplete, 1)
				gb.checkSentence(st, f.toks, nil, false, "path(incomplete)", sd)
			}
		}
		if len(n.Out) > 0 && !hasEof {
			c.Internal("%s graph: node %s has no Eof edge", gb.Module, n.ID)
		}
		if len(n.Out) > 0 && len(f.toks) < maxTok {
			for _, cls := range gb.Classes {
				if !enabled[cls] {
					atomic.AddInt64(&st.BadToken, 1)
					toks := append(append(make([]RTok, 0, len(f.toks)+1), f.toks...), gb.Lexeme(cls, len(f.toks)+1))
					gb.checkSentence(st, toks, nil, false, "path+inadmissible token", atomic.AddInt64(&seedCtr, 1))
				}
			}
		}
	}
	dfs(frame{node: g.Init}, true)
	ch := make(chan frame, len(tasks)+1)
	for _, t := range tasks {
		ch <- t
	}
	close(ch)
	var wg sync.WaitGroup
	for w := 0; w < workers; w++ {
		wg.Add(1)
		go func() {
			defer wg.Done()
			for f := range ch {
				dfs(f, false)
			}
		}()
	}
	wg.Wait()
	return st
}

// TransitionCover returns, for every Tok edge of the graph, one shortest
// accepted sentence through it (if an accepting completion exists within the
// graph): "one implementation test per transition".
func (gb *GrammarBind) TransitionCover(c *core.Ctx, g *tlc.Graph) *grammarStats {
	steps := make([]gstep, len(g.Nodes))
	for i := range g.Nodes {
		if i == g.Init {
			continue
		}
		if err := json.Unmarshal([]byte(g.Nodes[i].O), &steps[i]); err != nil {
			c.Internal("%s graph: node %s: %v", gb.Module, g.Nodes[i].ID, err)
			return nil
		}
	}
	N := len(g.Nodes)
	// forward BFS: parent edge on a shortest path from init
	type pe struct{ from, edge int }
	par := make([]pe, N)
	dist := make([]int, N)
	for i := range dist {
		dist[i] = -1
	}
	dist[g.Init] = 0
	q := []int{g.Init}
	for len(q) > 0 {
		u := q[0]
		q = q[1:]
		for ei, e := range g.Nodes[u].Out {
			if _, ok := tokAction(e.Action); !ok {
				continue
			}
			if dist[e.To] < 0 {
				dist[e.To] = dist[u] + 1
				par[e.To] = pe{u, ei}
				q = append(q, e.To)
			}
		}
	}
	// backward: shortest way from each node to an accepting Eof
	toAcc := make([]int, N) // number of Tok edges to reach a node whose Eof accepts; -1 unknown
	nextE := make([]int, N)
	rev := make([][]pe, N)
	for u := range g.Nodes {
		for ei, e := range g.Nodes[u].Out {
			if _, ok := tokAction(e.Action); ok {
				rev[e.To] = append(rev[e.To], pe{u, ei})
			}
		}
	}
	for i := range toAcc {
		toAcc[i] = -1
		nextE[i] = -1
	}
	q = q[:0]
	accEof := make([]int, N)
	for u := range g.Nodes {
		accEof[u] = -1
		for ei, e := range g.Nodes[u].Out {
			if _, ok := tokAction(e.Action); !ok && steps[e.To].St == "accept" {
				accEof[u] = ei
				toAcc[u] = 0
				q = append(q, u)
			}
		}
	}
	for len(q) > 0 {
		v := q[0]
		q = q[1:]
		for _, p := range rev[v] {
			if toAcc[p.from] < 0 {
				toAcc[p.from] = toAcc[v] + 1
				nextE[p.from] = p.edge
				q = append(q, p.from)
			}
		}
	}
	st := &grammarStats{}
	type job struct{ u, ei int }
	var jobs []job
	for u := range g.Nodes {
		if dist[u] < 0 {
			continue
		}
		for ei, e := range g.Nodes[u].Out {
			if _, ok := tokAction(e.Action); ok && toAcc[e.To] >= 0 {
				jobs = append(jobs, job{u, ei})
			}
		}
	}
	sort.Slice(jobs, func(i, j int) bool {
		if jobs[i].u != jobs[j].u {
			return jobs[i].u < jobs[j].u
		}
		return jobs[i].ei < jobs[j].ei
	})
	var wg sync.WaitGroup
	ch := make(chan job, 256)
	for w := 0; w < 16; w++ {
		wg.Add(1)
		go func() {
			defer wg.Done()
			for j := range ch {
				// path init -> u
				var edges []pe
				for x := j.u; x != g.Init; x = par[x].from {
					edges = append([]pe{par[x]}, edges...)
				}
				edges = append(edges, pe{j.u, j.ei})
				v := g.Nodes[j.u].Out[j.ei].To
				for toAcc[v] > 0 {
					edges = append(edges, pe{v, nextE[v]})
					v = g.Nodes[v].Out[nextE[v]].To
				}
				var toks []RTok
				var evs []TreeEvent
				for _, e := range edges {
					ed := g.Nodes[e.from].Out[e.edge]
					cls, _ := tokAction(ed.Action)
					toks = append(toks, gb.Lexeme(cls, len(toks)+1))
					evs = append(evs, steps[ed.To].Ev...)
				}
				fin := g.Nodes[v].Out[accEof[v]].To
				evs = append(evs, steps[fin].Ev...)
				atomic.AddInt64(&st.Accepted, 1)
				gb.checkSentence(st, toks, evs, true, "transition cover", c.Seed*7+int64(j.u*131+j.ei))
			}
		}()
	}
	for _, j := range jobs {
		ch <- j
	}
	close(ch)
	wg.Wait()

	// near-miss cover: for every state u, every class X the automaton does not
	// admit there and (up to two) admitted transitions u -Y-> v, the sentence
	//   shortest path to u, X, shortest accepting completion from v
	// is not derivable (X is inadmissible after that prefix) and must be rejected.
	type nm struct {
		u  int
		x  string
		ei int
	}
	var nms []nm
	firstOut := make([]int, N)
	for u := range g.Nodes {
		if dist[u] < 0 {
			continue
		}
		enabled := map[string]bool{}
		var outs []int
		for ei, e := range g.Nodes[u].Out {
			if cls, ok := tokAction(e.Action); ok {
				enabled[cls] = true
				if toAcc[e.To] >= 0 && len(outs) < 4 {
					outs = append(outs, ei)
				}
			}
		}
		if len(enabled) == 0 {
			continue
		}
		if len(outs) > 0 {
			firstOut[u] = outs[0]
		}
		for _, x := range gb.Classes {
			if enabled[x] {
				continue
			}
			for _, ei := range outs {
				nms = append(nms, nm{u, x, ei})
			}
		}
	}
	// for each class X: up to three shallowest transitions w -X-> w2 from which acceptance is reachable
	type xs struct{ w2 int }
	admit := map[string][]int{}
	order := make([]int, 0, N)
	for u := range g.Nodes {
		if dist[u] >= 0 {
			order = append(order, u)
		}
	}
	sort.Slice(order, func(a, b int) bool {
		if dist[order[a]] != dist[order[b]] {
			return dist[order[a]] < dist[order[b]]
		}
		return order[a] < order[b]
	})
	for _, u := range order {
		for _, e := range g.Nodes[u].Out {
			if cls, ok := tokAction(e.Action); ok && toAcc[e.To] >= 0 && len(admit[cls]) < 3 {
				admit[cls] = append(admit[cls], e.To)
			}
		}
	}
	ch2 := make(chan nm, 256)
	var wg2 sync.WaitGroup
	for w := 0; w < 16; w++ {
		wg2.Add(1)
		go func() {
			defer wg2.Done()
			for j := range ch2 {
				var edges []pe
				for x := j.u; x != g.Init; x = par[x].from {
					edges = append([]pe{par[x]}, edges...)
				}
				var toks []RTok
				for _, e := range edges {
					cls, _ := tokAction(g.Nodes[e.from].Out[e.edge].Action)
					toks = append(toks, gb.Lexeme(cls, len(toks)+1))
				}
				toks = append(toks, gb.Lexeme(j.x, len(toks)+1))
				v := g.Nodes[j.u].Out[j.ei].To
				for toAcc[v] > 0 {
					cls, _ := tokAction(g.Nodes[v].Out[nextE[v]].Action)
					toks = append(toks, gb.Lexeme(cls, len(toks)+1))
					v = g.Nodes[v].Out[nextE[v]].To
				}
				atomic.AddInt64(&st.BadToken, 1)
				gb.checkSentence(st, toks, nil, false, "near-miss cover", int64(j.u*977+j.ei*31+len(j.x)))
				// the same with X INSERTED before the admitted token instead of standing in its place:
				//   shortest path to u, X, Y, shortest accepting completion after Y
				{
					t3 := append([]RTok{}, toks[:dist[j.u]+1]...)
					ycls, _ := tokAction(g.Nodes[j.u].Out[j.ei].Action)
					t3 = append(t3, gb.Lexeme(ycls, len(t3)+1))
					v := g.Nodes[j.u].Out[j.ei].To
					for toAcc[v] > 0 {
						cls, _ := tokAction(g.Nodes[v].Out[nextE[v]].Action)
						t3 = append(t3, gb.Lexeme(cls, len(t3)+1))
						v = g.Nodes[v].Out[nextE[v]].To
					}
					atomic.AddInt64(&st.BadToken, 1)
					gb.checkSentence(st, t3, nil, false, "near-miss cover (inserted)", int64(j.u*977+j.ei*37+len(j.x)))
				}
				if j.ei == firstOut[j.u] {
					// the same prefix and inadmissible X, completed as if X had been read where it is admissible
					for _, w2 := range admit[j.x] {
						t2 := append([]RTok{}, toks[:dist[j.u]+1]...)
						v := w2
						for toAcc[v] > 0 {
							cls, _ := tokAction(g.Nodes[v].Out[nextE[v]].Action)
							t2 = append(t2, gb.Lexeme(cls, len(t2)+1))
							v = g.Nodes[v].Out[nextE[v]].To
						}
						atomic.AddInt64(&st.BadToken, 1)
						gb.checkSentence(st, t2, nil, false, "near-miss cover (spliced)", int64(j.u*977+w2))
					}
				}
			}
		}()
	}
	for _, j := range nms {
		ch2 <- j
	}
	close(ch2)
	wg2.Wait()
	return st
}

func grammarMCcfg(devs []string, maxTok int, invs string) string {
	return fmt.Sprintf("SPECIFICATION Spec\nCONSTANTS\n  Devs = %s\n  MaxTok = %d\nINVARIANTS %s\nCHECK_DEADLOCK FALSE\n", core.DevSetTLA(devs), maxTok, invs)
}

// RunGrammarGraph model-checks the automaton at the bound and loads its graph.
func (gb *GrammarBind) RunGrammarGraph(c *core.Ctx, devs []string, maxTok int, invs string) (*tlc.Graph, func()) {
	r := c.RunTLC(tlc.Opts{Module: gb.Module, CfgText: grammarMCcfg(devs, maxTok, invs), Workers: 8, DumpDot: true, Heap: "8g"})
	if c.HasInternal() {
		tlc.Cleanup(r)
		return nil, func() {}
	}
	g, err := tlc.LoadDot(r.DotPath, false)
	if err != nil {
		c.Internal("%s graph: %v", gb.Module, err)
		tlc.Cleanup(r)
		return nil, func() {}
	}
	if int64(len(g.Nodes)) != r.Distinct {
		c.Internal("%s graph: dot has %d nodes, TLC reports %d distinct states", gb.Module, len(g.Nodes), r.Distinct)
	}
	c.Logf("%s MaxTok=%d: %d states, %d edges (TLC %v)", gb.Module, maxTok, len(g.Nodes), g.NumEdges(), r.Wall.Round(1e8))
	return g, func() { tlc.Cleanup(r) }
}

func itoa(i int) string { return strconv.Itoa(i) }

// GrammarPlan parametrises the shared check of a grammar automaton against a parser.
type GrammarPlan struct {
	DevNames    map[string]bool
	Invs        string
	MaxTok      [2]int // quick, thorough: all paths
	Cover       [2]int // quick, thorough: transition / near-miss cover
	NDocs       [2]int
	TraceModule string
	PrinterKind string   // "query" | "schemadoc": how Printer.tla's own parser reads a text of this grammar
	HandTexts   []string // hand-written texts decided by the trace specification like the generated ones
	ClassOf     func(lexer.Token) string
	MutPool     []string
	// Gen produces document i: its tree, its tokens, and whether a grammar fault was injected on purpose.
	Gen func(i int, rng *rand.Rand) ([]GT, []RTok, bool)
}

func runGrammarCheck(c *core.Ctx, gb *GrammarBind, plan GrammarPlan) {
	tier := 0
	if c.Thorough() {
		tier = 1
	}
	devs := grammarDevs(c, plan.DevNames, func(s string) ([]GT, bool, string) { return gb.Parse(s) })
	c.SetExtra("deviations_enabled", devs)
	invs := plan.Invs

	maxTok := plan.MaxTok[tier]
	g, cleanup := gb.RunGrammarGraph(c, devs, maxTok, invs)
	if g != nil {
		st := gb.WalkGrammarGraph(c, g, maxTok, 16)
		reportGrammar(c, st, fmt.Sprintf("all paths <= %d tokens", maxTok))
		c.Sample(map[string]any{"source": gb.Module + " graph, all paths", "max_tokens": maxTok, "states": len(g.Nodes)})
	}
	cleanup()
	if c.HasInternal() {
		return
	}
	coverTok := plan.Cover[tier]
	g, cleanup = gb.RunGrammarGraph(c, devs, coverTok, invs)
	if g != nil {
		st := gb.TransitionCover(c, g)
		reportGrammar(c, st, fmt.Sprintf("transition cover of the <= %d-token graph", coverTok))
	}
	cleanup()
	if c.HasInternal() {
		return
	}

	// (c) generated trees + mutations, validated by TLC
	ndocs := plan.NDocs[tier]
	rng := rand.New(rand.NewSource(c.Seed*104729 + 5))
	var lines [][]byte
	var events []int64
	texts := map[int]string{}
	intent := 0
	type intentCase struct {
		text      string
		gen, real []GT
		ok        bool
	}
	var intentCases []intentCase
	id := 0
	add := func(text string) {
		cls, lex, ok := lexClasses(text, plan.ClassOf)
		if !ok {
			return
		}
		tree, pok, crash := gb.Parse(text)
		if crash != "" {
			c.Violation(fmt.Sprintf("generated document %q: %s", text, crash), map[string]any{"text": text, "crash": crash})
			return
		}
		id++
		if !pok {
			tree = nil
		}
		b, _ := json.Marshal(grammarTraceCase{ID: id, Cls: cls, Lex: lex, OK: pok, Tree: gtNorm(gb.Norm(tree))})
		lines = append(lines, b)
		events = append(events, int64(len(cls)))
		texts[id] = text
	}
	for i := 0; i < ndocs; i++ {
		doc, toks, faulty := plan.Gen(i, rng)
		text := RenderIgnored(toks, rng)
		// generator intent: a generated document must parse to the generated tree
		tree, ok, crash := gb.Parse(text)
		if crash == "" && !faulty && (!ok || !gtListEqual(gb.Norm(doc), gb.Norm(tree))) {
			intent++
			intentCases = append(intentCases, intentCase{text: text, gen: gb.Norm(doc), real: gb.Norm(tree), ok: ok})
			exp := gtListString(gb.Norm(doc))
			obs := "rejected"
			if ok {
				obs = gtListString(gb.Norm(tree))
			}
			// reported only if the specification agrees with the generator (decided by the trace below);
			// recorded here for the three-way comparison
			c.SetExtra(fmt.Sprintf("intent_disagreement_%d", intent), map[string]string{"text": text, "generated": exp, "parsed": obs})
		}
		add(text)
		if i < 2 {
			c.Sample(map[string]any{"source": "generated tree, random ignored tokens, validated by " + plan.TraceModule, "text": text})
		}
		for m := 0; m < 4; m++ {
			mt, _ := MutateTokens(toks, rng, plan.MutPool)
			add(RenderIgnored(mt, rng))
		}
	}
	for _, t := range plan.HandTexts {
		add(t)
	}
	cfg := "SPECIFICATION Spec\nCONSTANTS\n  Devs = " + core.DevSetTLA(devs) + "\nCHECK_DEADLOCK FALSE\n"
	bad, ok := RunTrace(c, TraceJob{Module: plan.TraceModule, CfgText: cfg, Lines: lines, Events: events, Shards: 12, Stack: "256m"})
	if ok {
		c.Count(int64(len(lines)), int64(ndocs), int64(len(lines)))
		c.Logf(plan.TraceModule+": %d generated/mutated documents validated, %d disagreements, %d generator-intent disagreements", len(lines), len(bad), intent)
		for _, raw := range bad {
			var b struct {
				ID    int    `json:"id"`
				Class string `json:"class"`
				At    int    `json:"at"`
				Tree  []GT   `json:"tree"`
			}
			json.Unmarshal(raw, &b)
			text := texts[b.ID]
			tree, pok, _ := gb.Parse(text)
			m := GrammarMismatch{Kind: b.Class, Source: plan.TraceModule, Text: text}
			switch b.Class {
			case "accept":
				m.Expected, m.Observed = "derivable: must parse", "rejected"
			case "reject":
				m.Expected, m.Observed = fmt.Sprintf("not derivable (first inadmissible token #%d): must fail", b.At), "parsed"
			case "tree":
				m.Expected, m.Observed = gtListString(b.Tree), gtListString(gb.Norm(tree))
			default:
				c.Internal("%s: %s on %q", plan.TraceModule, b.Class, text)
				continue
			}
			_ = pok
			c.Violation(fmt.Sprintf(plan.TraceModule+" %s: text %q expected %s, observed %s", b.Class, text, m.Expected, m.Observed), m)
		}
		if intent > 0 {
			// The trace above gave the specification the REAL lexer's tokens, so a lexer defect is
			// invisible to it. Third witness: the specification's own lexer and parser (Printer.tla)
			// read the text. If they obtain the generated tree, the library is wrong; if they do
			// not, generator and specification disagree (a diagnostic, no verdict).
			var plines [][]byte
			var pevents []int64
			for k, ic := range intentCases {
				gen, real := ic.gen, ic.real
				if plan.PrinterKind == "schemadoc" {
					gen, real = mergeSchemaItems(gen), mergeSchemaItems(real)
				}
				if real == nil {
					real = []GT{}
				}
				b, _ := json.Marshal(map[string]any{"id": k + 1, "kind": plan.PrinterKind, "tree": toGTc(gen), "t1": cps(ic.text), "reparsed": ic.ok, "d1": toGTc(real), "t2": cps(ic.text), "locs": locCps(), "argsep": false})
				plines = append(plines, b)
				pevents = append(pevents, int64(len(cps(ic.text))))
			}
			pcfg := "SPECIFICATION Spec\nCONSTANTS\n  LexDevs = " + core.DevSetTLA(LexerDevsQuiet()) + "\n  GrammarDevs = " + core.DevSetTLA(devs) + "\n  PrinterDevs = {}\nCHECK_DEADLOCK FALSE\n"
			pbad, pok := RunTrace(c, TraceJob{Module: "Printer_Trace", CfgText: pcfg, Lines: plines, Events: pevents, Shards: 8, Stack: "512m", Heap: "3g"})
			if pok {
				for _, raw := range pbad {
					var b struct {
						ID    int    `json:"id"`
						Class string `json:"class"`
					}
					json.Unmarshal(raw, &b)
					ic := intentCases[b.ID-1]
					if strings.HasPrefix(b.Class, "re-parsed document differs") || strings.HasPrefix(b.Class, "the library does not parse") {
						obs := "rejected"
						if ic.ok {
							obs = gtListString(ic.real)
						}
						c.Violation(fmt.Sprintf("generated document (the specification's own lexer and parser read it as generated): text %q expected %s, observed %s", ic.text, gtListString(ic.gen), obs),
							GrammarMismatch{Kind: "tree", Source: "generator + Printer.tla SpecParse", Text: ic.text, Expected: gtListString(ic.gen), Observed: obs})
					} else {
						c.Diagnostic("generator and specification disagree on %q: %s", clip(ic.text, 300), b.Class)
					}
				}
			}
		}
	}
}

func abs3(x int) int {
	x %= 3
	if x < 0 {
		x += 3
	}
	return x
}
