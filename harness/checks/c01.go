package checks

import (
	"bufio"
	"encoding/hex"
	"encoding/json"
	"errors"
	"fmt"
	"io"
	"math/rand"
	"os"
	"os/exec"
	"path/filepath"
	"strings"
	"time"

	"github.com/vektah/gqlparser/v2/ast"
	"github.com/vektah/gqlparser/v2/gqlerror"
	"github.com/vektah/gqlparser/v2/lexer"
	"github.com/vektah/gqlparser/v2/parser"
	"github.com/vektah/gqlparser/v2/verifhook"
	"gopkg.in/yaml.v3"

	"verif/harness/core"
)

func init() {
	Registry["C01"] = checkC01
	workers["total"] = totalWorker
}

type totOut struct {
	E       string `json:"e"`
	Doc     bool   `json:"doc"`
	Err     bool   `json:"err"`
	Loc     bool   `json:"loc"`
	Syntax  bool   `json:"syntax"`
	Counted bool   `json:"counted"`
	L       int    `json:"l"`
	C       int    `json:"c"`
	Lex     int    `json:"lex"`
	Next    int    `json:"next"`
}

type totLex struct {
	Toks   int  `json:"toks"`
	Err    bool `json:"err"`
	L      int  `json:"l"`
	C      int  `json:"c"`
	MaxEnd int  `json:"maxEnd"`
}

type totCase struct {
	ID   int      `json:"id"`
	In   []int    `json:"in"`
	N    int      `json:"n"` // token count known by construction, -1: let the specification count
	Lex  totLex   `json:"lex"`
	Outs []totOut `json:"outs"`
	Desc string   `json:"desc,omitempty"`
}

type totReq struct {
	Hex    string `json:"hex,omitempty"`
	Family string `json:"family,omitempty"`
	Size   int    `json:"size,omitempty"`
	NoIn   bool   `json:"noin,omitempty"` // do not echo the input (multi-megabyte)
	Only   string `json:"only,omitempty"` // run only the entry point of this name (multi-megabyte inputs: limited entry points only)
}

const negLimitEntry = "ParseSchemaWithLimit(-1)"
const exactPrefixEntry = "ParseSchemasWithLimit(2; a source of exactly 2 tokens, then the input)"

func classifyErr(err error, o *totOut) {
	o.Err = err != nil
	if err == nil {
		return
	}
	var ge *gqlerror.Error
	if errors.As(err, &ge) {
		o.Syntax = true
		if len(ge.Locations) > 0 {
			o.Loc = true
			o.L, o.C = ge.Locations[0].Line, ge.Locations[0].Column
		}
	}
}

// runTotal runs the lexer loop and the parser entry points (unlimited, limited, negative limit, built-in sources) on text.
func runTotal(text string, only string) totCase {
	tc := totCase{N: -1}
	// lexer loop
	lx := lexer.New(&ast.Source{Input: text, Name: "t"})
	for only == "" {
		t, err := lx.ReadToken()
		if err != nil {
			tc.Lex.Err = true
			var ge *gqlerror.Error
			if errors.As(err, &ge) && len(ge.Locations) > 0 {
				tc.Lex.L, tc.Lex.C = ge.Locations[0].Line, ge.Locations[0].Column
			}
			break
		}
		tc.Lex.Toks++
		if t.Pos.End > tc.Lex.MaxEnd {
			tc.Lex.MaxEnd = t.Pos.End
		}
		if t.Kind == lexer.EOF || tc.Lex.Toks > len(text)+2 {
			break
		}
	}
	type entry struct {
		name string
		run  func() (bool, error)
	}
	src := func() *ast.Source { return &ast.Source{Input: text, Name: "t"} }
	entries := []entry{
		{"ParseQuery", func() (bool, error) { d, e := parser.ParseQuery(src()); return d != nil, e }},
		{"ParseQueryWithTokenLimit(3)", func() (bool, error) { d, e := parser.ParseQueryWithTokenLimit(src(), 3); return d != nil, e }},
		{"ParseSchema", func() (bool, error) { d, e := parser.ParseSchema(src()); return d != nil, e }},
		{"ParseSchemaWithLimit(3)", func() (bool, error) { d, e := parser.ParseSchemaWithLimit(src(), 3); return d != nil, e }},
		{"ParseSchemas", func() (bool, error) { d, e := parser.ParseSchemas(src()); return d != nil, e }},
		{"ParseSchemasWithLimit(2)", func() (bool, error) { d, e := parser.ParseSchemasWithLimit(2, src()); return d != nil, e }},
		// a source flagged built-in (a server's own prelude) goes through the same entry points
		{"ParseSchema(built-in source)", func() (bool, error) {
			d, e := parser.ParseSchema(&ast.Source{Input: text, Name: "t", BuiltIn: true})
			return d != nil, e
		}},
		{"ParseSchemas(source, built-in source)", func() (bool, error) {
			d, e := parser.ParseSchemas(&ast.Source{Input: "scalar S", Name: "p"}, &ast.Source{Input: text, Name: "t", BuiltIn: true})
			return d != nil, e
		}},
		// a negative limit is a finite limit too: no input has that few tokens
		{"ParseQueryWithTokenLimit(-1)", func() (bool, error) { d, e := parser.ParseQueryWithTokenLimit(src(), -1); return d != nil, e }},
	}
	if only == negLimitEntry {
		entries = []entry{
			{negLimitEntry, func() (bool, error) { d, e := parser.ParseSchemaWithLimit(src(), -1); return d != nil, e }},
			{negLimitEntry + " (query)", func() (bool, error) { d, e := parser.ParseQueryWithTokenLimit(src(), -5); return d != nil, e }},
		}
	}
	if only == exactPrefixEntry {
		// a first source that uses up the limit exactly, then the input: every source has the limit to itself
		entries = []entry{{exactPrefixEntry, func() (bool, error) {
			d, e := parser.ParseSchemasWithLimit(2, &ast.Source{Input: "scalar S", Name: "p"}, src())
			return d != nil, e
		}}}
	}
	for _, en := range entries {
		o := totOut{E: en.name, Counted: true}
		verifhook.OnLex = func(kind, start int) { o.Lex++ }
		verifhook.OnNext = func(count int) { o.Next++ }
		doc, err := en.run()
		verifhook.OnLex, verifhook.OnNext = nil, nil
		o.Doc = doc
		classifyErr(err, &o)
		tc.Outs = append(tc.Outs, o)
	}
	return tc
}

// worker protocol: one request per stdin line; for each: "B <n>\n" before and "R <json>\n" after.
func totalWorker(args []string) int {
	sc := bufio.NewScanner(os.Stdin)
	sc.Buffer(make([]byte, 1<<20), 1<<26)
	w := bufio.NewWriterSize(os.Stdout, 1<<16)
	n := 0
	for sc.Scan() {
		var rq totReq
		if err := json.Unmarshal(sc.Bytes(), &rq); err != nil {
			return 2
		}
		var text string
		known := -1
		if rq.Family != "" {
			text, known = totalFamily(rq.Family, rq.Size)
		} else {
			b, _ := hex.DecodeString(rq.Hex)
			text = string(b)
		}
		fmt.Fprintf(w, "B %d\n", n)
		w.Flush()
		tc := runTotal(text, rq.Only)
		tc.N = known
		if !rq.NoIn {
			tc.In = cps(text)
		} else {
			tc.In = []int{}
		}
		b, _ := json.Marshal(tc)
		w.WriteString("R ")
		w.Write(b)
		w.WriteByte('\n')
		n++
	}
	w.Flush()
	return 0
}

// size-parametrised adversarial families (no limit): returns text and its token count (-1 unknown)
func totalFamily(f string, size int) (string, int) {
	rep := func(s string, n int) string { return strings.Repeat(s, n) }
	switch f {
	case "open-brackets":
		return "{f(a:" + rep("[", size), size + 5
	case "open-braces-value":
		return "{f(a:" + rep("{k:", size/3), size + 5
	case "open-selection":
		return rep("{a", size/2), size
	case "open-parens":
		return "{f" + rep("(", size), size + 2
	case "open-type":
		return "query($v:" + rep("[", size), size + 5
	case "closed-list":
		d := size / 2
		return "{f(a:" + rep("[", d) + "1" + rep("]", d) + ")}", 2*d + 8
	case "closed-selection":
		d := size / 3
		return rep("{a", d) + rep("}", d), 3 * d
	case "long-name":
		return "{" + rep("a", size) + "}", 3
	case "long-string":
		return `{f(a:"` + rep("x", size) + `")}`, 8
	case "long-unterminated-string":
		return `{f(a:"` + rep("x", size), -1
	case "long-block-string":
		return `{f(a:"""` + rep("x\n  ", size/4) + `""")}`, 8
	case "long-comment":
		return "#" + rep("c", size) + "\n{a}", 4
	case "many-comments":
		return rep("#c\n", size/3) + "{a}", size/3 + 3
	case "many-spreads":
		return "{" + rep("...F ", size/5) + "}", 2*(size/5) + 2
	case "many-directives":
		return "{a" + rep("@d", size/2) + "}", 2*(size/2) + 3
	case "schema-open-type":
		return "type T{f:" + rep("[", size), size + 5
	case "schema-open-default":
		return "input I{f:Int=" + rep("[", size), size + 7
	case "schema-union-members":
		return "union U=" + rep("A|", size/2) + "A", 2*(size/2) + 4
	case "schema-implements":
		return "type T implements " + rep("A&", size/2) + "A{f:Int}", 2*(size/2) + 8
	case "escapes":
		return `{f(a:"` + rep(`\u0041\n\"`, size/10) + `")}`, 8
	case "bom-flood":
		return rep("\ufeff", size/3) + "{a}", 3
	case "crlf-flood":
		return rep("\r\n", size/2) + "{a}", 3
	}
	return "", -1
}

var totalFamilies = []string{"open-brackets", "open-braces-value", "open-selection", "open-parens", "open-type", "closed-list", "closed-selection", "long-name",
	"long-string", "long-unterminated-string", "long-block-string", "long-comment", "many-comments", "many-spreads", "many-directives", "schema-open-type",
	"schema-open-default", "schema-union-members", "schema-implements", "escapes", "bom-flood", "crlf-flood"}

// runTotalBatch feeds requests to a child process and collects results; a
// crash or a hang is attributed to the request that was running.
func runTotalBatch(c *core.Ctx, reqs []totReq, descr func(int) string, perCase time.Duration, sink func(int, *totCase)) {
	deaths := 0
	start := 0
	for start < len(reqs) {
		exe, _ := os.Executable()
		cmd := exec.Command(exe, "__worker", "total")
		stdin, _ := cmd.StdinPipe()
		stdout, _ := cmd.StdoutPipe()
		var errTail strings.Builder
		cmd.Stderr = &limitedWriter{b: &errTail, max: 2000}
		if err := cmd.Start(); err != nil {
			c.Internal("cannot start worker: %v", err)
			return
		}
		go func(from int) {
			w := bufio.NewWriter(stdin)
			for i := from; i < len(reqs); i++ {
				b, _ := json.Marshal(reqs[i])
				w.Write(b)
				w.WriteByte('\n')
			}
			w.Flush()
			stdin.Close()
		}(start)
		lines := make(chan string, 1024)
		go func() {
			rd := bufio.NewReaderSize(stdout, 1<<20)
			for {
				line, err := rd.ReadString('\n')
				if len(line) > 0 {
					lines <- strings.TrimRight(line, "\n")
				}
				if err != nil {
					close(lines)
					return
				}
			}
		}()
		cur := -1
		done := start
		hung := false
	loop:
		for {
			select {
			case line, ok := <-lines:
				if !ok {
					break loop
				}
				if strings.HasPrefix(line, "B ") {
					cur = done
					continue
				}
				if strings.HasPrefix(line, "R ") {
					var tc totCase
					if err := json.Unmarshal([]byte(line[2:]), &tc); err != nil {
						c.Internal("worker result: %v", err)
					} else {
						sink(done, &tc)
					}
					done++
					cur = -1
				}
			case <-time.After(perCase):
				hung = true
				cmd.Process.Kill()
				break loop
			}
		}
		cmd.Wait()
		if done >= len(reqs) {
			return
		}
		// the child stopped early: crash or hang on request `done`
		what := "process died"
		if hung {
			what = fmt.Sprintf("no result within %v", perCase)
		}
		_ = cur
		detail := firstLines(errTail.String(), 6)
		c.Violation(fmt.Sprintf("%s on input %s: %s", what, descr(done), detail), map[string]any{"request": reqs[done], "what": what, "stderr": errTail.String()})
		deaths++
		if deaths >= 40 {
			c.Logf("stopped after %d crashes / hangs of the child process (each is reported above)", deaths)
			return
		}
		start = done + 1
		for range lines {
		}
	}
}

type limitedWriter struct {
	b   *strings.Builder
	max int
}

func b2i(b bool) int {
	if b {
		return 1
	}
	return 0
}

// compact wire form for TLC: tuples instead of records
func (tc *totCase) wire() []byte {
	outs := make([][]any, len(tc.Outs))
	for i, o := range tc.Outs {
		outs[i] = []any{o.E, b2i(o.Doc), b2i(o.Err), b2i(o.Loc), b2i(o.Syntax), b2i(o.Counted), o.L, o.C, o.Lex, o.Next}
	}
	b, _ := json.Marshal(map[string]any{"id": tc.ID, "in": tc.In, "n": tc.N,
		"lex": []int{tc.Lex.Toks, b2i(tc.Lex.Err), tc.Lex.L, tc.Lex.C, tc.Lex.MaxEnd}, "outs": outs})
	return b
}

func (l *limitedWriter) Write(p []byte) (int, error) {
	if l.b.Len() < l.max {
		n := l.max - l.b.Len()
		if n > len(p) {
			n = len(p)
		}
		l.b.Write(p[:n])
	}
	return len(p), nil
}

var _ io.Writer = (*limitedWriter)(nil)

// basePrefix returns the structured prefix (if any) an exhaustive input starts with
func basePrefix(b []byte) []byte {
	best := []byte{}
	for _, pre := range []string{"\"\\u0", "\"\\u", "\"\"\"\\", "\"\"\"", "{a(b:\"", "{a(b:", "#", "..", "1.", "1e"} {
		if strings.HasPrefix(string(b), pre) && len(pre) > len(best) && prefixMode {
			best = []byte(pre)
		}
	}
	return best
}

var prefixMode bool

func firstLines(s string, n int) string {
	parts := strings.Split(strings.TrimSpace(s), "\n")
	if len(parts) > n {
		parts = parts[:n]
	}
	return strings.Join(parts, " | ")
}

// corpus: the repository's own test inputs
func repoCorpus() []string {
	var out []string
	seen := map[string]bool{}
	add := func(s string) {
		if s != "" && !seen[s] && len(s) < 20000 {
			seen[s] = true
			out = append(out, s)
		}
	}
	var walk func(v any, key string)
	walk = func(v any, key string) {
		switch v := v.(type) {
		case map[string]any:
			for k, x := range v {
				walk(x, k)
			}
		case []any:
			for _, x := range v {
				walk(x, key)
			}
		case string:
			switch key {
			case "input", "query", "schema", "sdl", "document":
				add(v)
			}
		}
	}
	repoDir := "/repo"
	if d := os.Getenv("VERIF_REPO"); d != "" {
		repoDir = d
	}
	filepath.Walk(repoDir, func(p string, info os.FileInfo, err error) error {
		if err != nil || info.IsDir() {
			return nil
		}
		switch filepath.Ext(p) {
		case ".yml", ".yaml":
			b, err := os.ReadFile(p)
			if err != nil {
				return nil
			}
			var v any
			if yaml.Unmarshal(b, &v) == nil {
				walk(v, "")
			}
		case ".graphql":
			if b, err := os.ReadFile(p); err == nil {
				add(string(b))
			}
		}
		return nil
	})
	return out
}

func mutateBytes(s string, r *rand.Rand) string {
	b := []byte(s)
	if len(b) == 0 {
		return string([]byte{byte(r.Intn(256))})
	}
	switch r.Intn(7) {
	case 0:
		return string(b[:r.Intn(len(b)+1)]) // truncate
	case 1:
		i := r.Intn(len(b))
		b[i] ^= 1 << uint(r.Intn(8))
	case 2:
		i := r.Intn(len(b))
		b = append(b[:i], b[i+1:]...)
	case 3:
		i, j := r.Intn(len(b)), r.Intn(len(b))
		if i > j {
			i, j = j, i
		}
		b = append(append(append([]byte{}, b[:j]...), b[i:j]...), b[j:]...) // splice (duplicate a slice)
	case 4:
		i := r.Intn(len(b) + 1)
		ins := [][]byte{{0xef, 0xbb, 0xbf}, {0xef, 0xbb}, {0xc3}, {0xe2, 0x82}, {'"'}, {'\\'}, {'\\', 'u'}, {'"', '"', '"'}, {'\r'}, {0}, {'#'}, {0xf0, 0x9f, 0x98, 0x80}, {'.', '.'}}[r.Intn(13)]
		b = append(append(append([]byte{}, b[:i]...), ins...), b[i:]...)
	case 5:
		i := r.Intn(len(b))
		pool := []byte("{}[]()\"\\#.$@!:=|&0e-\n\r")
		b[i] = pool[r.Intn(len(pool))]
	default:
		i := r.Intn(len(b))
		b = append(b[:i], b[i:]...)
		b[i] = byte(r.Intn(256))
	}
	return string(b)
}

func checkC01(c *core.Ctx) {
	c.Rule = "inputs are (a) every byte string up to the bound over 17 bytes chosen to hit truncated escapes, stray BOM prefixes, lone continuation bytes, CR before EOF, unterminated (block) strings; (b) seeded byte-level mutations (truncate at any offset, bit flip, delete, splice, insert of partial UTF-8 / BOM / quote / escape material) of the repository's own test inputs and of generated documents; (c) size-parametrised adversarial families to 64 KiB without a limit. Every input runs through the lexer loop and nine parser entry points (both grammars without and with a limit, a negative limit, sources flagged built-in) in a child process (a crash or hang is attributed to its input); outcomes, error positions and hook-H1 work counters are validated by Total_Trace. Non-trivial = inputs of at least two tokens before the end on which at least one entry point returns a located syntax error or a document; distinct by bytes"
	c.Assumptions = []string{
		"termination and absence of panics / fatal errors are observed on the Go runtime (child process, 20 s per case inactivity watchdog, re-run not needed because a hang is deterministic here); the specification decides well-formedness of what was returned",
		"the polynomial time bound is checked on the deterministic counters of hook H1 (lexer calls, next() calls) against the token count, not on seconds",
		"characters of an input that is not valid UTF-8 are counted as Go decodes them (one U+FFFD per invalid byte), which is also how the library counts columns",
	}
	devs := LexerDevs(c)
	// (a) bounded-exhaustive byte strings
	alpha := []byte{'"', '\\', 'u', '0', 'A', '#', '.', '{', '[', '(', 0xEF, 0xBB, 0xBF, 0xC3, '\r', '\n', 0x00}
	maxLen := 4
	if c.Thorough() {
		maxLen = 5
	}
	var reqs []totReq
	var gen func(prefix []byte)
	gen = func(prefix []byte) {
		reqs = append(reqs, totReq{Hex: hex.EncodeToString(prefix)})
		if len(prefix) >= maxLen+len(basePrefix(prefix)) {
			return
		}
		for _, b := range alpha {
			gen(append(append([]byte{}, prefix...), b))
		}
	}
	gen(nil)
	// the same alphabet behind prefixes that put the cursor inside an escape, a block string, a
	// comment, an argument list: truncated \uXXXX, \""" and look-aheads at the end of input
	maxLen--
	prefixMode = true
	for _, pre := range []string{"\"\\u", "\"\\u0", "\"\"\"", "\"\"\"\\", "#", "{a(b:", "{a(b:\"", "..", "1.", "1e"} {
		gen([]byte(pre))
	}
	prefixMode = false
	maxLen++
	nExh := len(reqs)
	// (b) mutations of the repository's inputs and of generated documents
	rng := rand.New(rand.NewSource(c.Seed*49979687 + 1))
	corpus := repoCorpus()
	c.SetExtra("repo_corpus_inputs", len(corpus))
	qg := &QGen{R: rng, MaxDepth: 3}
	sg := &SGen{R: rng, Q: &QGen{R: rng, MaxDepth: 2}}
	nmut := 6000
	if c.Thorough() {
		nmut = 150000
	}
	for _, s := range corpus {
		reqs = append(reqs, totReq{Hex: hex.EncodeToString([]byte(s))})
	}
	for i := 0; i < nmut; i++ {
		var base string
		switch i % 4 {
		case 0, 1:
			if len(corpus) > 0 {
				base = corpus[rng.Intn(len(corpus))]
			}
		case 2:
			base = RenderIgnored(UnparseQuery(qg.Doc(), rng), rng)
		default:
			base = RenderIgnored(UnparseSchema(sg.Doc(), rng), rng)
		}
		if len(base) > 3000 {
			base = base[:3000]
		}
		m := mutateBytes(base, rng)
		if rng.Intn(3) == 0 {
			m = mutateBytes(m, rng)
		}
		reqs = append(reqs, totReq{Hex: hex.EncodeToString([]byte(m))})
	}
	// structured tokens (every count 1..40 of repeated constructs, long tokens with multi-byte tails, wrong
	// characters in escapes) alone and where the parsers do not expect them: the error message quotes the token
	for _, t := range StructuredLexInputs() {
		for _, in := range []string{t, "{ a " + t + " }", "type T " + t + " { f: Int }", "{ f(x: " + t + ") }",
			// (the token where it belongs, and the fault after it: positions that follow a long / multi-line token)
			"{ f(x: " + t + ") ", "{ f(x: " + t + ")\n}}", t + " type T {", t + "\ntype T { f: Int } ?"} {
			if len(in) < 2500 {
				reqs = append(reqs, totReq{Hex: hex.EncodeToString([]byte(in))})
			}
		}
	}
	nSmall := len(reqs)
	// (c) size families
	sizes := []int{1 << 10, 1 << 14}
	if c.Thorough() {
		sizes = []int{1 << 10, 1 << 13, 1 << 16}
	}
	for _, f := range totalFamilies {
		for _, sz := range sizes {
			reqs = append(reqs, totReq{Family: f, Size: sz})
		}
	}
	// 8 MiB of nesting through a limited entry point only (unlimited recursion that deep is beyond any stack):
	// it must come back with the limit error, whatever stands before it in the same call
	for _, f := range []string{"schema-open-type", "schema-open-default"} {
		reqs = append(reqs, totReq{Family: f, Size: 8 << 20, NoIn: true, Only: exactPrefixEntry})
		reqs = append(reqs, totReq{Family: f, Size: (8 << 20) + 1, NoIn: true, Only: negLimitEntry})
	}
	descr := func(i int) string {
		if reqs[i].Family != "" {
			return fmt.Sprintf("family %s size %d", reqs[i].Family, reqs[i].Size)
		}
		b, _ := hex.DecodeString(reqs[i].Hex)
		if len(b) > 300 {
			return fmt.Sprintf("%q... (%d bytes)", b[:300], len(b))
		}
		return fmt.Sprintf("%q", b)
	}
	var lines [][]byte
	var events []int64
	descs := map[int]string{}
	var nontrivial int64
	seenIn := map[string]bool{}
	runTotalBatch(c, reqs, descr, 20*time.Second, func(i int, tc *totCase) {
		key := reqs[i].Hex + reqs[i].Family + fmt.Sprint(reqs[i].Size)
		if seenIn[key] {
			return
		}
		seenIn[key] = true
		if reqs[i].Only != "" {
			// decided here: the input is far over the limit, so the call must return an error (that it
			// returned at all, without a crash or the watchdog, is what the child process established)
			for _, o := range tc.Outs {
				if !o.Err {
					c.Violation(fmt.Sprintf("%s on %s: parsed although the input has millions of tokens and the limit is 2 or negative", o.E, descr(i)), map[string]any{"request": reqs[i], "entry": o.E})
				}
			}
			return
		}
		tc.ID = i
		// the exhaustive inputs are tiny: let the specification count their tokens; for long inputs
		// token counting in TLC is affordable up to a few thousand characters
		if reqs[i].Family == "" && len(tc.In) > 4000 {
			tc.N = 1 << 30
		}
		for _, o := range tc.Outs {
			// non-trivial: the lexer got past at least two tokens before the outcome (a document, or an error
			// located after the first token): one-token rejections are the trivial bulk of the exhaustive part
			if tc.Lex.Toks >= 3 && (o.Doc || (o.Err && o.Loc)) {
				nontrivial++
				break
			}
		}
		lines = append(lines, tc.wire())
		events = append(events, int64(len(tc.Outs)))
		descs[i] = descr(i)
		if i == nExh-1 || i == nSmall-1 {
			c.Sample(map[string]any{"input": descr(i), "outcomes": tc.Outs})
		}
	})
	c.Logf("ran %d inputs (%d exhaustive up to %d bytes, %d corpus+mutations, %d size-family cases) through the lexer and 9 parser entry points", len(lines), nExh, maxLen, nSmall-nExh, len(reqs)-nSmall)
	cfg := "SPECIFICATION Spec\nCONSTANTS\n  Devs = " + core.DevSetTLA(devs) + "\nCHECK_DEADLOCK FALSE\n"
	bad, ok := RunTrace(c, TraceJob{Module: "Total_Trace", CfgText: cfg, Lines: lines, Events: events, Shards: 14, Stack: "512m", Heap: "3g", Timeout: 20 * time.Minute})
	if ok {
		c.Count(int64(len(lines)), nontrivial, int64(len(lines)))
		c.Logf("Total_Trace: %d cases validated, %d disagreements", len(lines), len(bad))
		for _, raw := range bad {
			var b struct {
				ID    int    `json:"id"`
				Class string `json:"class"`
			}
			json.Unmarshal(raw, &b)
			c.Violation(fmt.Sprintf("input %s: %s", descs[b.ID], b.Class), map[string]any{"request": reqs[b.ID], "what": b.Class})
		}
	}
}
