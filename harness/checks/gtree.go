package checks

import (
	"encoding/json"
	"fmt"
	"strings"

	"github.com/vektah/gqlparser/v2/ast"
)

// GT is the generic tree both sides are mapped to: what the specification's
// tree events denote, and the projection of the parser's AST.
type GT struct {
	T string `json:"t"`
	V string `json:"v"`
	K []GT   `json:"k"`
	P string `json:"p,omitempty"` // node identity, only set by the projections that need it (links)
}

func (g GT) String() string {
	var b strings.Builder
	g.write(&b)
	return b.String()
}

func (g GT) write(b *strings.Builder) {
	b.WriteString(g.T)
	if g.V != "" || len(g.K) == 0 {
		fmt.Fprintf(b, "=%q", g.V)
	}
	if len(g.K) > 0 {
		b.WriteByte('(')
		for i, k := range g.K {
			if i > 0 {
				b.WriteByte(' ')
			}
			k.write(b)
		}
		b.WriteByte(')')
	}
}

func gtEqual(a, b GT) bool {
	if a.T != b.T || a.V != b.V || len(a.K) != len(b.K) {
		return false
	}
	for i := range a.K {
		if !gtEqual(a.K[i], b.K[i]) {
			return false
		}
	}
	return true
}

func gtListEqual(a, b []GT) bool {
	if len(a) != len(b) {
		return false
	}
	for i := range a {
		if !gtEqual(a[i], b[i]) {
			return false
		}
	}
	return true
}

func gtListString(a []GT) string {
	s := make([]string, len(a))
	for i := range a {
		s[i] = a[i].String()
	}
	return strings.Join(s, " ; ")
}

// normalise children to non-nil slices so that JSON writes [] (TLC's Json
// module has no null)
func gtNorm(a []GT) []GT {
	if a == nil {
		return []GT{}
	}
	for i := range a {
		a[i].K = gtNorm(a[i].K)
	}
	return a
}

// ---- events -> tree (generic, knows nothing about GraphQL) ----

type TreeEvent struct {
	E string `json:"e"`
	T string `json:"t"`
	I int    `json:"i"`
	V string `json:"v"`
}

// BuildTree folds SAX-style events into top-level nodes; lex[i-1] is the text of token i.
func BuildTree(evs []TreeEvent, lex []string) ([]GT, error) {
	stack := []*GT{{T: "doc"}}
	var pend []GT
	for _, e := range evs {
		top := stack[len(stack)-1]
		switch e.E {
		case "open":
			stack = append(stack, &GT{T: e.T, K: pend})
			pend = nil
		case "predesc":
			if e.I < 1 || e.I > len(lex) {
				return nil, fmt.Errorf("predesc refers to token %d of %d", e.I, len(lex))
			}
			pend = []GT{{T: "desc", V: lex[e.I-1]}}
		case "leaf":
			if e.I < 1 || e.I > len(lex) {
				return nil, fmt.Errorf("leaf refers to token %d of %d", e.I, len(lex))
			}
			top.K = append(top.K, GT{T: e.T, V: lex[e.I-1]})
		case "const":
			top.K = append(top.K, GT{T: e.T, V: e.V})
		case "set":
			done := false
			for j := len(top.K) - 1; j >= 0; j-- {
				if top.K[j].T == e.T {
					top.K[j].V = lex[e.I-1]
					done = true
					break
				}
			}
			if !done {
				return nil, fmt.Errorf("set %s: no such leaf", e.T)
			}
		case "close":
			if len(stack) < 2 {
				return nil, fmt.Errorf("close without open")
			}
			stack = stack[:len(stack)-1]
			parent := stack[len(stack)-1]
			parent.K = append(parent.K, *top)
		default:
			return nil, fmt.Errorf("unknown event %q", e.E)
		}
	}
	if len(stack) != 1 {
		return nil, fmt.Errorf("%d nodes left open", len(stack)-1)
	}
	return stack[0].K, nil
}

// opsBeforeFrags: the AST keeps operations and fragments in two lists, so
// their relative order is not observable; both sides are compared with the
// operations first (each list in source order).
func opsBeforeFrags(a []GT) []GT {
	var ops, frags []GT
	for _, n := range a {
		if n.T == "frag" {
			frags = append(frags, n)
		} else {
			ops = append(ops, n)
		}
	}
	return append(ops, frags...)
}

// ---- projection of the executable AST ----

func leaf(t, v string) GT { return GT{T: t, V: v} }

func ProjectQuery(d *ast.QueryDocument) []GT {
	var out []GT
	for _, op := range d.Operations {
		n := GT{T: "op"}
		n.K = append(n.K, leaf("opkind", string(op.Operation)))
		if op.Name != "" {
			n.K = append(n.K, leaf("name", op.Name))
		}
		for _, v := range op.VariableDefinitions {
			n.K = append(n.K, projVarDef(v))
		}
		n.K = append(n.K, projDirs(op.Directives)...)
		n.K = append(n.K, projSel(op.SelectionSet)...)
		out = append(out, n)
	}
	for _, f := range d.Fragments {
		n := GT{T: "frag"}
		n.K = append(n.K, leaf("name", f.Name))
		for _, v := range f.VariableDefinition {
			n.K = append(n.K, projVarDef(v))
		}
		n.K = append(n.K, leaf("typecond", f.TypeCondition))
		n.K = append(n.K, projDirs(f.Directives)...)
		n.K = append(n.K, projSel(f.SelectionSet)...)
		out = append(out, n)
	}
	return out
}

func projVarDef(v *ast.VariableDefinition) GT {
	n := GT{T: "vardef"}
	n.K = append(n.K, leaf("var", v.Variable))
	n.K = append(n.K, projType(v.Type))
	if v.DefaultValue != nil {
		n.K = append(n.K, GT{T: "default", K: []GT{projValue(v.DefaultValue)}})
	}
	n.K = append(n.K, projDirs(v.Directives)...)
	return n
}

func projType(t *ast.Type) GT {
	if t == nil {
		return GT{T: "notype"}
	}
	var n GT
	if t.Elem != nil {
		n = GT{T: "list", K: []GT{projType(t.Elem)}}
	} else {
		n = GT{T: "named", K: []GT{leaf("name", t.NamedType)}}
	}
	if t.NonNull {
		n.K = append(n.K, leaf("nn", "!"))
	}
	return n
}

func projDirs(ds ast.DirectiveList) []GT {
	var out []GT
	for _, d := range ds {
		n := GT{T: "dir"}
		n.K = append(n.K, leaf("name", d.Name))
		n.K = append(n.K, projArgs(d.Arguments)...)
		out = append(out, n)
	}
	return out
}

func projArgs(as ast.ArgumentList) []GT {
	var out []GT
	for _, a := range as {
		out = append(out, GT{T: "arg", K: []GT{leaf("name", a.Name), projValue(a.Value)}})
	}
	return out
}

func projValue(v *ast.Value) GT {
	if v == nil {
		return GT{T: "novalue"}
	}
	switch v.Kind {
	case ast.Variable:
		return leaf("var", v.Raw)
	case ast.IntValue:
		return leaf("int", v.Raw)
	case ast.FloatValue:
		return leaf("float", v.Raw)
	case ast.StringValue, ast.BlockValue:
		return leaf("str", v.Raw)
	case ast.BooleanValue:
		return leaf("bool", v.Raw)
	case ast.NullValue:
		return leaf("null", v.Raw)
	case ast.EnumValue:
		return leaf("enum", v.Raw)
	case ast.ListValue:
		n := GT{T: "listv"}
		for _, c := range v.Children {
			n.K = append(n.K, projValue(c.Value))
		}
		return n
	case ast.ObjectValue:
		n := GT{T: "obj"}
		for _, c := range v.Children {
			n.K = append(n.K, GT{T: "objfield", K: []GT{leaf("name", c.Name), projValue(c.Value)}})
		}
		return n
	}
	return GT{T: fmt.Sprintf("kind%d", v.Kind)}
}

func projSel(ss ast.SelectionSet) []GT {
	var out []GT
	for _, s := range ss {
		switch s := s.(type) {
		case *ast.Field:
			n := GT{T: "field"}
			n.K = append(n.K, leaf("alias", s.Alias), leaf("name", s.Name))
			n.K = append(n.K, projArgs(s.Arguments)...)
			n.K = append(n.K, projDirs(s.Directives)...)
			n.K = append(n.K, projSel(s.SelectionSet)...)
			out = append(out, n)
		case *ast.FragmentSpread:
			n := GT{T: "spread"}
			n.K = append(n.K, leaf("name", s.Name))
			n.K = append(n.K, projDirs(s.Directives)...)
			out = append(out, n)
		case *ast.InlineFragment:
			n := GT{T: "inline"}
			if s.TypeCondition != "" {
				n.K = append(n.K, leaf("typecond", s.TypeCondition))
			}
			n.K = append(n.K, projDirs(s.Directives)...)
			n.K = append(n.K, projSel(s.SelectionSet)...)
			out = append(out, n)
		default:
			out = append(out, GT{T: fmt.Sprintf("%T", s)})
		}
	}
	return out
}

func mustJSON(v any) []byte {
	b, err := json.Marshal(v)
	if err != nil {
		panic(err)
	}
	return b
}
