package checks

import (
	"bytes"
	"encoding/json"
	"fmt"
	"math/rand"
	"strings"

	"github.com/vektah/gqlparser/v2/ast"
	"github.com/vektah/gqlparser/v2/formatter"
	"github.com/vektah/gqlparser/v2/parser"

	"verif/harness/core"
)

func init() {
	Registry["C12"] = checkC12
	Replays["C12"] = func(c *core.Ctx, p string) int { return grammarReplay(c, p, formatBind(0)) }
}

// GTc: a generic tree whose leaf texts are code points (what Printer.tla compares)
type GTc struct {
	T string `json:"t"`
	V []int  `json:"v"`
	K []GTc  `json:"k"`
}

func toGTc(ns []GT) []GTc {
	out := []GTc{}
	for _, n := range ns {
		out = append(out, GTc{T: n.T, V: cps(n.V), K: toGTc(n.K)})
	}
	return out
}

type fmtOpts struct {
	Indent    string
	Comments  bool
	Compacted bool
	NoDesc    bool
	Builtin   bool
}

func (o fmtOpts) String() string {
	return fmt.Sprintf("indent=%q comments=%v compacted=%v withoutDescription=%v builtin=%v", o.Indent, o.Comments, o.Compacted, o.NoDesc, o.Builtin)
}

func (o fmtOpts) options() []formatter.FormatterOption {
	opts := []formatter.FormatterOption{formatter.WithIndent(o.Indent)}
	if o.Comments {
		opts = append(opts, formatter.WithComments())
	}
	if o.Compacted {
		opts = append(opts, formatter.WithCompacted())
	}
	if o.NoDesc {
		opts = append(opts, formatter.WithoutDescription())
	}
	if o.Builtin {
		opts = append(opts, formatter.WithBuiltin())
	}
	return opts
}

var queryFmtOpts = func() []fmtOpts {
	var out []fmtOpts
	for _, ind := range []string{"\t", "", " ", "  "} {
		for _, cm := range []bool{false, true} {
			for _, cp := range []bool{false, true} {
				out = append(out, fmtOpts{Indent: ind, Comments: cm, Compacted: cp})
			}
		}
	}
	return out
}()

func formatQuery(doc *ast.QueryDocument, o fmtOpts) (text string, crash string) {
	defer guard("formatter.FormatQueryDocument", o.String())()
	defer func() {
		if r := recover(); r != nil {
			crash = fmt.Sprintf("panic: %v", r)
		}
	}()
	var buf bytes.Buffer
	formatter.NewFormatter(&buf, o.options()...).FormatQueryDocument(doc)
	return buf.String(), ""
}

type fmtRound struct {
	Tree     []GT
	T1       string
	Reparsed bool
	D1       []GT
	T2       string
	Crash    string
}

// queryRoundTrip: parse src, format, parse again, format again
func queryRoundTrip(src string, o fmtOpts) (r fmtRound, parsed bool) {
	return queryRoundTripOf(src, nil, nil, o)
}

// queryRoundTripOf: the same on a document that was parsed before (and may have been formatted before, under
// other options): tree0 is what the parser produced, and that is what every formatting must denote
func queryRoundTripOf(src string, d0 *ast.QueryDocument, tree0 []GT, o fmtOpts) (r fmtRound, parsed bool) {
	defer guard("parse, format, parse, format ("+o.String()+")", src)()
	if d0 == nil {
		var err error
		d0, err = parser.ParseQuery(&ast.Source{Input: src, Name: "q"})
		if err != nil {
			return r, false
		}
		tree0 = opsBeforeFrags(ProjectQuery(d0))
	}
	r.Tree = tree0
	r.T1, r.Crash = formatQuery(d0, o)
	if r.Crash != "" {
		return r, true
	}
	d1, err := parser.ParseQuery(&ast.Source{Input: r.T1, Name: "formatted"})
	if err != nil {
		return r, true
	}
	r.Reparsed = true
	r.D1 = opsBeforeFrags(ProjectQuery(d1))
	r.T2, r.Crash = formatQuery(d1, o)
	return r, true
}

// formatBind: the grammar automaton's sentences, pushed through format -> parse
func formatBind(seed int64) *GrammarBind {
	gb := queryBind()
	gb.Prop = "C12"
	gb.Parse = func(src string) ([]GT, bool, string) {
		o := queryFmtOpts[(int(seed)+len(src))%len(queryFmtOpts)]
		r, parsed := queryRoundTrip(src, o)
		if !parsed {
			return nil, false, ""
		}
		if r.Crash != "" {
			return nil, false, r.Crash + " (" + o.String() + ")"
		}
		if !r.Reparsed {
			return nil, false, "formatted text does not parse: " + fmt.Sprintf("%q", r.T1) + " (" + o.String() + ")"
		}
		if r.T2 != r.T1 {
			return nil, false, fmt.Sprintf("not a fixpoint: %q then %q (%s)", r.T1, r.T2, o)
		}
		return r.D1, true, ""
	}
	return gb
}

func checkC12(c *core.Ctx) {
	c.Rule = "documents are (a) every derivable sentence of the QueryGrammar_MC graph up to the bound and a sentence through every transition of the larger graph, parsed, formatted under one of the 16 option sets (4 indents x comments x compacted), re-parsed and compared with the tree denoted by the SPECIFICATION's events, plus the fixpoint; (b) generated document trees (strings with quotes, backslashes, control characters, non-BMP and non-printable runes, triple quotes and odd indentation; directives on every location including variable definitions; fragment variables; comments) under every one of the 16 option sets: Printer_Trace reads the formatted text with the specification's own lexer and parser and compares with the formatted document, requires the library's re-parse to agree and the second formatting to reproduce the text. Non-trivial = documents with a string value or a directive; distinct by (text, options)"
	c.Assumptions = []string{"comments and the String / BlockString distinction are not part of the compared tree; operations are compared before fragments", "Printer.tla's SpecParseQuery = Lexer.tla + QueryGrammar.tla + Tree.tla"}
	ldevs := LexerDevs(c)
	gdevs := grammarDevs(c, map[string]bool{"EmptyDocument": true}, parseQueryReal)
	gb := formatBind(c.Seed)
	maxTok, cover, ndocs := 6, 12, 60
	if c.Thorough() {
		maxTok, cover, ndocs = 7, 16, 1500
	}
	g, cleanup := gb.RunGrammarGraph(c, gdevs, maxTok, "Nesting ConstNoVar TypeOK")
	if g != nil {
		st := gb.WalkGrammarGraph(c, g, maxTok, 16)
		reportGrammar(c, st, fmt.Sprintf("format round trip, all paths <= %d tokens", maxTok))
	}
	cleanup()
	if c.HasInternal() {
		return
	}
	g, cleanup = gb.RunGrammarGraph(c, gdevs, cover, "Nesting ConstNoVar TypeOK")
	if g != nil {
		st := gb.TransitionCover(c, g)
		reportGrammar(c, st, fmt.Sprintf("format round trip, transition cover of the <= %d-token graph", cover))
	}
	cleanup()
	if c.HasInternal() {
		return
	}
	rng := rand.New(rand.NewSource(c.Seed*179424673 + 12))
	gen := &QGen{MaxDepth: 3, Unicode: true}
	var lines [][]byte
	var events []int64
	descs := map[int]string{}
	var nontrivial int64
	id := 0
	hand := handFormatDocs()
	// every C0 control character and DEL, written as an UPPER-case escape: whatever spelling the formatter
	// chooses for it (lower-case hex digits, short escapes) has to be read back by the library's lexer
	for cp := 0; cp <= 0x1F; cp++ {
		hand = append(hand, fmt.Sprintf(`{ f(a: "a\u%04Xb", b: ["\u%04X"]) }`, cp, cp))
	}
	hand = append(hand, `{ f(a: "\u007F\u00AD\uABCD\uFEFF\uFFFD") }`)
	for i := 0; i < ndocs+len(hand); i++ {
		var src string
		opts := queryFmtOpts
		if i < len(hand) {
			src = hand[i]
			// every hand document under four option sets, rotating
			opts = []fmtOpts{queryFmtOpts[i%16], queryFmtOpts[(i+5)%16], queryFmtOpts[(i+10)%16], queryFmtOpts[(i+15)%16]}
		} else {
			gen.R = rng
			doc := gen.Doc()
			src = RenderIgnored(UnparseQuery(doc, rng), rng)
		}
		// one parsed document for all option sets: a formatter that leaves something behind in the document
		// shows in the next formatting
		// (every fourth document from a source flagged built-in: the flag says nothing about executable documents)
		d0, perr := parser.ParseQuery(&ast.Source{Input: src, Name: "q", BuiltIn: i%4 == 3})
		if perr != nil {
			if i < len(hand) {
				// a hand-written document is grammatical: if it no longer parses, this check can not do its work
				// (a case that silently disappears is how a defect hides)
				c.Internal("hand-written document does not parse: %v: %q", perr, clip(src, 300))
				// (keep going: a violation found on the remaining cases takes precedence over this)
				continue
			}
			continue
		}
		tree0 := opsBeforeFrags(ProjectQuery(d0))
		for _, o := range opts {
			r, parsed := queryRoundTripOf(src, d0, tree0, o)
			if !parsed {
				break
			}
			if r.Crash != "" {
				c.Violation(fmt.Sprintf("formatter crashed: %s on %q (%s)", r.Crash, src, o), GrammarMismatch{Kind: "crash", Text: src, Observed: r.Crash})
				continue
			}
			id++
			d1 := r.D1
			if d1 == nil {
				d1 = []GT{}
			}
			b, _ := json.Marshal(map[string]any{"id": id, "kind": "query", "tree": toGTc(r.Tree), "t1": cps(r.T1), "reparsed": r.Reparsed, "d1": toGTc(d1), "t2": cps(r.T2), "locs": [][]int{}})
			lines = append(lines, b)
			events = append(events, int64(len(cps(r.T1))))
			descs[id] = fmt.Sprintf("document %q formatted with %s as %q", clip(src, 400), o, clip(r.T1, 400))
			if bytes.Contains(b, []byte(`"t":"str"`)) || bytes.Contains(b, []byte(`"t":"dir"`)) {
				nontrivial++
			}
			if id == 5 {
				c.Sample(map[string]any{"source": src, "options": o.String(), "formatted": r.T1})
			}
		}
	}
	cfg := "SPECIFICATION Spec\nCONSTANTS\n  LexDevs = " + core.DevSetTLA(ldevs) + "\n  GrammarDevs = " + core.DevSetTLA(gdevs) + "\n  PrinterDevs = {}\nCHECK_DEADLOCK FALSE\n"
	bad, ok := RunTrace(c, TraceJob{Module: "Printer_Trace", CfgText: cfg, Lines: lines, Events: events, Shards: 14, Stack: "512m", Heap: "3g"})
	if !ok {
		return
	}
	c.Count(int64(len(lines)), nontrivial, int64(len(lines)))
	// Strings holding bytes that are no Unicode text at all (ill-formed UTF-8: the lexer hands them through). The
	// specification's alphabet is code points, so it has nothing to say about them; "byte for byte" is checked here
	// directly: the values of the re-parsed document have the same bytes, and the text is a fixpoint.
	for i, lit := range []string{"\"caf\xe9\"", "\"\xf0\x9f x\"", "\"\xed\xa0\x80\"", "\"a\\n\xff\xfe b\"", "\"\"\"blk \xe9\n  \xc3\"\"\"", "\"\x80\\u00e9\xbf\""} {
		src := "query Q($v: String = " + lit + ") { f(a: " + lit + ", b: [" + lit + ", {k: " + lit + "}]) @d(s: " + lit + ") }"
		for k := 0; k < 4; k++ {
			o := queryFmtOpts[(i*4+k*5)%len(queryFmtOpts)]
			r, parsed := queryRoundTrip(src, o)
			if !parsed {
				c.Internal("document with ill-formed UTF-8 in a string does not parse: %q", src)
				break
			}
			what := ""
			switch {
			case r.Crash != "":
				what = "formatter crashed: " + r.Crash
			case !r.Reparsed:
				what = "formatted text does not parse"
			case gtListString(r.Tree) != gtListString(r.D1):
				what = fmt.Sprintf("string bytes changed over format and parse: %s became %s", gtListString(r.Tree), gtListString(r.D1))
			case r.T2 != r.T1:
				what = "formatting the re-parsed document gives a different text (not a fixpoint)"
			}
			if what != "" {
				c.Violation(fmt.Sprintf("%s: document %q formatted with %s as %q", what, src, o, r.T1), map[string]any{"what": what, "source_hex": fmt.Sprintf("%x", src), "options": o.String()})
			}
			c.AddExtraInt("ill_formed_utf8_round_trips", 1)
		}
	}
	c.Logf("Printer_Trace: %d (document, options) round trips validated, %d disagreements", len(lines), len(bad))
	for _, raw := range bad {
		var b struct {
			ID    int    `json:"id"`
			Class string `json:"class"`
		}
		json.Unmarshal(raw, &b)
		c.Violation(fmt.Sprintf("%s: %s", b.Class, descs[b.ID]), map[string]any{"what": b.Class, "case": descs[b.ID]})
	}
}

// handFormatDocs: deterministic documents for the shapes the random stream
// reaches rarely: every tricky string value in every spelling (as argument, as
// default value, inside a list and an object), and documents with many
// definitions sharing source lines in an order that differs from
// operations-then-fragments.
func handFormatDocs() []string {
	var out []string
	for _, v := range trickyStrings {
		for _, sp := range stringSpellings(v) {
			out = append(out, "{ f(a: "+sp+") }")
			out = append(out, "query Q($v: String = "+sp+" @d(x: ["+sp+"])) { f(a: {k: "+sp+"}) @e(s: "+sp+") }")
		}
	}
	// a comment directly in front of every kind of node (with comments on, what the formatter writes must read
	// back as the same comments at the same nodes: the second formatting reproduces the text)
	out = append(out,
		"query Q($a: [Int] = # c1\n [1, 2], $b: In = # c2\n {k: 1}, # c3\n $c: Int = # c4\n 3 # c5\n @d) { f }",
		"fragment F($a: [Int] = # c1\n [# c2\n 1, # c3\n [2]], $b: In = {# c4\n k: # c5\n {j: 1}}) on T { f }",
		"# c0\nquery Q # c1\n ($a: Int) # c2\n @d # c3\n { # c4\n f # c5\n (# c6\n a: # c7\n [1], # c8\n b: {# c9\n k: 1}) # c10\n @e(# c11\n x: 1) # c12\n { g } # c13\n ... # c14\n on T # c15\n { h } # c16\n ...F # c17\n @s } # c18\n",
		"{ a # c1\n b: # c2\n c # c3\n } # c4\n fragment F # c5\n on # c6\n T # c7\n { x }",
	)
	// lists of five and more items of mixed kinds, numbers first
	out = append(out,
		`query($x: Int) { f(ids: [1, 2, 3, 4, $x], m: [1.5, 2, 3, 4, "s", [5], {k: 6}, RED, null, true, $x]) @d(l: [0, 1, 2, 3, 4, 5, "six"]) }`,
		`query($v: [Any] = [1, 2, 3, 4, "five", [6, 7, 8, 9, {k: [1, 2, 3, 4, E]}]]) { f(a: {k: [1, 2, 3, 4, 5, $v]}) }`,
		`{ f(a: [-1, 0, 1, 2, 3, abc], b: [1e3, 2, 3, 4, 5, "1"], c: ["s", 1, 2, 3, 4, 5], d: [[1, 2, 3, 4, 5], [1, 2, 3, 4, x]]) }`,
	)
	for _, n := range []int{7, 9, 13, 20} {
		var frags, ops, mixed strings.Builder
		for i := 0; i < n; i++ {
			fmt.Fprintf(&frags, "fragment F%d on T { a%d } ", i, i)
			fmt.Fprintf(&ops, "query Q%d { b%d ...F%d } ", i, i, i)
			fmt.Fprintf(&mixed, "query M%d { b%d } fragment G%d on T { a%d } ", i, i, i, i)
			if i%3 == 2 {
				mixed.WriteString("\n")
			}
		}
		out = append(out, frags.String()+"\n"+ops.String(), ops.String()+"\n"+frags.String(), frags.String()+ops.String(), mixed.String(),
			frags.String()+"\n"+ops.String()+"\n"+mixed.String())
	}
	return out
}
