package checks

import (
	"fmt"
	"math/rand"
	"strings"
)

// GenLexInput produces a long random input over the GraphQL source alphabet,
// mixing every token kind, Unicode (BMP and beyond), every escape, CR/LF/CRLF,
// BOMs and occasional lexical errors. Valid UTF-8 only; no surrogate escapes.
func GenLexInput(r *rand.Rand, pieces int) string {
	var b strings.Builder
	names := []string{"a", "query", "_x1", "on", "true", "Zz_9", "e", "E1", "fragment", "null", "u0041", "x"}
	puncts := []string{"!", "$", "&", "(", ")", "...", ":", "=", "@", "[", "]", "{", "}", "|"}
	ws := []string{" ", "\t", ",", "\n", "\r", "\r\n", "\ufeff", "  ", "\n\n", "\r\r\n", " \t,"}
	uni := []rune{'é', 'ß', '中', '\u2028', '\u00a0', '\u007f', '\U0001F600', '\U000E0001', '\uFFFD', '\u0080'}
	strChar := func() string {
		switch r.Intn(12) {
		case 0:
			return string(uni[r.Intn(len(uni))])
		case 1:
			return []string{`\"`, `\\`, `\/`, `\b`, `\f`, `\n`, `\r`, `\t`}[r.Intn(8)]
		case 2:
			v := r.Intn(0x10000)
			if v >= 0xD800 && v <= 0xDFFF {
				v = 0x41
			}
			if r.Intn(2) == 0 {
				return fmt.Sprintf(`\u%04x`, v)
			}
			return fmt.Sprintf(`\u%04X`, v)
		case 3:
			return "\t"
		case 4:
			return " "
		case 5:
			return "#"
		default:
			return string(rune('a' + r.Intn(26)))
		}
	}
	blockChar := func() string {
		switch r.Intn(14) {
		case 0:
			return "\n"
		case 1:
			return "\r\n"
		case 2:
			return "\r"
		case 3:
			return "  "
		case 4:
			return "\t"
		case 5:
			return `\"""`
		case 6:
			return `"`
		case 7:
			return `""`
		case 8:
			return `\`
		case 9:
			return string(uni[r.Intn(len(uni))])
		case 10:
			return "\n    "
		default:
			return string(rune('a' + r.Intn(26)))
		}
	}
	for i := 0; i < pieces; i++ {
		switch k := r.Intn(100); {
		case k < 18:
			b.WriteString(names[r.Intn(len(names))])
		case k < 32:
			b.WriteString(puncts[r.Intn(len(puncts))])
		case k < 44:
			// numbers, mostly valid
			n := []string{"0", "7", "-0", "123", "-45", "1.5", "0.0", "1e5", "1E+5", "2.5e-3", "-0.1E9", "10", "9007199254740993"}[r.Intn(13)]
			b.WriteString(n)
		case k < 54:
			b.WriteByte('"')
			for j := r.Intn(8); j > 0; j-- {
				b.WriteString(strChar())
			}
			b.WriteByte('"')
		case k < 62:
			b.WriteString(`"""`)
			for j := r.Intn(12); j > 0; j-- {
				b.WriteString(blockChar())
			}
			// never end the body with a quote or backslash-quote ambiguity on purpose half of the time
			if r.Intn(2) == 0 {
				b.WriteString("z")
			}
			b.WriteString(`"""`)
		case k < 68:
			b.WriteByte('#')
			for j := r.Intn(10); j > 0; j-- {
				if r.Intn(6) == 0 {
					b.WriteRune(uni[r.Intn(len(uni))])
				} else {
					b.WriteByte(byte(' ' + r.Intn(90)))
				}
			}
			b.WriteString([]string{"\n", "\r", "\r\n"}[r.Intn(3)])
		case k < 97:
			b.WriteString(ws[r.Intn(len(ws))])
			continue
		default:
			// rare lexical error material
			b.WriteString([]string{"?", "'", "\x01", "..", "1.", "-", "1e", "\"\\q\"", "\"abc", "0x1F", "01", "é", "~", "\"\\u12G4\"", ".5", "1.2.3"}[r.Intn(16)])
		}
		// separator: sometimes none (adjacent tokens), mostly ignored characters
		if r.Intn(4) != 0 {
			b.WriteString(ws[r.Intn(len(ws))])
		}
	}
	return b.String()
}
