package checks

import (
	"fmt"
	"math/rand"
	"strings"
)

// GenLexInput produces a long random input over the GraphQL source alphabet,
// mixing every token kind, Unicode (BMP and beyond), every escape, CR/LF/CRLF,
// BOMs and occasional lexical errors. Valid UTF-8 only; no surrogate escapes.
func GenLexInput(r *rand.Rand, pieces int) string {
	var b strings.Builder
	names := []string{"a", "query", "_x1", "on", "true", "Zz_9", "e", "E1", "fragment", "null", "u0041", "x"}
	puncts := []string{"!", "$", "&", "(", ")", "...", ":", "=", "@", "[", "]", "{", "}", "|"}
	ws := []string{" ", "\t", ",", "\n", "\r", "\r\n", "\ufeff", "  ", "\n\n", "\r\r\n", " \t,"}
	uni := []rune{'é', 'ß', '中', '\u2028', '\u00a0', '\u007f', '\U0001F600', '\U000E0001', '\uFFFD', '\u0080'}
	strChar := func() string {
		switch r.Intn(12) {
		case 0:
			return string(uni[r.Intn(len(uni))])
		case 1:
			return []string{`\"`, `\\`, `\/`, `\b`, `\f`, `\n`, `\r`, `\t`}[r.Intn(8)]
		case 2:
			v := r.Intn(0x10000)
			if v >= 0xD800 && v <= 0xDFFF {
				v = 0x41
			}
			if r.Intn(2) == 0 {
				return fmt.Sprintf(`\u%04x`, v)
			}
			return fmt.Sprintf(`\u%04X`, v)
		case 3:
			return "\t"
		case 4:
			return " "
		case 5:
			return "#"
		default:
			return string(rune('a' + r.Intn(26)))
		}
	}
	blockChar := func() string {
		switch r.Intn(14) {
		case 0:
			return "\n"
		case 1:
			return "\r\n"
		case 2:
			return "\r"
		case 3:
			return "  "
		case 4:
			return "\t"
		case 5:
			return `\"""`
		case 6:
			return `"`
		case 7:
			return `""`
		case 8:
			return `\`
		case 9:
			return string(uni[r.Intn(len(uni))])
		case 10:
			return "\n    "
		default:
			return string(rune('a' + r.Intn(26)))
		}
	}
	for i := 0; i < pieces; i++ {
		switch k := r.Intn(100); {
		case k < 18:
			b.WriteString(names[r.Intn(len(names))])
		case k < 32:
			b.WriteString(puncts[r.Intn(len(puncts))])
		case k < 44:
			// numbers, mostly valid
			n := []string{"0", "7", "-0", "123", "-45", "1.5", "0.0", "1e5", "1E+5", "2.5e-3", "-0.1E9", "10", "9007199254740993"}[r.Intn(13)]
			b.WriteString(n)
		case k < 54:
			b.WriteByte('"')
			for j := r.Intn(8); j > 0; j-- {
				b.WriteString(strChar())
			}
			b.WriteByte('"')
		case k < 62:
			b.WriteString(`"""`)
			for j := r.Intn(12); j > 0; j-- {
				b.WriteString(blockChar())
			}
			// never end the body with a quote or backslash-quote ambiguity on purpose half of the time
			if r.Intn(2) == 0 {
				b.WriteString("z")
			}
			b.WriteString(`"""`)
		case k < 68:
			b.WriteByte('#')
			for j := r.Intn(10); j > 0; j-- {
				if r.Intn(6) == 0 {
					b.WriteRune(uni[r.Intn(len(uni))])
				} else {
					b.WriteByte(byte(' ' + r.Intn(90)))
				}
			}
			b.WriteString([]string{"\n", "\r", "\r\n"}[r.Intn(3)])
		case k < 97:
			b.WriteString(ws[r.Intn(len(ws))])
			continue
		default:
			// rare lexical error material
			b.WriteString([]string{"?", "'", "\x01", "..", "1.", "-", "1e", "\"\\q\"", "\"abc", "0x1F", "01", "é", "~", "\"\\u12G4\"", ".5", "1.2.3"}[r.Intn(16)])
		}
		// separator: sometimes none (adjacent tokens), mostly ignored characters
		if r.Intn(4) != 0 {
			b.WriteString(ws[r.Intn(len(ws))])
		}
	}
	return b.String()
}

// StructuredLexInputs: deterministic inputs that sweep what the short exhaustive inputs and the random
// ones rarely reach: every count of a repeated construct from 1 to 40 (lines of a block string, with and
// without indentation and trailing blank lines; escapes in a string; digits; name characters; comment
// lines; nested brackets), every escape letter, every class of wrong character at every position of a
// \uXXXX escape, long tokens that end in characters of every UTF-8 width.
func StructuredLexInputs() []string {
	var out []string
	rep := strings.Repeat
	for n := 1; n <= 40; n++ {
		var lines []string
		for i := 0; i < n; i++ {
			lines = append(lines, fmt.Sprintf("    line%c", 'a'+rune(i%26)))
		}
		body := strings.Join(lines, "\n")
		out = append(out, "\"\"\"\n"+body+"\n    \"\"\" x", "\"\"\""+strings.TrimLeft(body, " ")+"\n\n  \"\"\"", "\"\"\"\r\n"+strings.ReplaceAll(body, "\n", "\r\n")+"\r\n\"\"\"1",
			"\""+rep(`\n`, n)+"\" \""+rep(`\u00e9`, n)+"\"", rep("7", n)+" -"+rep("3", n)+"."+rep("1", n)+"e"+rep("2", (n%3)+1), "_"+rep("aZ9", n)+" "+rep("#c\n", n)+"x",
			rep("[", n)+rep("]", n)+rep("{", n)+"!"+rep("...", n))
	}
	// every single-character escape, valid or not
	for c := 0x20; c < 0x7f; c++ {
		out = append(out, "\"a\\"+string(rune(c))+"b\" x")
	}
	out = append(out, "\"a\\\x01b\"", "\"a\\\n\"", "\"a\\é\"", "\"a\\")
	// \uXXXX with one wrong character at each position
	wrong := []string{"g", "G", " ", "/", ":", "@", "`", "-", "\x10", "\x13", "\x19", "\x7f", "é", "\"", "\\", "\n", "x", "+"}
	for pos := 0; pos < 4; pos++ {
		for _, w := range wrong {
			hex := []string{"0", "0", "e", "9"}
			hex[pos] = w
			out = append(out, "\"caf\\u"+strings.Join(hex, "")+" au lait\" y")
		}
	}
	out = append(out, "\"\\u00e\"", "\"\\u00\"", "\"\\u\"", "\"\\uFFFD\\uffff\\u0000\"")
	// long tokens ending in characters of every width
	for n := 56; n <= 72; n++ {
		for _, tail := range []string{"x", "é", "日", "\U0001F600", "é\U0001F600"} {
			out = append(out, "\""+rep("a", n)+tail+"\"", "\"\"\""+rep("b", n)+tail+"\"\"\" z", "#"+rep("c", n)+tail)
		}
	}
	// every tricky string value in every spelling, and block strings whose lines are indented by a mix of
	// blanks, tabs and Unicode spaces (only blanks and tabs are indentation)
	for _, v := range trickyStrings {
		for _, sp := range stringSpellings(v) {
			out = append(out, sp+" x")
		}
	}
	for _, body := range []string{"x\n\u3000a\n b", "\n\u00a0a\n\tb\n  c", "x\n\u2003\u2003a\n\u2003b\n c", "\n  \u3000a\n  b\n", "x\n\u00a0\n \u00a0y", "\n\u3000a\n\u3000b\n", "\n \u2028a\n \u0085b"} {
		out = append(out, "\"\"\""+body+"\"\"\" y")
	}
	// a block string with one very long line (beyond the 64 KiB buffer of a line scanner), first, in the middle, last
	long := rep("x", 66000)
	out = append(out, "\"\"\"\n  a\n  "+long+"\n  b\n\"\"\" y", "\"\"\""+long+"\n  b\"\"\"", "\"\"\"\n  a\n "+long+"\"\"\"")
	// characters at the edges of every UTF-8 length class and U+FFFD, inside comments, strings and block strings,
	// with tokens after them on the same and on the next line
	for _, ch := range []string{"\u007f", "\u0080", "\u07ff", "\u0800", "\u0e23\u0e32\u0e04\u0e32", "\u0915\u0940", "\u0fff", "\u1000", "\ud7ff", "\ue000", "\ufffd", "\uffff", "\U00010000", "\U0010ffff", "x\ufffd\ufffdy"} {
		out = append(out, "# "+ch+" c\n{ a }", "{ a # "+ch+"\n b } # "+ch, "\""+ch+"\" x # "+ch+" "+ch+"\ny", "\"\"\"\n  "+ch+"\n "+ch+"\n\"\"\" z", ch)
	}
	// block strings whose lines start with, or consist of, commas (a comma is ignored BETWEEN tokens; inside a
	// block string it is text and never indentation)
	for _, body := range []string{"\n  one\n, two\n", "first\n,\n", "\n,,\n  last", "\n  one\n ,  two\n", "\n,\n", ",\n ,\n  ,x", "\n\t,a\n\t b"} {
		out = append(out, "\"\"\""+body+"\"\"\" y")
	}
	return out
}
