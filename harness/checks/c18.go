package checks

import (
	"encoding/json"
	"fmt"
	"math/rand"
	"strings"
	"unicode/utf8"

	"github.com/vektah/gqlparser/v2"
	"github.com/vektah/gqlparser/v2/ast"
	"github.com/vektah/gqlparser/v2/parser"
	"github.com/vektah/gqlparser/v2/validator"
	"github.com/vektah/gqlparser/v2/validator/rules"

	"verif/harness/core"
	"verif/harness/tlc"
)

func init() {
	Registry["C18"] = checkC18
}

var standardRules = []validator.Rule{
	rules.FieldsOnCorrectTypeRule, rules.FragmentsOnCompositeTypesRule, rules.KnownArgumentNamesRule, rules.KnownDirectivesRule,
	rules.KnownFragmentNamesRule, rules.KnownRootTypeRule, rules.KnownTypeNamesRule, rules.LoneAnonymousOperationRule,
	rules.MaxIntrospectionDepth, rules.NoFragmentCyclesRule, rules.NoUndefinedVariablesRule, rules.NoUnusedFragmentsRule,
	rules.NoUnusedVariablesRule, rules.OverlappingFieldsCanBeMergedRule, rules.PossibleFragmentSpreadsRule,
	rules.ProvidedRequiredArgumentsRule, rules.ScalarLeafsRule, rules.SingleFieldSubscriptionsRule, rules.UniqueArgumentNamesRule,
	rules.UniqueDirectivesPerLocationRule, rules.UniqueFragmentNamesRule, rules.UniqueInputFieldNamesRule,
	rules.UniqueOperationNamesRule, rules.UniqueVariableNamesRule, rules.ValuesOfCorrectTypeRule, rules.VariablesAreInputTypesRule,
	rules.VariablesInAllowedPositionRule,
}

var variantRules = []struct {
	Variant, Base validator.Rule
}{
	{rules.FieldsOnCorrectTypeRuleWithoutSuggestions, rules.FieldsOnCorrectTypeRule},
	{rules.KnownArgumentNamesRuleWithoutSuggestions, rules.KnownArgumentNamesRule},
	{rules.KnownTypeNamesRuleWithoutSuggestions, rules.KnownTypeNamesRule},
	{rules.ValuesOfCorrectTypeRuleWithoutSuggestions, rules.ValuesOfCorrectTypeRule},
}

// runRules validates text against a FRESHLY loaded schema on a fresh parse with the given rules
// (nil = the default call).
// rulesWithVariants: the full rule list with every rule that has a without-suggestions variant replaced by it
func rulesWithVariants() []validator.Rule {
	vrs := append([]validator.Rule{}, standardRules...)
	for k := range vrs {
		for _, v := range variantRules {
			if vrs[k].Name == v.Base.Name {
				vrs[k] = v.Variant
			}
		}
	}
	return vrs
}

func runRules(sdl, text string, rs []validator.Rule) (errs []EErr, crash string) {
	defer func() {
		if r := recover(); r != nil {
			crash = fmt.Sprintf("panic: %v", r)
		}
	}()
	schema, err := gqlparser.LoadSchema(&ast.Source{Name: "schema.graphql", Input: sdl})
	if err != nil {
		return nil, "schema does not load: " + err.Error()
	}
	doc, perr := parser.ParseQuery(&ast.Source{Input: text, Name: "q.graphql"})
	if perr != nil {
		return nil, "document does not parse"
	}
	if rs == nil {
		return projErrs(validator.Validate(schema, doc)), ""
	}
	return projErrs(validator.Validate(schema, doc, rs...)), ""
}

type composeSet struct {
	Label string   `json:"label"`
	Rules []string `json:"rules"`
	Errs  []EErr   `json:"errs"`
}

func checkC18(c *core.Ctx) {
	c.Rule = "cases are (schema, document) pairs from the typed generators (valid, 1-3 injected faults, type-blind) and hand-written documents; for each: every one of the 27 exported rules alone, 10 (quick) / 50 (thorough) random subsets in random order, the explicit list of all rules, the default call, and the four without-suggestions variants, each on a fresh parse against a freshly loaded schema, plus subsets run one after another on one shared tree. Compose_Trace checks: errors of a set = multiset union of its members' singleton errors, each tagged with a member; default = explicit full list; variant = standard rule minus a ' Did you mean' suffix at equal locations. Non-trivial = documents on which at least two rules report; distinct by text"
	c.Assumptions = []string{"an error is compared as (rule, message, locations)", "Compose.tla's CompositionLaw is model-checked on three abstract observers over all event sequences up to length 4, with and without an interfering observer"}
	r := c.RunTLC(tlc.Opts{Module: "Compose_MC", CfgFile: "Compose_MC.cfg", Workers: 4})
	tlc.Cleanup(r)
	if c.HasInternal() {
		return
	}
	nschemas, ndocs, nsub := 2, 50, 10
	if c.Thorough() {
		nschemas, ndocs, nsub = 12, 200, 50
	}
	rng := rand.New(rand.NewSource(c.Seed*49979693 + 18))
	tg := &TGen{R: rng}
	var lines [][]byte
	var events []int64
	descs := map[int]string{}
	id := 0
	var nontrivial int64
	addDoc := func(sdl, text string) {
		type single struct {
			Rule string `json:"rule"`
			Errs []EErr `json:"errs"`
		}
		var singles []single
		reporting := 0
		for _, rl := range standardRules {
			errs, crash := runRules(sdl, text, []validator.Rule{rl})
			if crash == "document does not parse" {
				return
			}
			if crash != "" {
				c.Violation(fmt.Sprintf("rule %s alone: %s on %q", rl.Name, crash, text), map[string]any{"sdl": sdl, "query": text, "rule": rl.Name, "crash": crash})
				return
			}
			if len(errs) > 0 {
				reporting++
			}
			singles = append(singles, single{rl.Name, errs})
		}
		var sets []composeSet
		mk := func(label string, rs []validator.Rule, dflt bool) bool {
			var errs []EErr
			var crash string
			if dflt {
				errs, crash = runRules(sdl, text, nil)
			} else {
				errs, crash = runRules(sdl, text, rs)
			}
			if crash != "" {
				c.Violation(fmt.Sprintf("rule set %s: %s on %q", label, crash, text), map[string]any{"sdl": sdl, "query": text, "set": label, "crash": crash})
				return false
			}
			names := []string{}
			for _, x := range rs {
				names = append(names, x.Name)
			}
			sets = append(sets, composeSet{Label: label, Rules: names, Errs: errs})
			return true
		}
		if !mk("explicit list of all rules", standardRules, false) || !mk("default call", standardRules, true) {
			return
		}
		// the empty (non-nil) rule list: the union over no rule is no error
		if !mk("explicit empty rule list", []validator.Rule{}, false) {
			return
		}
		for k := 0; k < nsub; k++ {
			perm := rng.Perm(len(standardRules))
			n := 2 + rng.Intn(6)
			var rs []validator.Rule
			for _, p := range perm[:n] {
				rs = append(rs, standardRules[p])
			}
			if !mk(fmt.Sprintf("subset %d", k), rs, false) {
				return
			}
		}
		// a shared tree validated by several subsets one after another (state left on the document must not leak)
		if schema, err := gqlparser.LoadSchema(&ast.Source{Name: "schema.graphql", Input: sdl}); err == nil {
			if doc, perr := parser.ParseQuery(&ast.Source{Input: text, Name: "q.graphql"}); perr == nil {
				for k := 0; k < 3; k++ {
					perm := rng.Perm(len(standardRules))
					var rs []validator.Rule
					names := []string{}
					for _, p := range perm[:3+rng.Intn(5)] {
						rs = append(rs, standardRules[p])
						names = append(names, standardRules[p].Name)
					}
					func() {
						defer func() { recover() }()
						sets = append(sets, composeSet{Label: fmt.Sprintf("shared tree, pass %d", k), Rules: names, Errs: projErrs(validator.Validate(schema, doc, rs...))})
					}()
				}
			}
		}
		type variant struct {
			Rule     string `json:"rule"`
			Base     string `json:"base"`
			Errs     []EErr `json:"errs"`
			BaseErrs []EErr `json:"baseErrs"`
		}
		var variants []variant
		for _, v := range variantRules {
			ve, crash := runRules(sdl, text, []validator.Rule{v.Variant})
			if crash != "" {
				c.Violation(fmt.Sprintf("rule %s alone: %s on %q", v.Variant.Name, crash, text), map[string]any{"sdl": sdl, "query": text, "rule": v.Variant.Name, "crash": crash})
				return
			}
			be, _ := runRules(sdl, text, []validator.Rule{v.Base})
			// tags differ by construction (each run is tagged with its own rule name)
			for i := range ve {
				if ve[i].Rule != v.Variant.Name {
					c.Violation(fmt.Sprintf("rule %s reports an error tagged %q", v.Variant.Name, ve[i].Rule), map[string]any{"sdl": sdl, "query": text})
				}
			}
			variants = append(variants, variant{v.Variant.Name, v.Base.Name, ve, be})
		}
		id++
		b, _ := json.Marshal(map[string]any{"id": id, "singles": singles, "sets": sets, "variants": variants})
		lines = append(lines, b)
		events = append(events, int64(len(sets)+len(variants)))
		descs[id] = fmt.Sprintf("document %q (schema %q)", clip(text, 600), clip(sdl, 300))
		if reporting >= 2 {
			nontrivial++
		}
		if id == 1 {
			c.Sample(map[string]any{"document": text, "rules_reporting_alone": reporting, "sets_run": len(sets)})
		}
	}
	for si := 0; si < nschemas; si++ {
		var schema *ast.Schema
		var sdl string
		for try := 0; try < 20 && schema == nil; try++ {
			gs := tg.Gen()
			sdl = gs.doc.SDL()
			if l, s, crash := loadReal([]*ast.Source{{Name: "schema.graphql", Input: sdl}}); crash == "" && l.OK {
				schema = s
			}
		}
		if schema == nil {
			c.Internal("could not generate a loadable schema")
			return
		}
		dg := &DGen{R: rng, S: schema}
		qg := &QGen{R: rng, MaxDepth: 3}
		vocab := schemaVocabulary(schema)
		for i := 0; i < ndocs; i++ {
			var text string
			switch i % 5 {
			case 0:
				text = RenderSpaces(UnparseQuery(dg.Doc(), nil))
			case 4:
				text = RenderSpaces(UnparseQuery(renameToVocabulary(qg.Doc(), vocab, rng), nil))
			default:
				doc := dg.Doc()
				for k := 0; k < 1+rng.Intn(3); k++ {
					InjectDocFault(dg, &doc, rng)
				}
				text = RenderSpaces(UnparseQuery(doc, nil))
			}
			addDoc(sdl, text)
		}
	}
	for _, q := range handRuleDocs {
		if strings.Contains(q, "{") {
			addDoc(handRuleSDL, q)
		}
	}
	for _, q := range handComposeDocs {
		addDoc(handRuleSDL, q)
	}
	// fragments that spread each other around a conflict: what a rule sees of nodes the walk has not reached yet
	// must not depend on which other rules run with it (a rule following spreads without observing them)
	for _, q := range cyclicConflictDocs {
		addDoc(adversarySDL, q)
	}
	for _, f := range adversaryFamilies {
		if d := adversaryDoc(f, 3); utf8.ValidString(d) {
			addDoc(adversarySDL, d)
		}
	}
	bad, ok := RunTrace(c, TraceJob{Module: "Compose_Trace", CfgText: "SPECIFICATION Spec\nCHECK_DEADLOCK FALSE\n", Lines: lines, Events: events, Shards: 14, Stack: "256m", Heap: "3g"})
	if !ok {
		return
	}
	c.Count(int64(len(lines)), nontrivial, int64(len(lines)))
	c.Logf("Compose_Trace: %d (schema, document) pairs, %d disagreements", len(lines), len(bad))
	for _, raw := range bad {
		var b struct {
			ID    int    `json:"id"`
			Class string `json:"class"`
			Which string `json:"which"`
		}
		json.Unmarshal(raw, &b)
		c.Violation(fmt.Sprintf("%s (%s): %s", b.Class, b.Which, descs[b.ID]), map[string]any{"what": b.Class, "which": b.Which, "case": descs[b.ID]})
	}
}

var handComposeDocs = []string{
	`query Q($flag: Boolean!) { a: s @include(if: $flag) b: s @skip(if: $missing) c: s @include(if: 3) }`,
	`query Q($id: Int = 1) { a: f(nn: $id) b: f c: f(nn: null) }`,
	`query Q($v: Int) { f(nn: 1, i: $v) @skip(if: $u) ...F } fragment F on Query { f(nn: $v) @once(zz: $w) }`,
	`{ a { nope } b { y @nope(x: $v) } u { x } ... on Nope { s } ...G } fragment G on Qery { s }`,
	`{ e(v: REDD) f(nn: 1, ii: 2) a { xx } } fragment F on A { x }`,
	// numeric literals no host number can hold (the without-suggestions variants must report them too)
	`{ num(fl: 1e999) }`, `{ num(id: 99999999999999999999999) }`, `{ num(fls: [1.5, 1e999, 99999999999999999999999]) }`, `{ num(o: {fl: 1e999, id: 99999999999999999999999}) }`,
	`{ num(fl: 99999999999999999999999) f(nn: 99999999999999999999999) }`, `query($v: Float = 1e999, $w: [Num] = [{fl: 1e999}]) { num(fl: $v) n2: num(o: {fl: $v}) }`,
	// value faults and variable uses that only occur inside directive arguments
	`query Q($v: Boolean, $unused: Int) { s @include(if: $v) t: s @skip(if: $nope) u: s @include(if: "yes") }`,
	`query Q($v: Boolean!) { ...F @include(if: $v) } fragment F on Query { s @skip(if: $v) a { x @include(if: 1) } }`,
}
