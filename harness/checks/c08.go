package checks

import (
	"encoding/json"
	"fmt"
	"math/rand"
	"os"
	"sort"
	"strings"

	"github.com/vektah/gqlparser/v2/ast"
	"github.com/vektah/gqlparser/v2/gqlerror"
	"github.com/vektah/gqlparser/v2/parser"
	"github.com/vektah/gqlparser/v2/validator"

	"verif/harness/core"
)

func init() {
	Registry["C08"] = checkC08
}

// ---- schema header for Rules.tla ----

type RArg struct {
	Name   string `json:"name"`
	Type   AType  `json:"type"`
	HasDef bool   `json:"hasDef"`
}
type RField struct {
	Name   string `json:"name"`
	Type   AType  `json:"type"`
	Args   []RArg `json:"args"`
	HasDef bool   `json:"hasDef"`
}
type RType struct {
	Kind    string   `json:"kind"`
	Name    string   `json:"name"`
	Ifaces  []string `json:"ifaces"`
	Fields  []RField `json:"fields"`
	Members []string `json:"members"`
	Values  []string `json:"values"`
	OneOf   bool     `json:"oneOf"`
}
type RDir struct {
	Name string   `json:"name"`
	Args []RArg   `json:"args"`
	Locs []string `json:"locs"`
	Rep  bool     `json:"rep"`
}
type RSchema struct {
	Types    []RType  `json:"types"`
	Dirs     []RDir   `json:"dirs"`
	Q        []string `json:"q"`
	M        []string `json:"m"`
	S        []string `json:"s"`
	Possible []ARel   `json:"possible"`
}

func rArgs(as ast.ArgumentDefinitionList) []RArg {
	out := []RArg{}
	for _, a := range as {
		out = append(out, RArg{Name: a.Name, Type: projAType(a.Type), HasDef: a.DefaultValue != nil})
	}
	return out
}

func ProjectRSchema(s *ast.Schema) RSchema {
	var r RSchema
	names := make([]string, 0, len(s.Types))
	for n := range s.Types {
		names = append(names, n)
	}
	sort.Strings(names)
	for _, n := range names {
		d := s.Types[n]
		t := RType{Kind: string(d.Kind), Name: d.Name, Ifaces: append([]string{}, d.Interfaces...), Fields: []RField{}, Members: append([]string{}, d.Types...), Values: []string{},
			OneOf: d.Directives.ForName("oneOf") != nil}
		for _, f := range d.Fields {
			t.Fields = append(t.Fields, RField{Name: f.Name, Type: projAType(f.Type), Args: rArgs(f.Arguments), HasDef: f.DefaultValue != nil})
		}
		for _, v := range d.EnumValues {
			t.Values = append(t.Values, v.Name)
		}
		r.Types = append(r.Types, t)
	}
	dn := make([]string, 0, len(s.Directives))
	for n := range s.Directives {
		dn = append(dn, n)
	}
	sort.Strings(dn)
	r.Dirs = []RDir{}
	for _, n := range dn {
		d := s.Directives[n]
		x := RDir{Name: d.Name, Args: rArgs(d.Arguments), Locs: []string{}, Rep: d.IsRepeatable}
		for _, l := range d.Locations {
			x.Locs = append(x.Locs, string(l))
		}
		r.Dirs = append(r.Dirs, x)
	}
	l := ProjectLoaded(s)
	r.Q, r.M, r.S, r.Possible = l.Q, l.M, l.S, l.Possible
	return r
}

// ---- running the real validator ----

type valObs struct {
	ParseOK bool
	Errs    gqlerror.List
	Rules   []string // distinct rule names that reported
	Crash   string
	Doc     *ast.QueryDocument
}

// validateFirstOn: when set, validateReal validates every parsed document against this schema before the one asked for
var validateFirstOn *ast.Schema

func validateReal(schema *ast.Schema, text string) (o valObs) {
	defer guard("parser.ParseQuery + validator.Validate", text)()
	defer func() {
		if r := recover(); r != nil {
			o.Crash = fmt.Sprintf("panic: %v", r)
		}
	}()
	doc, err := parser.ParseQuery(&ast.Source{Input: text, Name: "q.graphql"})
	if err != nil {
		return o
	}
	o.ParseOK = true
	o.Doc = doc
	if validateFirstOn != nil {
		// a document kept from before a schema change: validated against the OTHER schema first, then against the
		// one that counts (the verdict is about the last one only)
		validator.Validate(validateFirstOn, doc)
	}
	o.Errs = validator.Validate(schema, doc)
	seen := map[string]bool{}
	for _, e := range o.Errs {
		if !seen[e.Rule] {
			seen[e.Rule] = true
			o.Rules = append(o.Rules, e.Rule)
		}
	}
	sort.Strings(o.Rules)
	return o
}

type rulesCase struct {
	ID    int      `json:"id"`
	Doc   []GT     `json:"doc"`
	Errs  bool     `json:"errs"`
	Rules []string `json:"rules"`
}

// rulesDevs: open known findings of the validator that still reproduce
func rulesDevs(c *core.Ctx) []string {
	fs, err := core.LoadFindings()
	if err != nil {
		c.Internal("known_findings.json: %v", err)
		return nil
	}
	var devs []string
	for _, f := range fs {
		if f.Property != "C08" || f.Status != "open" {
			continue
		}
		var w struct {
			SDL   string `json:"sdl"`
			Query string `json:"query"`
			Errs  bool   `json:"errs"`
		}
		json.Unmarshal(f.Witness, &w)
		l, schema, crash := loadReal([]*ast.Source{{Name: "w.graphql", Input: w.SDL}})
		if crash != "" || !l.OK {
			c.Internal("finding %s: witness schema does not load", f.Dev)
			continue
		}
		o := validateReal(schema, w.Query)
		if o.Crash == "" && o.ParseOK && (len(o.Errs) > 0) == w.Errs {
			devs = append(devs, f.Dev)
			if c.ID == "C08" {
				c.Known(f.Dev, fmt.Sprintf("schema=%q query=%q: %s", w.SDL, w.Query, f.What))
			}
		} else {
			c.Logf("open finding %s no longer reproduces; the specification runs strict there", f.Dev)
		}
	}
	return devs
}

type docCase struct {
	text   string
	intent string // "valid", "fault:<Rule>", "blind"
}

// validateBatch validates the documents of one schema with the real code and the specification.
func validateBatch(c *core.Ctx, devs []string, schema *ast.Schema, sdl string, docs []docCase, report func(dc docCase, o valObs, class string, spec, real []string)) (nontrivial int64, perRuleDiffs int64, ok bool) {
	hdr, _ := json.Marshal(map[string]any{"schema": ProjectRSchema(schema)})
	var lines [][]byte
	var events []int64
	obs := map[int]valObs{}
	idx := map[int]docCase{}
	id := 0
	for _, dc := range docs {
		o := validateReal(schema, dc.text)
		if o.Crash != "" {
			report(dc, o, "crash", nil, nil)
			continue
		}
		if !o.ParseOK {
			continue
		}
		id++
		rules := o.Rules
		if rules == nil {
			rules = []string{}
		}
		b, _ := json.Marshal(rulesCase{ID: id, Doc: gtNorm(opsBeforeFrags(ProjectQuery(o.Doc))), Errs: len(o.Errs) > 0, Rules: rules})
		lines = append(lines, b)
		events = append(events, 1)
		obs[id] = o
		idx[id] = dc
		if dc.intent == "small-scope" {
			// the exhaustive small documents: the ones with a fragment, a type condition or an error
			if len(o.Errs) > 0 || strings.Contains(dc.text, "...") {
				nontrivial++
			}
		} else if dc.intent != "valid" {
			nontrivial++
		}
	}
	if len(lines) == 0 {
		return 0, 0, true
	}
	cfg := "SPECIFICATION Spec\nCONSTANTS\n  Devs = " + core.DevSetTLA(devs) + "\nCHECK_DEADLOCK FALSE\n"
	var diffs []json.RawMessage
	bad, ok := RunTrace(c, TraceJob{Module: "Rules_Trace", CfgText: cfg, Lines: lines, Events: events, Shards: 14, Stack: "512m", Heap: "3g", Header: hdr, Diffs: &diffs})
	if !ok {
		return 0, 0, false
	}
	for i, raw := range diffs {
		var d struct {
			ID   int      `json:"id"`
			Spec []string `json:"spec"`
			Real []string `json:"real"`
		}
		json.Unmarshal(raw, &d)
		c.AddExtraInt("per_rule_differences(diagnostic)", 1)
		if i < 6 {
			c.Logf("per-rule difference (diagnostic): spec %v vs validator %v on %s", d.Spec, d.Real, clip(idx[d.ID].text, 400))
		}
	}
	for _, raw := range bad {
		var b struct {
			ID    int      `json:"id"`
			Class string   `json:"class"`
			Spec  []string `json:"spec"`
			Real  []string `json:"real"`
		}
		json.Unmarshal(raw, &b)
		report(idx[b.ID], obs[b.ID], b.Class, b.Spec, b.Real)
	}
	c.Count(int64(len(lines)), nontrivial, int64(len(lines)))
	return nontrivial, 0, true
}

func checkC08(c *core.Ctx) {
	c.Rule = "cases are (schema, document) pairs: schemas from the typed generator (interfaces implementing interfaces, unions, oneOf inputs, repeatable directives, defaults, custom scalars, nested list/non-null); documents valid by construction, the same with 1-3 faults injected from a catalogue with at least one operator per rule (single-fault documents are the majority), and type-blind random documents over the schema's vocabulary. The real validator's verdict (no errors / errors) is compared with Rules.tla's verdict evaluated by TLC on the parsed document and the loaded schema (Rules_Trace); generator intent is the third witness. Before that, every ordered pair of type references up to list depth 3 (3,600 pairs, TypeAlgebra_MC, whose laws TLC checks) is replayed into ast.Type.String / Name / IsCompatible, the constructors and the parser. Non-trivial = faulty, type-blind and hand-written documents, and the small-scope documents that have a fragment, a type condition or an error; distinct by text"
	c.Assumptions = []string{
		"Rules.tla is the reading of section 5 of the October-2021 specification for the rules the library implements (plus the oneOf input rule and the introspection depth limit as the library documents them)",
		"the document given to the specification is the projection of the real parser's output (C05) and the schema the projection of the real loader's output (C07)",
		"only the verdict is compared, never wording or number of errors; per-rule agreement is recorded as a diagnostic",
	}
	devs := rulesDevs(c)
	c.SetExtra("deviations_enabled", devs)
	// the type relations the rules are written with (module TypeAlgebra), bound to the library's ast.Type helpers
	typeAlgebra(c)
	if c.HasInternal() {
		return
	}
	nschemas, nvalid, nfaulty, nblind := 3, 40, 120, 40
	if c.Thorough() {
		nschemas, nvalid, nfaulty, nblind = 30, 150, 500, 150
	}
	rng := rand.New(rand.NewSource(c.Seed*15487469 + 8))
	tg := &TGen{R: rng}
	intentBad := 0
	for si := 0; si < nschemas; si++ {
		var schema *ast.Schema
		var sdl string
		for try := 0; try < 20 && schema == nil; try++ {
			gs := tg.Gen()
			sdl = gs.doc.SDL()
			l, s, crash := loadReal([]*ast.Source{{Name: "schema.graphql", Input: sdl}})
			if crash == "" && l.OK {
				schema = s
			}
		}
		if schema == nil {
			c.Internal("could not generate a loadable schema")
			return
		}
		dg := &DGen{R: rng, S: schema}
		var docs []docCase
		for i := 0; i < nvalid; i++ {
			docs = append(docs, docCase{text: RenderSpaces(UnparseQuery(dg.Doc(), nil)), intent: "valid"})
		}
		for i := 0; i < nfaulty; i++ {
			doc := dg.Doc()
			nf := 1
			if i%4 == 3 {
				nf = 2 + rng.Intn(2)
			}
			rule := ""
			for k := 0; k < nf; k++ {
				if r := InjectDocFault(dg, &doc, rng); r != "" {
					if rule == "" {
						rule = r
					} else {
						rule += "+" + r
					}
				}
			}
			if rule == "" {
				continue
			}
			docs = append(docs, docCase{text: RenderSpaces(UnparseQuery(doc, nil)), intent: "fault:" + rule})
		}
		qg := &QGen{R: rng, MaxDepth: 3}
		vocab := schemaVocabulary(schema)
		for i := 0; i < nblind; i++ {
			docs = append(docs, docCase{text: RenderSpaces(UnparseQuery(renameToVocabulary(qg.Doc(), vocab, rng), nil)), intent: "blind"})
		}
		if si == 0 {
			c.Sample(map[string]any{"schema": sdl, "valid_document": docs[0].text, "faulty_document": docs[nvalid].text, "fault": docs[nvalid].intent})
		}
		_, _, ok := validateBatch(c, devs, schema, sdl, docs, func(dc docCase, o valObs, class string, spec, real []string) {
			if class == "crash" {
				c.Violation(fmt.Sprintf("Validate crashed: %s on %q (schema %q)", o.Crash, dc.text, clip(sdl, 400)), map[string]any{"sdl": sdl, "query": dc.text, "crash": o.Crash})
				return
			}
			c.Violation(fmt.Sprintf("%s [%s]: specification finds violated rules %v, validator reported %v: %q (schema %q)", class, dc.intent, spec, real, dc.text, clip(sdl, 300)),
				map[string]any{"sdl": sdl, "query": dc.text, "what": class, "spec_rules": spec, "real_rules": real, "intent": dc.intent, "errors": fmt.Sprint(o.Errs)})
		})
		if !ok {
			return
		}
		// generator intent
		for _, dc := range docs {
			o := validateReal(schema, dc.text)
			if !o.ParseOK {
				continue
			}
			if dc.intent == "valid" && len(o.Errs) > 0 {
				intentBad++
				if intentBad <= 5 {
					c.SetExtra(fmt.Sprintf("intent_valid_rejected_%d", intentBad), map[string]string{"sdl": sdl, "query": dc.text, "errors": fmt.Sprint(o.Errs)})
				}
			}
			if strings.HasPrefix(dc.intent, "fault:") && len(o.Errs) == 0 {
				intentBad++
				if intentBad <= 5 {
					c.SetExtra(fmt.Sprintf("intent_faulty_accepted_%d", intentBad), map[string]string{"sdl": sdl, "query": dc.text, "fault": dc.intent})
				}
			}
		}
	}
	// hand-written corner cases on a fixed schema (the specification decides)
	if l, hs, crash := loadReal([]*ast.Source{{Name: "hand.graphql", Input: handRuleSDL}}); crash == "" && l.OK {
		var docs []docCase
		for _, q := range handRuleDocs {
			docs = append(docs, docCase{text: q, intent: "hand"})
		}
		for _, q := range mergeFamilyDocs() {
			docs = append(docs, docCase{text: q, intent: "merge-family"})
		}
		_, _, ok := validateBatch(c, devs, hs, handRuleSDL, docs, func(dc docCase, o valObs, class string, spec, real []string) {
			if class == "crash" {
				c.Violation(fmt.Sprintf("Validate crashed: %s on %q (hand schema)", o.Crash, dc.text), map[string]any{"sdl": handRuleSDL, "query": dc.text, "crash": o.Crash})
				return
			}
			c.Violation(fmt.Sprintf("%s [hand]: specification finds violated rules %v, validator reported %v: %q (hand schema)", class, spec, real, dc.text),
				map[string]any{"sdl": handRuleSDL, "query": dc.text, "what": class, "spec_rules": spec, "real_rules": real, "errors": fmt.Sprint(o.Errs)})
		})
		if !ok {
			return
		}
	} else {
		c.Internal("hand schema does not load: %s %s", l.Err, crash)
	}
	// small-scope exhaustive documents on a seven-type schema (c08small.go)
	if os.Getenv("VERIF_C08_NOSMALL") == "" {
		budget := 3
		if c.Thorough() {
			budget = 4
		}
		if l, ss, crash := loadReal([]*ast.Source{{Name: "small.graphql", Input: smallSDL}}); crash == "" && l.OK {
			var docs []docCase
			for _, q := range smallScopeDocs(budget) {
				docs = append(docs, docCase{text: q, intent: "small-scope"})
			}
			c.SetExtra("small_scope_documents", len(docs))
			c.SetExtra("small_scope_budget", budget)
			_, _, ok := validateBatch(c, devs, ss, smallSDL, docs, func(dc docCase, o valObs, class string, spec, real []string) {
				if class == "crash" {
					c.Violation(fmt.Sprintf("Validate crashed: %s on %q (small schema)", o.Crash, dc.text), map[string]any{"sdl": smallSDL, "query": dc.text, "crash": o.Crash})
					return
				}
				c.Violation(fmt.Sprintf("%s [small scope]: specification finds violated rules %v, validator reported %v: %q (small schema)", class, spec, real, dc.text),
					map[string]any{"sdl": smallSDL, "query": dc.text, "what": class, "spec_rules": spec, "real_rules": real, "errors": fmt.Sprint(o.Errs)})
			})
			if !ok {
				return
			}
			c.Logf("small scope: every document with at most %d selections over the small schema: %d documents decided by Rules.tla", budget, len(docs))
			// the same documents (every fifth) kept across a schema change: validated against a variant of the schema
			// first (fields removed, added, retyped; an argument retyped), then against the small schema, whose
			// rules alone decide
			if l2, other, crash2 := loadReal([]*ast.Source{{Name: "small2.graphql", Input: smallSDLBefore}}); crash2 == "" && l2.OK {
				var kept []docCase
				for i := 0; i < len(docs); i += 5 {
					kept = append(kept, docs[i])
				}
				validateFirstOn = other
				_, _, ok2 := validateBatch(c, devs, ss, smallSDL, kept, func(dc docCase, o valObs, class string, spec, real []string) {
					c.Violation(fmt.Sprintf("%s [small scope, document validated against another schema first]: specification finds violated rules %v, validator reported %v: %q (small schema)", class, spec, real, dc.text),
						map[string]any{"sdl": smallSDL, "sdl_before": smallSDLBefore, "query": dc.text, "what": class, "spec_rules": spec, "real_rules": real, "errors": fmt.Sprint(o.Errs)})
				})
				validateFirstOn = nil
				if !ok2 {
					return
				}
				c.Logf("small scope: %d of these documents validated against another schema first", len(kept))
			} else {
				c.Internal("variant of the small schema does not load: %s %s", l2.Err, crash2)
			}
		} else {
			c.Internal("small schema does not load: %s %s", l.Err, crash)
		}
	}
	// small-scope exhaustive values at every kind of input position (c08small.go)
	if os.Getenv("VERIF_C08_NOSMALL") == "" {
		if l, vs, crash := loadReal([]*ast.Source{{Name: "values.graphql", Input: valueSDL}}); crash == "" && l.OK {
			var docs []docCase
			for _, q := range smallValueDocs(c.Thorough()) {
				docs = append(docs, docCase{text: q, intent: "small-scope"})
			}
			c.SetExtra("small_scope_value_documents", len(docs))
			_, _, ok := validateBatch(c, devs, vs, valueSDL, docs, func(dc docCase, o valObs, class string, spec, real []string) {
				if class == "crash" {
					c.Violation(fmt.Sprintf("Validate crashed: %s on %q (value schema)", o.Crash, dc.text), map[string]any{"sdl": valueSDL, "query": dc.text, "crash": o.Crash})
					return
				}
				c.Violation(fmt.Sprintf("%s [small scope, values]: specification finds violated rules %v, validator reported %v: %q (value schema)", class, spec, real, dc.text),
					map[string]any{"sdl": valueSDL, "query": dc.text, "what": class, "spec_rules": spec, "real_rules": real, "errors": fmt.Sprint(o.Errs)})
			})
			if !ok {
				return
			}
			c.Logf("small scope (values): every literal up to the bound at 16 kinds of input position x every declaration of its variable: %d documents decided by Rules.tla", len(docs))
		} else {
			c.Internal("value schema does not load: %s %s", l.Err, crash)
		}
	}
	c.SetExtra("generator_intent_disagreements", intentBad)
	if intentBad > 0 && c.NumViolations() == 0 {
		c.Diagnostic("generator intent disagrees with specification AND validator on %d documents (see intent_* in the evidence): the generator is the weakest of the three witnesses, so this is no verdict", intentBad)
	}
}

func clip(s string, n int) string {
	if len(s) > n {
		return s[:n] + "..."
	}
	return s
}

// schemaVocabulary: names a type-blind document can be steered towards
type vocab struct {
	types, fields, args, dirs, enums []string
}

func schemaVocabulary(s *ast.Schema) vocab {
	var v vocab
	seen := map[string]bool{}
	add := func(list *[]string, n string) {
		if !seen[n] {
			seen[n] = true
			*list = append(*list, n)
		}
	}
	names := make([]string, 0, len(s.Types))
	for n := range s.Types {
		names = append(names, n)
	}
	sort.Strings(names)
	for _, n := range names {
		d := s.Types[n]
		if strings.HasPrefix(n, "__") {
			continue
		}
		add(&v.types, n)
		for _, f := range d.Fields {
			add(&v.fields, f.Name)
			for _, a := range f.Arguments {
				add(&v.args, a.Name)
			}
		}
		for _, e := range d.EnumValues {
			add(&v.enums, e.Name)
		}
	}
	for n := range s.Directives {
		v.dirs = append(v.dirs, n)
	}
	sort.Strings(v.dirs)
	return v
}

// renameToVocabulary replaces most names of a type-blind document by names of the schema
func renameToVocabulary(doc []GT, v vocab, r *rand.Rand) []GT {
	pick := func(xs []string, old string) string {
		if len(xs) == 0 || r.Intn(5) == 0 {
			return old
		}
		return xs[r.Intn(len(xs))]
	}
	var walk func(n *GT, parent string)
	walk = func(n *GT, parent string) {
		for i := range n.K {
			c := &n.K[i]
			switch {
			case c.T == "name" && (n.T == "field"):
				nv := pick(v.fields, c.V)
				// keep alias = name when it was so
				for j := range n.K {
					if n.K[j].T == "alias" && n.K[j].V == c.V {
						n.K[j].V = nv
					}
				}
				c.V = nv
			case c.T == "name" && n.T == "arg":
				c.V = pick(v.args, c.V)
			case c.T == "name" && n.T == "dir":
				c.V = pick(v.dirs, c.V)
			case c.T == "typecond":
				c.V = pick(v.types, c.V)
			case c.T == "name" && n.T == "named":
				c.V = pick(append(append([]string{}, v.types...), "Int", "String", "Boolean"), c.V)
			case c.T == "enum":
				c.V = pick(v.enums, c.V)
			}
			walk(c, n.T)
		}
	}
	out := append([]GT{}, doc...)
	for i := range out {
		cp := cloneGT(out[i])
		walk(&cp, "")
		out[i] = cp
	}
	return out
}

func cloneGT(g GT) GT {
	c := GT{T: g.T, V: g.V}
	for _, k := range g.K {
		c.K = append(c.K, cloneGT(k))
	}
	return c
}

// mergeFamilyDocs: the same pair of selections compared in two contexts of one
// document, in both orders: under mutually exclusive parents (fields p of the
// object types A and B), side by side under one parent, and in two same-named
// fields that are merged. The selections are spreads of fragments on C that
// agree or disagree on one response name (field name or argument), or inline
// equivalents. Whatever a comparison of two fragments concluded in an earlier
// context must not leak into a later one (exhaustive: 9 context orders x 36 pairs).
func mergeFamilyDocs() []string {
	fragDefs := map[string]string{"...F1": "fragment F1 on C { k: c }", "...F2": "fragment F2 on C { k: d }", "...F3": "fragment F3 on C { k: c }", "...F4": "fragment F4 on C { k: j(a: 1) }", "...F5": "fragment F5 on C { k: j(a: 2) }"}
	sels := []string{"...F1", "...F2", "...F3", "...F4", "...F5", "... on C { k: d }"}
	ctxs := []func(x, y string) string{
		func(x, y string) string { return "u { ... on A { p { " + x + " } } ... on B { p { " + y + " } } }" },
		func(x, y string) string { return "cc { " + x + " " + y + " }" },
		func(x, y string) string { return "cc { " + x + " } cc { " + y + " }" },
	}
	var out []string
	for _, c1 := range ctxs {
		for _, c2 := range ctxs {
			for _, x := range sels {
				for _, y := range sels {
					frags := fragDefs[x]
					if y != x {
						frags += " " + fragDefs[y]
					}
					out = append(out, "{ "+c1(x, y)+" "+c2(x, y)+" } "+frags)
				}
			}
		}
	}
	return out
}

const handRuleSDL = `
directive @rep repeatable on FIELD
directive @once on FIELD
directive @fd(x: Int) on FRAGMENT_DEFINITION | FIELD
type Query { en(v: E!, vs: [E!], o: EnIn): Int f(i: Int, l: [Int], ll: [[Int]], lln: [[Int]!], o: In, req: Int! = 5, nn: Int!): Int g(lnn: [Int!]!): Int  a: A  b: B  u: U  i: I  s: String  e(v: E): E any(x: Any): Any one(x: One): Int num(fl: Float, id: ID, fls: [Float], o: Num): Int cc: C lo(os: [In!], oo: In2, ooo: [[In2]]): Int anyn(x: Any!, l: [Any!], o: AnyIn): Int wd(ids: [Int!] = [1, 2], o: InD, nn: [Int!]): Int wide(w: Wide, a0: Int, a1: Int, a2: Int): Int }
interface I { x: Int }
type A implements I { x: Int  z: Int  o: B  li: [Int]  lin: [Int]!  n: Int!  p: C }
type B implements I { x: Int y: Int  z: String li: [Int]!  o: Int n: Int  p: C }
type C { c: Int d: Int j(a: Int): Int }
input Num { fl: Float id: ID }
input EnIn { layers: [E!]! one: E! }
input In2 { inner: [In] one: In }
input AnyIn { from: Any! to: Any }
input InD { tags: [String!] = ["a"] plain: [String!] }
input Wide { f0: Int f1: Int f2: Int f3: Int f4: Int f5: Int f6: Int f7: Int f8: Int f9: Int! = 9 f10: [Int] f11: In }
directive @opd(x: Int, b: Boolean) on QUERY | MUTATION | SUBSCRIPTION | FRAGMENT_DEFINITION | FRAGMENT_SPREAD | INLINE_FRAGMENT | VARIABLE_DEFINITION | FIELD
directive @tag on FIELD
directive @note on FIELD
directive @mark on FIELD
union U = A | B
enum E { RED GREEN }
scalar Any
input In { a: Int b: [Int] r: Int! d: Int! = 1 }
input One @oneOf { a: Int b: String }
type Subscription { a: Int b: Int }
type Mutation { m: Int }
`

var handRuleDocs = []string{
	// a string where a WRAPPED enum is expected (non-null, item of a list, inside an input object)
	`{ en(v: "RED") }`, `{ en(v: RED, vs: [RED, "GREEN"]) }`, `{ en(v: GREEN, o: {layers: ["""GREEN"""], one: "RED"}) }`, `{ en(v: 1, vs: [true]) }`,
	// one variable used twice: first where its type does not fit (the message quotes the type), then where a default
	// makes a nullable type fit a non-null position
	`query Q($a: Int = 1) { x: f(nn: 1, l: $a) y: f(nn: $a) }`, `query Q($a: Int = 1) { y: f(nn: $a) x: f(nn: 1, l: $a) }`, `query Q($a: [Int] = [1]) { x: f(nn: 1, i: $a) y: g(lnn: $a) }`,
	// control characters, DEL and a no-break space inside a string given for an enum (quoted back in the message)
	"{ e(v: \"RE\\u0007D\") }", "{ e(v: \"R\\u0001D\") }", "{ e(v: \"GREEN\\u00a0\") }", "{ e(v: \"RED\\u007f\") }", "{ e(v: \"RE\u00a0D\") }", "{ e(v: \"\"\"RE\u007fD\"\"\") }",
	// several unknown arguments on one field and on one directive
	`{ f(nn: 1, idd: 1, frist: 2) s @skip(if: true, iff: 1, unles: 2) }`, `{ num(fll: 1, idd: 2, flss: 3) }`,
	// directives of a fragment definition with variables, directly and nested
	`query($v: Int) { ...FDV } fragment FDV on Query @fd(x: $v) { s }`, `query($v: Int) { ...FDV2 } fragment FDV2 on Query @opd(x: $v, b: true) @fd(x: 1) { s @fd(x: $v) }`,
	// introspection and the built-in directives in unusual places
	`{ __typename a { __typename } u { __typename ... on A { __typename } } i { __typename } }`, `{ __schema { types { name } } __type(name: "A") { name fields { name } } }`,
	`{ a { __schema { types { name } } } }`, `{ a { __type(name: "A") { name } } }`, `mutation { __typename m __schema { types { name } } }`, `subscription { __typename }`, `subscription { a __typename }`,
	`{ __type { name } }`, `{ __type(name: 1) { name } }`, `{ __type(name: "A") }`, `{ __typename { x } }`, `{ __typename(x: 1) }`, `{ u { __typename x } }`, `{ t: __typename t: s }`, `{ __typenam }`, `{ a { __typenam } }`,
	`query($n: String!) { __type(name: $n) { kind ofType { kind ofType { name } } } }`, `query($n: String) { __type(name: $n) { name } }`, `{ __schema { queryType { name } directives { name args { name defaultValue } locations } } }`,
	`{ __type(name: "A") { fields(includeDeprecated: true) { name isDeprecated } enumValues(includeDeprecated: "yes") { name } nope } }`,
	`query($f: Boolean!) { s @include(if: $f) @skip(if: $f) a @include(if: true) { x @skip(if: false) } ... @include(if: $f) { s } ...FI @skip(if: $f) } fragment FI on Query { s }`,
	`query($f: Boolean) { s @include(if: $f) }`, `query($f: Boolean = true) { s @include(if: $f) }`, `query($f: Boolean = null) { s @skip(if: $f) }`, `{ s @include }`, `{ s @include(if: null) }`, `{ s @skip(if: true) @skip(if: false) }`,
	`query @include(if: true) { s }`, `{ s @deprecated }`, `{ s @specifiedBy(url: "u") }`, `{ s @oneOf }`, `query($f: Boolean! @include(if: true)) { s @skip(if: $f) }`, `{ s @include(if: true, unless: false) }`,
	`fragment FD on Query @skip(if: true) { s } { ...FD }`, `{ ... on Query @include(if: "yes") { s } }`,
	// oneOf input objects whose single entry is a variable: undefined anywhere, defined by another operation only, in
	// an unreached fragment; nullable with a default (the default does not make it non-null)
	`{ one(x: {a: $nope}) }`, `query A { ...F1 } query B($v: Int!) { ...F1 } fragment F1 on Query { one(x: {a: $v}) }`, `{ s } fragment F2 on Query { one(x: {b: $w}) }`,
	`query($n: String = "x") { one(x: {b: $n}) }`, `query($n: Int = 1) { one(x: {a: $n}) }`, `query($n: Int = null) { one(x: {a: $n}) }`, `query($n: Int! = 1) { one(x: {a: $n}) }`,
	// an unknown field on an abstract type that only the SECOND possible type has (the suggestion path looks at
	// the possible types), then a condition on the first possible type inside the same abstract type
	`{ i { y ... on A { z } } }`, `{ i { y ...FA } j: i { ... on A { x } ... on B { y } } } fragment FA on A { x }`, `{ u { y ... on A { x } ... on B { x } } }`,
	`{ i { o ... on A { o { x } } ... on B { x } } k: i { ... on A { z } } }`,
	// a percent sign inside a value that is quoted back in a message, close enough to an enum value to be suggested
	`{ e(v: "RED%") }`, `{ e(v: "%sRED") }`, `{ e(v: """GRE%EN""") }`, `{ e(v: "RED%d%v") }`, `{ e(v: "GREEN%!(EXTRA)") a { x%: x } }`, `query($v: E = "RE%D") { e(v: $v) }`,
	// a nullable variable as an ITEM of a list given to a position that declares a default (the default lifts the
	// non-null requirement of the position, not of its items)
	`query($v: Int) { wd(ids: [$v]) }`, `query($v: Int!) { wd(ids: [$v]) }`, `query($v: Int) { wd(ids: [1, $v]) }`, `query($s: String) { wd(o: {tags: [$s]}) }`, `query($s: String!) { wd(o: {tags: [$s], plain: [$s]}) }`,
	`query($v: Int) { wd(nn: [$v]) }`, `query($v: [Int!]) { wd(ids: $v) }`, `query($v: [Int]) { wd(ids: $v) }`, `query($s: String) { s @fd(x: 1) wd(o: {plain: [$s]}) }`,
	// three and more fields with one response name: every pair is compared
	`{ a { x } a { k: x } a { k: z } }`, `{ a { k: x } a { x } a { k: z } a { z } }`, `{ u { ... on A { k: x } ... on B { k: x } ... on B { k: y } } }`, `{ u { ... on A { k: z } ... on A { k: x } ... on B { k: x } } }`,
	`{ k: s k: s k: f(nn: 1) }`, `{ k: f(nn: 1) k: f(nn: 1) k: f(nn: 2) k: f(nn: 1) }`, `{ a { k: x } a { k: x } a { k: x } }`,
	// wide input objects and wide argument lists (more declared than given, more given than declared, unknown ones)
	`{ wide(w: {f0: 1, f9: 2, f4: 3}) }`, `{ wide(w: {f0: 1, f1: 1, f2: 1, f3: 1, f4: 1, f5: 1, f6: 1, f7: 1, f8: 1, f9: 1, f10: [1], f11: {r: 1}}) }`, `{ wide(w: {f3: "x", f10: [1, "y"], f11: {r: null}}) }`,
	`{ wide(w: {f0: 1, zz0: 1, zz1: 1, zz2: 1, zz3: 1, zz4: 1, zz5: 1, zz6: 1, zz7: 1, zz8: 1, zz9: 1}) }`, `{ wide(a0: 1, a1: 1, a2: 1, b0: 1, b1: 1, b2: 1, b3: 1, b4: 1, b5: 1, b6: 1, b7: 1, b8: 1) }`,
	`{ s @skip(if: true, a: 1, b: 2, c: 3, d: 4, e: 5, f: 6, g: 7, h: 8, i: 9) }`, `{ wide(a0: 1, a0: 2, a1: 1, a1: 2, a2: 1, a2: 2, a0: 3, a1: 3, a2: 3, a0: 4) }`,
	// null where a custom scalar is required (custom scalars take any literal, but null is no value of a non-null type)
	`{ anyn(x: null) }`, `{ anyn(x: 1, l: [null]) }`, `{ anyn(x: 1, o: {from: null}) }`, `{ anyn(x: 1, l: [1, "a"], o: {from: {k: null}, to: null}) }`, `{ anyn }`, `query($v: Any) { anyn(x: $v) }`,
	// oneOf input objects with an unknown key, null, both at once
	`{ one(x: {zz: null}) }`, `{ one(x: {zz: 1}) }`, `{ one(x: {zz: null, a: 1}) }`, `{ one(x: {a: null, b: null}) }`, `{ one(x: null) }`, `query($v: One) { one(x: $v) }`,
	// variables used by directives on the operation itself, on variable definitions, spreads and inline fragments
	`query Q($v: Int) @opd(x: $v) { s }`, `query Q($v: Int) @opd(x: $v) { f(i: $v, nn: 1) }`, `query Q @opd(x: $nope) { s }`, `mutation M($b: Boolean) @opd(b: $b) { m }`,
	`query Q($v: Int, $w: Int @opd(x: 1)) { ... @opd(x: $v) { s } ...FV2 @opd(x: $w) } fragment FV2 on Query { s }`,
	// several different directives, each used twice at one location (each duplicate is one error, in document order)
	`{ s @tag @note @mark @tag @note @mark }`, `{ s @mark @tag @tag @note @mark @note @once @once }`,
	// several operations sharing a fragment that uses variables: every operation is judged on its own
	`query A($v: Int) { ...FV } query B { ...FV } fragment FV on Query { f(i: $v, nn: 1) }`, `query B { ...FV } query A($v: Int) { ...FV } fragment FV on Query { f(i: $v, nn: 1) }`,
	`query A($v: Int) { ...FV } query B($w: Int) { ...FV f(i: $w, nn: 2) } fragment FV on Query { f(i: $v, nn: 1) }`, `query A($v: Int) { ...FV } query B($v: Int) { ...FV } fragment FV on Query { f(i: $v, nn: 1) }`,
	`query A($v: Int) { ...G1 } query B { ...G1 } fragment G1 on Query { a { ...G2 } } fragment G2 on A { x @include(if: $v) }`, `query A($v: String) { ...FV } query B($v: Int) { ...FV } fragment FV on Query { f(i: $v, nn: 1) }`,
	`query A($v: Int = 1) { g: f(nn: $v) } query B { f } query C($n: Int) { f(nn: $n) }`, `query A { f } query B($v: Int = 1) { g: f(nn: $v) } query C { f(nn: null) }`,
	// variables used by the directives of a fragment DEFINITION
	`{ ...F } fragment F on Query @fd(x: $u) { s }`, `query A { ...F } query B($u: Int) { ...F } fragment F on Query @fd(x: $u) { s }`,
	`query B($u: Int) { ...F } fragment F on Query @fd(x: $u) { s }`, `query B($u: String) { ...F } fragment F on Query @fd(x: $u) { s }`,
	`query B($u: Int) { s } fragment F on Query @fd(x: $u) { s }`, `query B($u: Int) { ...G } fragment G on Query { a { ...F } } fragment F on A @fd(x: $u) { x }`,
	`{ s }`, `{ a: f(l:[1], nn: 1) a: f(l:[2], nn: 1) }`, `{ a: f(l:[1], nn: 1) a: f(l:[1], nn: 1) }`, `{ a: f(o:{a:1, r:1}, nn: 1) a: f(o:{a:2, r:1}, nn: 1) }`,
	`{ a: f(i: 1, nn: 1) a: f(i: 2, nn: 1) }`, `{ a: f(nn: 1) a: f(nn: 1, i: null) }`,
	`{ u { ... on A { k: x } ... on B { k: li } } }`, `{ u { ... on A { k: o { y } } ... on B { k: y } } }`, `{ u { ... on A { k: li } ... on B { k: li } } }`,
	`{ u { ... on A { k: n } ... on B { k: n } } }`, `{ u { ... on A { k: x } ... on B { k: y } } }`, `{ u { ... on A { k: z } ... on B { k: z } } }`,
	`{ u { ... on A { k: lin } ... on B { k: li } } }`, `{ i { ... on A { k: x } ... on B { k: y } } }`, `{ i { k: x ... on B { k: y } } }`,
	`{ a { o { y } o { z } } }`, `{ a { o { k: y } o { k: z } } }`, `{ a { o { y } } a { o { z } } }`, `{ a { q: o { k: y } } b { q: x } }`,
	`query($v: Int) { f(req: $v, nn: 1) }`, `query($v: Int) { f(nn: $v) }`, `query($v: Int = 3) { f(nn: $v) }`, `query($v: Int = null) { f(nn: $v) }`, `query($v: Int!) { f(i: $v, nn: $v) }`,
	`query($v: [Int]) { f(l: $v, nn: 1) }`, `query($v: Int) { f(l: $v, nn: 1) }`, `query($v: Int) { f(l: [$v], nn: 1) }`, `query($v: [Int!]) { f(l: $v, nn: 1) }`, `query($v: [[Int]]) { f(ll: $v, nn: 1) }`, `query($v: [Int]) { f(ll: $v, nn: 1) }`,
	`query($v: [[Int]!]) { f(ll: $v, nn: 1) }`, `query($v: In) { f(o: $v, nn: 1) }`, `query($v: Int) { f(o: {a: $v, r: 1}, nn: 1) }`, `query($v: Int) { f(o: {r: $v}, nn: 1) }`, `query($v: Int) { f(o: {r: 1, d: $v}, nn: 1) }`,
	`subscription { x: a y: a }`, `subscription { a }`, `subscription { a b }`, `subscription { a a }`, `subscription { __typename }`, `subscription { ...F } fragment F on Subscription { a b }`, `subscription { ... { a } ... { a } }`,
	`{ f(i: 2147483648, nn: 1) }`, `{ f(i: 2147483647, nn: 1) }`, `{ f(i: -2147483648, nn: 1) }`, `{ f(i: -2147483649, nn: 1) }`, `{ f(i: 99999999999999999999, nn: 1) }`, `{ f(i: {}, nn: 1) }`, `{ e(v: {}) }`, `{ e(v: RED) }`, `{ e(v: "RED") }`, `{ e(v: BLUE) }`,
	`{ f(l: 1, nn: 1) }`, `{ f(l: [1, null], nn: 1) }`, `{ f(l: [[1]], nn: 1) }`, `{ f(ll: 1, nn: 1) }`, `{ f(ll: [1], nn: 1) }`, `{ f(i: [1], nn: 1) }`, `{ f(nn: null) }`, `{ f }`, `{ f(nn: 1.0) }`, `{ f(nn: "1") }`,
	`{ f(o: {r: 1}, nn: 1) }`, `{ f(o: {}, nn: 1) }`, `{ f(o: {r: 1, zz: 1}, nn: 1) }`, `{ f(o: {r: 1, r: 2}, nn: 1) }`, `{ f(o: {r: null}, nn: 1) }`, `{ f(o: {r: 1, d: null}, nn: 1) }`, `{ f(o: {r: 1, b: 1}, nn: 1) }`, `{ f(o: {r: 1, b: [1, "x"]}, nn: 1) }`,
	`{ any(x: {a: [1, {b: $undefined}]}) }`, `{ any(x: 99999999999999999999) }`, `{ any(x: $v) }`, `query($v: Any) { any(x: {k: $v}) }`,
	`{ one(x: {a: 1}) }`, `{ one(x: {a: 1, b: "s"}) }`, `{ one(x: {}) }`, `{ one(x: {a: null}) }`, `query($v: Int) { one(x: {a: $v}) }`, `query($v: Int!) { one(x: {a: $v}) }`, `{ ...F } fragment F on Query { one(x: {a: $u}) }`,
	`{ s @rep @rep }`, `{ s @once @once }`, `{ s @include(if: true) @include(if: false) }`, `{ s @once @rep @rep @skip(if: true) }`,
	`{ ...A } fragment A on Query { ...B } fragment B on Query { ...A }`, `{ s } fragment A on Query { ...A }`, `{ s } fragment A on Query { ...B } fragment B on Query { s }`, `{ ...B } fragment A on Query { ...B } fragment B on Query { s }`,
	`{ a { ... on B { y } } }`, `{ a { ... on I { x } } }`, `{ i { ... on C { c } } }`, `{ u { ... on I { x } } }`, `{ u { ... on C { c } } }`, `{ i { ... on U { __typename } } }`, `{ a { ... on U { __typename } } }`, `{ a { ...F } } fragment F on B { y }`,
	`{ u { x } }`, `{ u { __typename } }`, `{ i { x y } }`, `{ s { x } }`, `{ a }`, `{ a { __typename { x } } }`, `{ __typename }`, `{ __schema { types { name } } }`, `{ a { __schema { types { name } } } }`,
	`{ __type(name: "A") { fields { type { fields { type { fields { name } } } } } } }`, `{ __type(name: "A") { fields { type { fields { name } } } } }`,
	`{ __schema { types { ...F } } } fragment F on __Type { fields { type { ...G } } } fragment G on __Type { fields { type { fields { name } } } }`,
	`query($v: [[Int]]) { f(lln: $v, nn: 1) }`, `query($v: [[Int]!]) { f(lln: $v, nn: 1) }`, `query($v: [[Int!]!]!) { f(lln: $v, nn: 1) }`, `query($v: [[Int!]]!) { f(lln: $v, nn: 1) }`,
	`query($v: [Int]) { g(lnn: $v) }`, `query($v: [Int!]) { g(lnn: $v) }`, `query($v: [Int]!) { g(lnn: $v) }`, `query($v: [Int!]!) { g(lnn: $v) }`, `query($v: [Int!] = [1]) { g(lnn: $v) }`, `query($v: [Int] = [1]) { g(lnn: $v) }`,
	`{ __schema { types { ...F fields { type { fields { type { ...F } } } } } } } fragment F on __Type { fields { name } }`,
	`{ __schema { types { ...F fields { type { ...F } } } } } fragment F on __Type { fields { name } }`,
	`{ __schema { types { fields { type { fields { type { ...F } } } } ...F } } } fragment F on __Type { fields { name } }`,
	`{ __schema { types { ...F ...G } } } fragment F on __Type { fields { type { ...G } } } fragment G on __Type { fields { type { fields { name } } } }`,
	`{ __schema { types { ...G ...F } } } fragment F on __Type { fields { type { ...G } } } fragment G on __Type { fields { type { fields { name } } } }`,
	`mutation { m }`, `mutation { x }`, `query Q { s } query Q { s }`, `query Q { s } { s }`, `{ s } { s }`, `query($a: Int, $a: Int) { f(i: $a, nn: 1) }`, `query($a: A) { s }`, `query($a: Nope) { s }`, `query($a: Int) { s }`,
	`{ f(nn: 1, nn: 2) }`, `{ f(nn: 1, zz: 2) }`, `{ s @nope }`, `{ s @oneOf }`, `query @once { s }`, `{ s @skip }`, `{ s @skip(if: 1) }`, `{ s @skip(if: true, zz: 1) }`,
	`{ ... on Nope { s } }`, `{ ... on Int { s } }`, `{ ... on E { s } }`, `{ s } fragment F on In { a }`, `{ ...F } fragment F on Query { s } fragment F on Query { s }`, `{ ...Nope }`,
}
