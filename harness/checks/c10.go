package checks

import (
	"encoding/json"
	"fmt"
	"math/rand"
	"os"
	"time"
	"unicode/utf8"

	"github.com/vektah/gqlparser/v2"
	"github.com/vektah/gqlparser/v2/ast"
	"github.com/vektah/gqlparser/v2/gqlerror"
	"github.com/vektah/gqlparser/v2/parser"
	"github.com/vektah/gqlparser/v2/validator"

	"verif/harness/core"
	"verif/harness/tlc"
)

func init() {
	Registry["C10"] = checkC10
	workers["det"] = detWorker
}

type detReq struct {
	SDLs  []string   `json:"sdls"`  // schemas to load (errors recorded)
	Pairs [][]string `json:"pairs"` // [sdl, document]
}
type detResp struct {
	Load  [][]EErr `json:"load"`
	Pairs [][]EErr `json:"pairs"`
}

func loadErrs(sdl string) []EErr {
	_, err := gqlparser.LoadSchema(&ast.Source{Name: "schema.graphql", Input: sdl})
	if err == nil {
		return []EErr{}
	}
	if ge, ok := err.(*gqlerror.Error); ok {
		return []EErr{projErr(ge)}
	}
	return []EErr{{Msg: err.Error(), Locs: [][]int{}}}
}

func pairErrs(sdl, text string) []EErr {
	schema, err := gqlparser.LoadSchema(&ast.Source{Name: "schema.graphql", Input: sdl})
	if err != nil {
		return []EErr{{Msg: "schema: " + err.Error(), Locs: [][]int{}}}
	}
	doc, perr := parser.ParseQuery(&ast.Source{Input: text, Name: "q.graphql"})
	if perr != nil {
		return []EErr{{Msg: "parse: " + perr.Error(), Locs: [][]int{}}}
	}
	return projErrs(validator.Validate(schema, doc))
}

// detWorker: a fresh process (fresh hash seeds) validating the same texts
func detWorker(args []string) int {
	var rq detReq
	if err := json.NewDecoder(os.Stdin).Decode(&rq); err != nil {
		return 2
	}
	var rs detResp
	for _, s := range rq.SDLs {
		rs.Load = append(rs.Load, loadErrs(s))
	}
	for _, p := range rq.Pairs {
		rs.Pairs = append(rs.Pairs, pairErrs(p[0], p[1]))
	}
	json.NewEncoder(os.Stdout).Encode(rs)
	return 0
}

const detSDL = `
type Query { item(id: Int!): Item ITEM: ITEM dog: Dog box(width: Int, height: Int): Int pets: [Pet] named: [Named] node: Node res: Resource }
interface Node { id: ID }
interface Resource implements Node { id: ID url: String }
interface Draft implements Node { id: ID }
type Image implements Resource & Node { id: ID url: String width: Int }
type Note implements Draft & Node { id: ID text: String }
type Video implements Resource & Node { id: ID url: String width: Int duration: Int }
type Item { id: Int name: String nama: String namo: String }
type ITEM { id: Int }
type Dog implements Pet & Named { name: String barks: Boolean }
type Doa { x: Int } type Dob { x: Int } type Doc { x: Int } type Dod { x: Int } type Doe { x: Int }
type Cat implements Pet & Named { name: String meows: Boolean }
type Wolf implements Pet { name: String barks: Boolean howls: Boolean }
interface Pet { name: String }
interface Named { name: String }
enum Color { RED REB REC GREEN }
directive @tag on FIELD
directive @note on FIELD
directive @mark on FIELD
directive @range(min: Int, max: Int, mid: Int, mip: Int, miq: Int, mir: Int) on FIELD | QUERY | FRAGMENT_SPREAD
`

var detDocs = []string{
	// several different variable names each declared more than once
	`query Q($a: Int, $b: Int, $c: Int, $a: Int, $b: Int, $c: Int, $d: Int, $d: Int) { box(width: $a, height: $b) item(id: 1) { id } }`,
	`query Q($z: Int, $y: Int, $z: Int, $x: Int, $y: Int, $x: Int, $w: Int, $w: Int, $v: Int, $v: Int) { dog { name } }`,
	// a misspelt argument of a DIRECTIVE whose definition declares several arguments at the same distance
	`{ dog { name @range(mix: 3) } }`, `{ dog { name @range(mi: 1) barks @range(mxx: 1, mii: 2) } }`, `query Q @range(mis: 1) { dog { name } ...F @range(mit: 2) } fragment F on Query { dog { barks @range(ma: 1, mi: 2, m: 3) } }`,
	`fragment F on Itex { id } { ...F }`, `fragment F on Itey { id } { ...F }`, `fragment F on iTEM { id } fragment G on ItEM { id } { ...F ...G }`, `fragment F on Ite { id } { ...F }`, `fragment F on Dox { x } { ...F }`, `{ ... on item { id } }`, `query($v: Itam) { item(id: 1) { id } }`,
	`{ item(id: 1) { namx } }`, `{ item(ix: 1) { id } }`, `{ pets { barks } }`, `{ named { barks meows } }`, `{ pets { howls } named { meows } }`,
	`{ box(width: "wide", height: "tall") box(width: "wide", height: "tall") }`, `{ box(height: "tall", width: "wide", depth: 1, weight: 2) box(height: "tall", width: "wide", depth: 1, weight: 2) }`,
	`{ dog { name @nope @nop } pets { ... on Cat { barks } ... on Dog { meows } } }`, `query($a: Int, $b: Int, $c: Int) { dog { name } }`,
	// several operations sharing fragments whose variables only some of them declare (the tree is annotated per operation)
	`query First { ...Sel } query Second($id: Int!) { ...Sel } fragment Sel on Query { item(id: $id) { id } }`,
	`query Second($id: Int!) { ...Sel } query First { ...Sel } fragment Sel on Query { item(id: $id) { id } }`,
	`query A($id: Int!) { ...Sel } query B($id: String) { ...Sel } query C { ...Sel ...Sel } fragment Sel on Query { item(id: $id) { id ...N } } fragment N on Item { name @skip(if: $flag) }`,
	`query A { box(width: $w) } query B($w: Int = 2, $unused: Int) { box(width: $w, height: $h) } query C($h: Int) { ...Bx } fragment Bx on Query { box(height: $h) }`,
	// fragments that spread each other around an inline fragment and conflict (rules that look across spreads)
	`query { ...F1 } fragment F1 on Query { ...F2 x: item(id: 1) { id } } fragment F2 on Query { ... on Query { x: dog { name } ...F1 } }`,
	`{ ...F1 } fragment F1 on Query { ...F2 x: box(width: 1) } fragment F2 on Query { pets { name } ... on Query { x: box(width: 2) ...F3 } } fragment F3 on Query { ...F1 x: box }`,
	// several different directives each repeated at one location, several unknown names of each kind: whatever
	// groups errors in a map must still report them in a fixed order
	`{ dog { name @tag @note @mark @tag @note @mark } }`, `{ dog { name @mark @tag @tag @note @mark @note } pets { name @note @tag @note @tag } }`,
	`{ dog { namx namy namz } item(id: 1) { idx idy } box(widht: 1, heigth: 2, dept: 3) }`, `query($a: Itex, $b: Itey, $c: Doz) { dog { name } }`,
	// unknown fields on an interface that interfaces implement too, the field existing on some implementers only
	`{ node { duration } }`, `{ node { url width } }`, `{ node { text ... on Resource { duration } } res { duration widht } }`, `{ node { ... on Draft { text } ... on Video { url } duration } }`,
	`{ dog { ...A ...B } } fragment A on Dog { ...B } fragment B on Dog { ...A }`, `{ a: dog { name } a: item(id: 1) { name } b: dog { n: name } b: dog { n: barks } }`,
}

func checkC10(c *core.Ctx) {
	c.Rule = "cases are (schema text, document text) pairs from the typed generators (valid, 1-3 injected faults, misspelt names with several equidistant candidates, type-blind), hand-written documents on a schema with near-identical names, and faulty schema texts; each case is observed in the same process on a fresh parse (twice), on the same parsed tree again (twice), and in 3 (quick) / 8 (thorough) fresh worker processes whose map iteration order and hash seeds differ; Determinism_Trace requires every observation - the full error list in order, with rule, message, locations and file - to be identical. Non-trivial = cases with at least one error; distinct by texts"
	c.Assumptions = []string{"fresh processes sample map-iteration orders, they do not enumerate them", "the schema is loaded afresh from its text for every observation"}
	r := c.RunTLC(tlc.Opts{Module: "Determinism_MC", CfgFile: "Determinism_MC.cfg", Workers: 2})
	tlc.Cleanup(r)
	if c.HasInternal() {
		return
	}
	nschemas, ndocs, nproc, nbadSchemas := 2, 80, 3, 40
	if c.Thorough() {
		nschemas, ndocs, nproc, nbadSchemas = 25, 400, 8, 1500
	}
	rng := rand.New(rand.NewSource(c.Seed*86028157 + 10))
	tg := &TGen{R: rng}
	var rq detReq
	for si := 0; si < nschemas; si++ {
		var schema *ast.Schema
		var sdl string
		for try := 0; try < 20 && schema == nil; try++ {
			gs := tg.Gen()
			sdl = gs.doc.SDL()
			if l, s, crash := loadReal([]*ast.Source{{Name: "schema.graphql", Input: sdl}}); crash == "" && l.OK {
				schema = s
			}
		}
		if schema == nil {
			c.Internal("could not generate a loadable schema")
			return
		}
		dg := &DGen{R: rng, S: schema}
		qg := &QGen{R: rng, MaxDepth: 3}
		vocab := schemaVocabulary(schema)
		for i := 0; i < ndocs; i++ {
			var text string
			switch i % 6 {
			case 0:
				text = RenderSpaces(UnparseQuery(dg.Doc(), nil))
			case 1:
				text = RenderSpaces(UnparseQuery(renameToVocabulary(qg.Doc(), vocab, rng), nil))
			case 2, 3:
				// misspell names: one character changed, so that several declared names are equally close
				doc := dg.Doc()
				misspell(&doc, rng)
				text = RenderSpaces(UnparseQuery(doc, nil))
			default:
				doc := dg.Doc()
				for k := 0; k < 1+rng.Intn(3); k++ {
					InjectDocFault(dg, &doc, rng)
				}
				text = RenderSpaces(UnparseQuery(doc, nil))
			}
			rq.Pairs = append(rq.Pairs, []string{sdl, text})
		}
	}
	for _, q := range detDocs {
		rq.Pairs = append(rq.Pairs, []string{detSDL, q})
	}
	for _, q := range handRuleDocs {
		rq.Pairs = append(rq.Pairs, []string{handRuleSDL, q})
	}
	// documents built to stress what rules remember and what the walk has linked so far: the adversarial
	// families of C02 at small sizes (fragment fan-out, cycles through fields, fragments spreading each other
	// while overlapping, exclusive-then-shared) and every third document of the merge family of C08
	for _, f := range adversaryFamilies {
		for _, n := range []int{2, 3, 5} {
			if d := adversaryDoc(f, n); utf8.ValidString(d) { // (texts travel to the worker processes as JSON)
				rq.Pairs = append(rq.Pairs, []string{adversarySDL, d})
			}
		}
	}
	for i, q := range mergeFamilyDocs() {
		if i%3 == 0 {
			rq.Pairs = append(rq.Pairs, []string{handRuleSDL, q})
		}
	}
	// conflicting variants of the cyclic families (a cycle guard must not hide or duplicate a conflict)
	for _, q := range cyclicConflictDocs {
		rq.Pairs = append(rq.Pairs, []string{adversarySDL, q})
	}
	for i := 0; i < nbadSchemas; i++ {
		s := tg.Gen()
		if tg.InjectFault(s) != nil {
			if i%3 == 0 {
				tg.InjectFault(s)
			}
			rq.SDLs = append(rq.SDLs, s.doc.SDL())
		}
	}
	for _, h := range handSchemas {
		rq.SDLs = append(rq.SDLs, h)
	}
	// type systems that extend or redeclare BUILT-IN definitions: nothing of one load may leak into a later load
	for _, h := range []string{
		"directive @tag on SCALAR extend scalar String @tag type Query { a: String }",
		"directive @deprecated(why: Int) on FIELD_DEFINITION type Query { a: Int @deprecated(why: 1) }",
		"extend enum __TypeKind { EXTRA } type Query { a: Int }",
		"extend type __Type { mine: Int } type Query { a: Int }",
		"directive @include(if: Boolean!, also: Int) on FIELD type Query { a: Int }",
	} {
		rq.SDLs = append(rq.SDLs, h)
		rq.Pairs = append(rq.Pairs, []string{h, "{ a }"})
	}
	type obs struct {
		Run  string `json:"run"`
		Errs []EErr `json:"errs"`
	}
	pairObs := make([][]obs, len(rq.Pairs))
	loadObs := make([][]obs, len(rq.SDLs))
	// same process
	for i, p := range rq.Pairs {
		func() {
			defer func() {
				if r := recover(); r != nil {
					c.Violation(fmt.Sprintf("validation crashed: %v on %q", r, p[1]), map[string]any{"sdl": p[0], "query": p[1]})
				}
			}()
			pairObs[i] = append(pairObs[i], obs{"fresh parse 1", pairErrs(p[0], p[1])}, obs{"fresh parse 2", pairErrs(p[0], p[1])})
			if schema, err := gqlparser.LoadSchema(&ast.Source{Name: "schema.graphql", Input: p[0]}); err == nil {
				if doc, perr := parser.ParseQuery(&ast.Source{Input: p[1], Name: "q.graphql"}); perr == nil {
					e1 := projErrs(validator.Validate(schema, doc))
					e2 := projErrs(validator.Validate(schema, doc))
					e3 := projErrs(validator.Validate(schema, doc))
					_ = e1
					pairObs[i] = append(pairObs[i], obs{"same tree, second validation", e2}, obs{"same tree, third validation", e3})
				}
			}
		}()
	}
	for i, s := range rq.SDLs {
		func() {
			defer func() {
				if r := recover(); r != nil {
					c.Violation(fmt.Sprintf("LoadSchema crashed: %v on %q", r, clip(s, 500)), map[string]any{"sdl": s})
				}
			}()
			loadObs[i] = append(loadObs[i], obs{"load 1", loadErrs(s)}, obs{"load 2", loadErrs(s)})
		}()
	}
	// fresh processes; every second one works through the lists in reverse, so that each case is also
	// observed after a different history of earlier loads and validations
	for k := 0; k < nproc; k++ {
		rk := rq
		if k%2 == 1 {
			rk = detReq{SDLs: reversed(rq.SDLs), Pairs: reversedPairs(rq.Pairs)}
		}
		in, _ := json.Marshal(rk)
		wr := RunWorker(5*time.Minute, in, "det")
		if wr.Crashed || wr.TimedOut {
			c.Internal("determinism worker %d failed: %s", k, firstLine(wr.Stderr))
			return
		}
		var rs detResp
		if err := json.Unmarshal(wr.Stdout, &rs); err != nil || len(rs.Pairs) != len(rq.Pairs) || len(rs.Load) != len(rq.SDLs) {
			c.Internal("determinism worker %d: bad response (%v)", k, err)
			return
		}
		for i := range rs.Pairs {
			j := i
			if k%2 == 1 {
				j = len(rs.Pairs) - 1 - i
			}
			pairObs[j] = append(pairObs[j], obs{fmt.Sprintf("fresh process %d", k+1), rs.Pairs[i]})
		}
		for i := range rs.Load {
			j := i
			if k%2 == 1 {
				j = len(rs.Load) - 1 - i
			}
			loadObs[j] = append(loadObs[j], obs{fmt.Sprintf("fresh process %d", k+1), rs.Load[i]})
		}
	}
	var lines [][]byte
	var events []int64
	descs := map[int]string{}
	var nontrivial int64
	id := 0
	for i, p := range rq.Pairs {
		if len(pairObs[i]) == 0 {
			continue
		}
		id++
		b, _ := json.Marshal(map[string]any{"id": id, "obs": pairObs[i]})
		lines = append(lines, b)
		events = append(events, int64(len(pairObs[i])))
		descs[id] = fmt.Sprintf("document %q (schema %q)", clip(p[1], 500), clip(p[0], 300))
		if len(pairObs[i][0].Errs) > 0 {
			nontrivial++
		}
		if id == 3 {
			c.Sample(map[string]any{"document": p[1], "observations": len(pairObs[i]), "first_error_list": pairObs[i][0].Errs})
		}
	}
	for i, s := range rq.SDLs {
		if len(loadObs[i]) == 0 {
			continue
		}
		id++
		b, _ := json.Marshal(map[string]any{"id": id, "obs": loadObs[i]})
		lines = append(lines, b)
		events = append(events, int64(len(loadObs[i])))
		descs[id] = fmt.Sprintf("schema %q", clip(s, 600))
		if len(loadObs[i][0].Errs) > 0 {
			nontrivial++
		}
	}
	bad, ok := RunTrace(c, TraceJob{Module: "Determinism_Trace", CfgText: "SPECIFICATION Spec\nCHECK_DEADLOCK FALSE\n", Lines: lines, Events: events, Shards: 12, Heap: "3g"})
	if !ok {
		return
	}
	c.Count(int64(len(lines)), nontrivial, int64(len(lines)))
	c.Logf("Determinism_Trace: %d cases x %d observations, %d disagreements", len(lines), 4+nproc, len(bad))
	for _, raw := range bad {
		var b struct {
			ID    int    `json:"id"`
			Class string `json:"class"`
			Run   string `json:"run"`
			First []EErr `json:"first"`
			Other []EErr `json:"other"`
		}
		json.Unmarshal(raw, &b)
		c.Violation(fmt.Sprintf("%s: run %q reports %v, first run reported %v; %s", b.Class, b.Run, b.Other, b.First, descs[b.ID]),
			map[string]any{"case": descs[b.ID], "run": b.Run, "first": b.First, "other": b.Other})
	}
}

func reversed(a []string) []string {
	out := make([]string, len(a))
	for i := range a {
		out[len(a)-1-i] = a[i]
	}
	return out
}

func reversedPairs(a [][]string) [][]string {
	out := make([][]string, len(a))
	for i := range a {
		out[len(a)-1-i] = a[i]
	}
	return out
}

// misspell changes one character in a few field / type-condition / argument / enum names
func misspell(doc *[]GT, r *rand.Rand) {
	var walk func(n *GT)
	walk = func(n *GT) {
		for i := range n.K {
			c := &n.K[i]
			switch {
			case (c.T == "name" && (n.T == "field" || n.T == "arg")) || c.T == "typecond" || c.T == "enum":
				if r.Intn(6) == 0 && len(c.V) > 1 && c.V != "__typename" {
					b := []byte(c.V)
					b[len(b)-1] = "xX9"[r.Intn(3)]
					c.V = string(b)
				}
			}
			walk(c)
		}
	}
	for i := range *doc {
		walk(&(*doc)[i])
	}
}

// conflicting variants of the cyclic families over adversarySDL (shared by C10 and C18)
var cyclicConflictDocs = []string{
	`{ q { ...A0 } } fragment A0 on Query { q { ...A1 } x: i } fragment A1 on Query { ... on Query { q { ...A0 } x: l { i } } }`,
	`{ ...A0 ...A1 } fragment A0 on Query { ...A1 x: i } fragment A1 on Query { ... { ...A0 x: j(a: 1) } }`,
	`{ q { l { ...X } ...A0 } } fragment X on Query { x: i } fragment A0 on Query { l { ...X x: j(a: 2) } ...A1 } fragment A1 on Query { ... on Query { l { x: j } ...A0 } }`,
	`query A { ...F } query B { ...G } fragment F on Query { ...G x: i } fragment G on Query { ... on Query { ...F x: j } }`,
	// every spread of the cycle hidden inside an inline fragment (no fragment definition holds a spread directly or
	// under plain fields), a conflicting sibling after it
	// cycles no operation reaches
	`{ i } fragment F1 on Query { ... on Query { x: i ...F2 } } fragment F2 on Query { ...F1 x: j }`,
	`{ i } fragment F1 on Query { q { ...F2 x: i } } fragment F2 on Query { ...F1 q { x: j(a: 1) } } fragment F3 on Query { ...F1 ...F3 }`,
	`{ ...A } fragment A on Query { q { x: i ... on Query { ...A } } x: j(a: 1) }`,
	`{ q { ...A } } fragment A on Query { l { x: i ... { ...B } } x: j } fragment B on Query { ... on Query { q { ...A } x: j(a: 2) } x: i }`,
	`{ ...A } fragment A on Query { ... on Query { ... on Query { ...A } } q { x: i } q { x: j } }`,
	// (C18-s) a cycle whose conflict sits in a nested selection set that spreads the other fragment
	`{ ...A0 } fragment A0 on Query { ...A1 x: i } fragment A1 on Query { q { ...A0 x: j(a: 1) } }`,
	`{ q { ...A1 } } fragment A0 on Query { ...A1 x: i } fragment A1 on Query { q { ...A0 x: l { i } } }`,
}
