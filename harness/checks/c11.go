package checks

import (
	"bytes"
	"crypto/sha256"
	"encoding/hex"
	"encoding/json"
	"errors"
	"fmt"
	"github.com/vektah/gqlparser/v2/gqlerror"
	"math/rand"
	"os"
	"reflect"
	"runtime"
	"sort"
	"strconv"
	"strings"
	"sync"
	"sync/atomic"
	"time"

	"github.com/vektah/gqlparser/v2"
	"github.com/vektah/gqlparser/v2/ast"
	"github.com/vektah/gqlparser/v2/formatter"
	"github.com/vektah/gqlparser/v2/parser"
	"github.com/vektah/gqlparser/v2/validator"
	"github.com/vektah/gqlparser/v2/verifhook"

	"verif/harness/core"
	"verif/harness/tlc"
)

func init() {
	Registry["C11"] = checkC11
	workers["shared"] = sharedWorker
}

// ---- canonical deep snapshot of a schema graph ----

type snapper struct {
	b    strings.Builder
	seen map[uintptr]int
}

func (s *snapper) walk(v reflect.Value) {
	switch v.Kind() {
	case reflect.Ptr:
		if v.IsNil() {
			s.b.WriteString("nil;")
			return
		}
		p := v.Pointer()
		if id, ok := s.seen[p]; ok {
			fmt.Fprintf(&s.b, "->%d;", id)
			return
		}
		s.seen[p] = len(s.seen) + 1
		fmt.Fprintf(&s.b, "&%d{", len(s.seen))
		s.walk(v.Elem())
		s.b.WriteString("}")
	case reflect.Interface:
		if v.IsNil() {
			s.b.WriteString("nil;")
			return
		}
		s.walk(v.Elem())
	case reflect.Struct:
		s.b.WriteString(v.Type().Name() + "{")
		for i := 0; i < v.NumField(); i++ {
			s.b.WriteString(v.Type().Field(i).Name + ":")
			s.walk(v.Field(i))
		}
		s.b.WriteString("}")
	case reflect.Slice:
		if v.IsNil() {
			s.b.WriteString("nilslice;")
			return
		}
		// the spare capacity belongs to the snapshot too: an append by a reader would write there
		fmt.Fprintf(&s.b, "[%d/%d:", v.Len(), v.Cap())
		full := v.Slice(0, v.Cap())
		for i := 0; i < full.Len(); i++ {
			s.walk(full.Index(i))
			s.b.WriteString(",")
		}
		s.b.WriteString("]")
	case reflect.Map:
		if v.IsNil() {
			s.b.WriteString("nilmap;")
			return
		}
		keys := v.MapKeys()
		sort.Slice(keys, func(i, j int) bool { return fmt.Sprint(keys[i].Interface()) < fmt.Sprint(keys[j].Interface()) })
		s.b.WriteString("map{")
		for _, k := range keys {
			fmt.Fprintf(&s.b, "%v=>", k.Interface())
			s.walk(v.MapIndex(k))
			s.b.WriteString(",")
		}
		s.b.WriteString("}")
	case reflect.String:
		s.b.WriteString(strconv.Quote(v.String()) + ";")
	case reflect.Bool:
		fmt.Fprintf(&s.b, "%v;", v.Bool())
	case reflect.Int, reflect.Int8, reflect.Int16, reflect.Int32, reflect.Int64:
		fmt.Fprintf(&s.b, "%d;", v.Int())
	case reflect.Float32, reflect.Float64:
		fmt.Fprintf(&s.b, "%g;", v.Float())
	case reflect.Func, reflect.Chan:
		s.b.WriteString("opaque;")
	default:
		fmt.Fprintf(&s.b, "?%s;", v.Kind())
	}
}

// SchemaSnapshot returns a hash of the whole graph reachable from the schema.
func SchemaSnapshot(s *ast.Schema) string {
	sn := &snapper{seen: map[uintptr]int{}}
	sn.walk(reflect.ValueOf(s))
	h := sha256.Sum256([]byte(sn.b.String()))
	return hex.EncodeToString(h[:8])
}

// ---- operations on a shared schema ----

type sharedCall struct {
	Op    string                 `json:"op"` // validate | coerce | argmap | format
	Query string                 `json:"query,omitempty"`
	Vars  map[string]interface{} `json:"vars,omitempty"`
	Alone string                 `json:"alone"` // result hash when run alone on a pristine schema
}

func hashOf(v any) string {
	b, _ := json.Marshal(v)
	h := sha256.Sum256(b)
	return hex.EncodeToString(h[:8])
}

func argMaps(ss ast.SelectionSet, vars map[string]interface{}, out *[]any) {
	for _, s := range ss {
		switch s := s.(type) {
		case *ast.Field:
			if s.Definition != nil {
				m := s.ArgumentMap(vars)
				*out = append(*out, []any{s.Alias, fromGo(m)})
			}
			for _, d := range s.Directives {
				if d.Definition != nil {
					*out = append(*out, []any{"@" + d.Name, fromGo(d.ArgumentMap(vars))})
				}
			}
			argMaps(s.SelectionSet, vars, out)
		case *ast.InlineFragment:
			argMaps(s.SelectionSet, vars, out)
		}
	}
}

// runSharedCall performs one call against the (shared) schema and returns the hash of everything it returns.
func runSharedCall(schema *ast.Schema, c *sharedCall) (res string) {
	res, _ = runSharedCallKeep(schema, c)
	return res
}

// runSharedCallKeep also returns a function that renders the SAME returned
// objects (error lists with their paths, coerced maps, argument maps) again:
// called after later calls have run, it must give the same hash.
func runSharedCallKeep(schema *ast.Schema, c *sharedCall) (res string, again func() string) {
	again = func() string { return res }
	defer func() {
		if r := recover(); r != nil {
			res = "panic:" + fmt.Sprint(r)
			again = func() string { return res }
		}
	}()
	switch c.Op {
	case "format":
		var buf bytes.Buffer
		var fopts []formatter.FormatterOption
		switch c.Query { // (the options of a formatting call travel in the query field)
		case "nodesc":
			fopts = append(fopts, formatter.WithoutDescription())
		case "builtin":
			fopts = append(fopts, formatter.WithBuiltin(), formatter.WithComments())
		}
		formatter.NewFormatter(&buf, fopts...).FormatSchema(schema)
		return hashOf(buf.String()), again
	case "validate":
		doc, err := parser.ParseQuery(&ast.Source{Input: c.Query, Name: "q.graphql"})
		if err != nil {
			return "parse-error", again
		}
		errs := validator.Validate(schema, doc)
		return hashOf(projErrs(errs)), func() string { return hashOf(projErrs(errs)) }
	case "coerce", "argmap":
		doc, err := parser.ParseQuery(&ast.Source{Input: c.Query, Name: "q.graphql"})
		if err != nil {
			return "parse-error", again
		}
		if errs := validator.Validate(schema, doc); len(errs) > 0 {
			return hashOf(projErrs(errs)), func() string { return hashOf(projErrs(errs)) }
		}
		var thunks []func() any
		for _, op := range doc.Operations {
			// each call owns its variables map
			vars := deepCopyValue(c.Vars).(map[string]interface{})
			coerced, err := validator.VariableValues(schema, op, vars)
			if err != nil {
				e := err
				thunks = append(thunks, func() any { return "coerce-error:" + e.Error() + pathOf(e) })
				continue
			}
			thunks = append(thunks, func() any { return fromGo(coerced) })
			if c.Op == "argmap" {
				var maps []any
				argMaps(op.SelectionSet, coerced, &maps)
				thunks = append(thunks, func() any { return maps })
			}
		}
		render := func() string {
			var out []any
			for _, t := range thunks {
				out = append(out, t())
			}
			return hashOf(out)
		}
		return render(), render
	}
	return "?", again
}

// pathOf: the path of a coercion error, which its message may or may not repeat
func pathOf(err error) string {
	var ge *gqlerror.Error
	if errors.As(err, &ge) && ge != nil {
		return " path=" + ge.Path.String()
	}
	return ""
}

type sharedPlan struct {
	SDL        string       `json:"sdl"`
	Calls      []sharedCall `json:"calls"`
	Goroutines int          `json:"goroutines"`
	Seed       int64        `json:"seed"`
	Schedule   []int        `json:"schedule,omitempty"` // forced interleaving of 2 goroutines at walkSelection granularity
}

type sharedEvent struct {
	E      string `json:"e"`
	G      int    `json:"g"`
	Call   int    `json:"call"` // 1-based index into calls
	Result string `json:"result"`
	Seq    int64  `json:"seq"`
}

type sharedOut struct {
	Events []sharedEvent `json:"events"`
	Snaps  []string      `json:"snaps"`
}

func goid() int {
	var buf [64]byte
	n := runtime.Stack(buf[:], false)
	f := strings.Fields(string(buf[:n]))
	id, _ := strconv.Atoi(f[1])
	return id
}

// sharedWorker: runs the plan with real goroutines (under the race detector when built with -race)
func sharedWorker(args []string) int {
	var plan sharedPlan
	if err := json.NewDecoder(os.Stdin).Decode(&plan); err != nil {
		return 2
	}
	schema, err := gqlparser.LoadSchema(&ast.Source{Name: "schema.graphql", Input: plan.SDL})
	if err != nil {
		fmt.Fprintln(os.Stderr, "schema does not load")
		return 2
	}
	var out sharedOut
	out.Snaps = append(out.Snaps, SchemaSnapshot(schema))
	var seq int64
	var mu sync.Mutex
	emit := func(e sharedEvent) {
		e.Seq = atomic.AddInt64(&seq, 1)
		mu.Lock()
		out.Events = append(out.Events, e)
		mu.Unlock()
	}
	var wg sync.WaitGroup
	if len(plan.Schedule) > 0 {
		// forced schedule: goroutines 0 and 1 run calls 1 and 2; every walkSelection entry waits for its turn
		turn := make(chan struct{}, 1)
		var smu sync.Mutex
		cond := sync.NewCond(&smu)
		pos := 0
		ids := map[int]int{}
		finished := map[int]bool{}
		verifhook.OnGate = func() {
			smu.Lock()
			g, ok := ids[goid()]
			if !ok {
				smu.Unlock()
				return
			}
			for pos < len(plan.Schedule) && plan.Schedule[pos] != g && !finished[plan.Schedule[pos]] {
				cond.Wait()
			}
			if pos < len(plan.Schedule) {
				pos++
			}
			cond.Broadcast()
			smu.Unlock()
		}
		_ = turn
		for g := 0; g < 2; g++ {
			wg.Add(1)
			go func(g int) {
				defer wg.Done()
				smu.Lock()
				ids[goid()] = g
				smu.Unlock()
				emit(sharedEvent{E: "begin", G: g, Call: g + 1})
				r := runSharedCall(schema, &plan.Calls[g])
				emit(sharedEvent{E: "end", G: g, Call: g + 1, Result: r})
				smu.Lock()
				finished[g] = true
				// skip the rest of this goroutine's turns
				for pos < len(plan.Schedule) && finished[plan.Schedule[pos]] {
					pos++
				}
				cond.Broadcast()
				smu.Unlock()
			}(g)
		}
		wg.Wait()
		verifhook.OnGate = nil
	} else {
		for g := 0; g < plan.Goroutines; g++ {
			wg.Add(1)
			go func(g int) {
				defer wg.Done()
				r := rand.New(rand.NewSource(plan.Seed + int64(g)*7919))
				type keptCall struct {
					ci    int
					again func() string
				}
				var kept []keptCall
				for k := 0; k < 3*len(plan.Calls)/plan.Goroutines+3; k++ {
					ci := r.Intn(len(plan.Calls))
					emit(sharedEvent{E: "begin", G: g, Call: ci + 1})
					res, again := runSharedCallKeep(schema, &plan.Calls[ci])
					emit(sharedEvent{E: "end", G: g, Call: ci + 1, Result: res})
					kept = append(kept, keptCall{ci, again})
				}
				// what this goroutine was given stays what it was while the others keep running
				for _, k := range kept {
					emit(sharedEvent{E: "recheck", G: g, Call: k.ci + 1, Result: k.again()})
				}
			}(g)
		}
		wg.Wait()
	}
	out.Snaps = append(out.Snaps, SchemaSnapshot(schema))
	sort.Slice(out.Events, func(i, j int) bool { return out.Events[i].Seq < out.Events[j].Seq })
	json.NewEncoder(os.Stdout).Encode(out)
	return 0
}

// allInterleavings of a steps of goroutine 0 and b steps of goroutine 1
func allInterleavings(a, b int) [][]int {
	if a == 0 && b == 0 {
		return [][]int{{}}
	}
	var out [][]int
	if a > 0 {
		for _, r := range allInterleavings(a-1, b) {
			out = append(out, append([]int{0}, r...))
		}
	}
	if b > 0 {
		for _, r := range allInterleavings(a, b-1) {
			out = append(out, append([]int{1}, r...))
		}
	}
	return out
}

func checkC11(c *core.Ctx) {
	c.Rule = "a case is one run on one schema shared by all calls: (i) histories - random sequences of parse+validate, variable coercion, argument resolution and schema formatting, with a canonical deep snapshot of the whole schema graph (cycle-safe, including annotation fields of schema-owned default values and the spare capacity of schema-owned slices) before and after every call; (ii) schedules - 2..32 goroutines issuing random mixes in a child process built with the Go race detector, events ordered by one atomic sequence number; (iii) forced schedules - every interleaving of two validations at walkSelection granularity (hook H3). Shared_Trace requires every call to return what it returns alone on a pristine schema, equal snapshots, and no race report. Non-trivial = runs with at least two different kinds of call; distinct by (schema, calls, seed)"
	c.Assumptions = []string{
		"data-race freedom is decided by the Go race detector on the schedules the scheduler produces (plus the forced ones); TLC contributes the read-only invariant (Shared.tla, model-checked with a faulty writer as non-vacuity witness), the result oracle and the snapshot equality",
		"the snapshot is a reflective walk of everything reachable from *ast.Schema",
	}
	r := c.RunTLC(tlc.Opts{Module: "Shared", CfgFile: "Shared_MC.cfg", Workers: 8})
	tlc.Cleanup(r)
	if c.HasInternal() {
		return
	}
	nschemas, nhist, ncalls := 2, 4, 60
	gsizes := []int{2, 8}
	if c.Thorough() {
		nschemas, nhist, ncalls = 8, 12, 150
		gsizes = []int{2, 4, 8, 16, 32}
	}
	rng := rand.New(rand.NewSource(c.Seed*141650939 + 11))
	tg := &TGen{R: rng}
	var lines [][]byte
	var events []int64
	descs := map[int]string{}
	id := 0
	var nontrivial int64
	addCase := func(desc string, calls []sharedCall, evs []sharedEvent, snaps []string, races int) {
		id++
		for _, e := range evs {
			if e.E == "end" && e.Result != calls[e.Call-1].Alone {
				desc += fmt.Sprintf(" || call %d (%s %q vars %v) returned %s, alone %s", e.Call, calls[e.Call-1].Op, clip(calls[e.Call-1].Query, 300), calls[e.Call-1].Vars, e.Result, calls[e.Call-1].Alone)
				break
			}
		}
		if evs == nil {
			evs = []sharedEvent{}
		}
		type tcall struct {
			Op    string `json:"op"`
			Alone string `json:"alone"`
		}
		tc := make([]tcall, len(calls))
		for i, cl := range calls {
			tc[i] = tcall{cl.Op, cl.Alone}
		}
		b, _ := json.Marshal(map[string]any{"id": id, "calls": tc, "events": evs, "snaps": snaps, "races": races})
		lines = append(lines, b)
		events = append(events, int64(len(evs)))
		descs[id] = desc
		kinds := map[string]bool{}
		for _, cl := range calls {
			kinds[cl.Op] = true
		}
		if len(kinds) >= 2 {
			nontrivial++
		}
	}
	// (0) fixed schemas whose tables are NOT in alphabetical order, with documents that
	// drive every rule and every suggestion / lookup path (unknown fields on interfaces
	// and unions, misspelt types, arguments, directives, enum values): one history with a
	// snapshot around every call, one run of 4 goroutines under the race detector.
	for _, hs := range []struct {
		sdl  string
		docs []string
	}{{detSDL, detDocs}, {handRuleSDL, handRuleDocs}, {sharedDupSDL, sharedDupDocs}, {sharedDupSDL, nil}} {
		var calls []sharedCall
		if hs.docs == nil {
			// formatters only, with every option set in turn: whatever a formatter does to lay out one configuration
			// (descriptions off, built-ins on) happens while other goroutines read the same schema
			for i := 0; i < 32; i++ {
				calls = append(calls, sharedCall{Op: "format", Query: []string{"nodesc", "", "builtin", "nodesc"}[i%4]})
			}
		}
		for i, q := range hs.docs {
			if i%25 == 24 || (i%3 == 1 && len(hs.docs) < 40) {
				calls = append(calls, sharedCall{Op: "format", Query: []string{"", "nodesc", "", "builtin"}[(i/3)%4]})
			}
			calls = append(calls, sharedCall{Op: "validate", Query: q})
		}
		for i := range calls {
			fresh, err := gqlparser.LoadSchema(&ast.Source{Name: "schema.graphql", Input: hs.sdl})
			if err != nil {
				c.Internal("hand schema does not load: %v", err)
				return
			}
			calls[i].Alone = runSharedCall(fresh, &calls[i])
		}
		shared, _ := gqlparser.LoadSchema(&ast.Source{Name: "schema.graphql", Input: hs.sdl})
		snaps := []string{SchemaSnapshot(shared)}
		var evs []sharedEvent
		var agains []func() string
		for ci := range calls {
			evs = append(evs, sharedEvent{E: "begin", Call: ci + 1, Seq: int64(2*ci + 1)})
			res, again := runSharedCallKeep(shared, &calls[ci])
			agains = append(agains, again)
			evs = append(evs, sharedEvent{E: "end", Call: ci + 1, Result: res, Seq: int64(2*ci + 2)})
			snaps = append(snaps, SchemaSnapshot(shared))
		}
		for ci, again := range agains {
			evs = append(evs, sharedEvent{E: "recheck", Call: ci + 1, Result: again(), Seq: int64(2*len(calls) + ci + 1)})
		}
		addCase(fmt.Sprintf("history of the %d hand-written documents on schema %q", len(calls), clip(hs.sdl, 200)), calls, evs, snaps, 0)
		plan := sharedPlan{SDL: hs.sdl, Calls: calls, Goroutines: 4, Seed: c.Seed*1000 + 4}
		in, _ := json.Marshal(plan)
		wr := RunWorker(4*time.Minute, in, "shared")
		races := strings.Count(wr.Stderr, "DATA RACE")
		if wr.TimedOut {
			c.Violation("4 goroutines on the hand-written schema did not finish within 4 minutes", map[string]any{"plan": plan})
			continue
		}
		var out sharedOut
		if err := json.Unmarshal(wr.Stdout, &out); err != nil {
			if races > 0 || wr.Crashed {
				addCase(fmt.Sprintf("4 goroutines on schema %q: %s", clip(hs.sdl, 200), firstLines(wr.Stderr, 12)), calls, nil, []string{"x", "x"}, maxInt(races, 1))
				continue
			}
			c.Internal("shared worker: bad output: %v", err)
			return
		}
		addCase(fmt.Sprintf("4 goroutines, %d events on the hand-written schema %q: %s", len(out.Events), clip(hs.sdl, 200), firstLines(wr.Stderr, 12)), calls, out.Events, out.Snaps, races)
	}
	for si := 0; si < nschemas; si++ {
		var sdl string
		var schema *ast.Schema
		for try := 0; try < 20 && schema == nil; try++ {
			gs := tg.Gen()
			sdl = gs.doc.SDL()
			if l, s, crash := loadReal([]*ast.Source{{Name: "schema.graphql", Input: sdl}}); crash == "" && l.OK {
				schema = s
			}
		}
		if schema == nil {
			c.Internal("could not generate a loadable schema")
			return
		}
		dg := &DGen{R: rng, S: schema}
		qg := &QGen{R: rng, MaxDepth: 3}
		vocab := schemaVocabulary(schema)
		mkCalls := func(n int) []sharedCall {
			var calls []sharedCall
			for i := 0; i < n; i++ {
				var cl sharedCall
				switch k := rng.Intn(10); {
				case k == 0:
					cl = sharedCall{Op: "format", Query: []string{"", "nodesc", "builtin"}[rng.Intn(3)]}
				case k < 4:
					doc := dg.Doc()
					if rng.Intn(2) == 0 {
						InjectDocFault(dg, &doc, rng)
					}
					cl = sharedCall{Op: "validate", Query: RenderSpaces(UnparseQuery(doc, nil))}
				case k < 5:
					cl = sharedCall{Op: "validate", Query: RenderSpaces(UnparseQuery(renameToVocabulary(qg.Doc(), vocab, rng), nil))}
				default:
					doc := dg.Doc()
					op := "coerce"
					if k >= 7 {
						op = "argmap"
					}
					cl = sharedCall{Op: op, Query: RenderSpaces(UnparseQuery(doc, nil)), Vars: varsFor(doc, schema, rng)}
					// the values are what a JSON transport delivers (and what the child process will see)
					if b, err := json.Marshal(cl.Vars); err == nil {
						var m map[string]interface{}
						if json.Unmarshal(b, &m) == nil {
							cl.Vars = m
						}
					}
				}
				// the sequential baseline: the same call alone on a pristine schema loaded from the same text
				fresh, err := gqlparser.LoadSchema(&ast.Source{Name: "schema.graphql", Input: sdl})
				if err != nil {
					c.Internal("schema does not reload")
					return nil
				}
				cl.Alone = runSharedCall(fresh, &cl)
				calls = append(calls, cl)
			}
			return calls
		}
		// (i) histories, single-threaded, snapshot around every call
		for h := 0; h < nhist; h++ {
			calls := mkCalls(ncalls / 2)
			if calls == nil {
				return
			}
			shared, _ := gqlparser.LoadSchema(&ast.Source{Name: "schema.graphql", Input: sdl})
			snaps := []string{SchemaSnapshot(shared)}
			var evs []sharedEvent
			var agains []func() string
			for ci := range calls {
				evs = append(evs, sharedEvent{E: "begin", Call: ci + 1, Seq: int64(2*ci + 1)})
				res, again := runSharedCallKeep(shared, &calls[ci])
				agains = append(agains, again)
				evs = append(evs, sharedEvent{E: "end", Call: ci + 1, Result: res, Seq: int64(2*ci + 2)})
				snaps = append(snaps, SchemaSnapshot(shared))
			}
			for ci, again := range agains {
				evs = append(evs, sharedEvent{E: "recheck", Call: ci + 1, Result: again(), Seq: int64(2*len(calls) + ci + 1)})
			}
			addCase(fmt.Sprintf("history of %d calls on schema %q; calls: %s", len(calls), clip(sdl, 200), describeCalls(calls)), calls, evs, snaps, 0)
			if si == 0 && h == 0 {
				c.Sample(map[string]any{"mode": "history", "calls": len(calls), "first_calls": calls[:min(3, len(calls))]})
			}
		}
		// (ii) goroutines under the race detector
		for _, g := range gsizes {
			calls := mkCalls(ncalls / 3)
			if calls == nil {
				return
			}
			plan := sharedPlan{SDL: sdl, Calls: calls, Goroutines: g, Seed: c.Seed*1000 + int64(g)}
			in, _ := json.Marshal(plan)
			wr := RunWorker(4*time.Minute, in, "shared")
			races := strings.Count(wr.Stderr, "DATA RACE")
			if wr.TimedOut {
				c.Violation(fmt.Sprintf("%d goroutines on one schema did not finish within 4 minutes", g), map[string]any{"plan": plan})
				continue
			}
			var out sharedOut
			if err := json.Unmarshal(wr.Stdout, &out); err != nil {
				if races > 0 || wr.Crashed {
					addCase(fmt.Sprintf("%d goroutines on schema %q: %s", g, clip(sdl, 200), firstLines(wr.Stderr, 12)), calls, nil, []string{"x", "x"}, maxInt(races, 1))
					continue
				}
				c.Internal("shared worker: bad output: %v", err)
				return
			}
			addCase(fmt.Sprintf("%d goroutines, %d events on schema %q: %s", g, len(out.Events), clip(sdl, 200), firstLines(wr.Stderr, 12)), calls, out.Events, out.Snaps, races)
		}
		// (iii) forced schedules of two validations
		if c.Thorough() || si == 0 {
			calls := mkCalls(2)
			if calls == nil {
				return
			}
			for i := range calls {
				if calls[i].Op == "format" {
					calls[i] = sharedCall{Op: "validate", Query: "{ __typename }"}
					fresh, _ := gqlparser.LoadSchema(&ast.Source{Name: "schema.graphql", Input: sdl})
					calls[i].Alone = runSharedCall(fresh, &calls[i])
				}
			}
			scheds := allInterleavings(3, 3)
			if c.Thorough() {
				scheds = allInterleavings(4, 4)
			}
			for _, sc := range scheds {
				plan := sharedPlan{SDL: sdl, Calls: calls, Schedule: sc}
				in, _ := json.Marshal(plan)
				wr := RunWorker(60*time.Second, in, "shared")
				races := strings.Count(wr.Stderr, "DATA RACE")
				var out sharedOut
				if err := json.Unmarshal(wr.Stdout, &out); err != nil {
					if wr.TimedOut {
						c.Internal("forced schedule %v did not finish (scheduler gate)", sc)
						return
					}
					addCase(fmt.Sprintf("forced schedule %v: %s", sc, firstLines(wr.Stderr, 12)), calls, nil, []string{"x", "x"}, maxInt(races, 1))
					continue
				}
				addCase(fmt.Sprintf("forced schedule %v on schema %q: %s", sc, clip(sdl, 200), firstLines(wr.Stderr, 8)), calls, out.Events, out.Snaps, races)
			}
			c.SetExtra("forced_schedules", len(scheds))
		}
	}
	bad, ok := RunTrace(c, TraceJob{Module: "Shared_Trace", CfgText: "SPECIFICATION Spec\nCHECK_DEADLOCK FALSE\n", Lines: lines, Events: events, Shards: 8, Heap: "3g"})
	if !ok {
		return
	}
	c.Count(int64(len(lines)), nontrivial, int64(len(lines)))
	c.Logf("Shared_Trace: %d runs validated, %d disagreements", len(lines), len(bad))
	for _, raw := range bad {
		var b struct {
			ID    int    `json:"id"`
			Class string `json:"class"`
			At    int    `json:"at"`
		}
		json.Unmarshal(raw, &b)
		c.Violation(fmt.Sprintf("%s (at %d): %s", b.Class, b.At, descs[b.ID]), map[string]any{"what": b.Class, "at": b.At, "case": descs[b.ID]})
	}
}

// deepCopyValue copies a JSON-like value (coercion may write into the maps and slices it is given)
func deepCopyValue(v interface{}) interface{} {
	switch x := v.(type) {
	case map[string]interface{}:
		m := make(map[string]interface{}, len(x))
		for k, e := range x {
			m[k] = deepCopyValue(e)
		}
		return m
	case []interface{}:
		s := make([]interface{}, len(x))
		for i, e := range x {
			s[i] = deepCopyValue(e)
		}
		return s
	}
	return v
}

func maxInt(a, b int) int {
	if a > b {
		return a
	}
	return b
}

func describeCalls(calls []sharedCall) string {
	var b strings.Builder
	for i, cl := range calls {
		if i >= 4 {
			b.WriteString("...")
			break
		}
		fmt.Fprintf(&b, "[%d %s %q] ", i+1, cl.Op, clip(cl.Query, 160))
	}
	return b.String()
}

// varsFor supplies values for some of the variables of the operations of doc (JSON-like Go values)
func varsFor(doc []GT, schema *ast.Schema, r *rand.Rand) map[string]interface{} {
	vars := map[string]interface{}{}
	for _, d := range doc {
		if d.T != "op" {
			continue
		}
		for _, k := range d.K {
			if k.T != "vardef" {
				continue
			}
			if r.Intn(3) == 0 {
				continue
			}
			var t *ast.Type
			t = gtToType(k.K[1])
			vars[k.K[0].V] = goValueFor(t, schema, r, 2)
			if r.Intn(4) == 0 {
				// a defect somewhere inside the value: the coercion error carries a path
				vars[k.K[0].V] = spoilValue(vars[k.K[0].V], r)
			}
		}
	}
	return vars
}

// spoilValue replaces one leaf of a JSON-like value by a value of the wrong kind.
func spoilValue(v interface{}, r *rand.Rand) interface{} {
	switch x := v.(type) {
	case []interface{}:
		if len(x) == 0 {
			return []interface{}{map[string]interface{}{"unexpected": true}}
		}
		i := r.Intn(len(x))
		x[i] = spoilValue(x[i], r)
		return x
	case map[string]interface{}:
		if len(x) == 0 {
			return "not an object"
		}
		keys := make([]string, 0, len(x))
		for k := range x {
			keys = append(keys, k)
		}
		sort.Strings(keys)
		k := keys[r.Intn(len(keys))]
		x[k] = spoilValue(x[k], r)
		return x
	case string:
		return map[string]interface{}{"not": "a string"}
	case nil:
		return []interface{}{[]interface{}{[]interface{}{"deep"}}}
	default:
		return "wrong kind"
	}
}

func gtToType(g GT) *ast.Type {
	nn := len(g.K) > 1 && g.K[len(g.K)-1].T == "nn"
	if g.T == "list" {
		return &ast.Type{Elem: gtToType(g.K[0]), NonNull: nn}
	}
	return &ast.Type{NamedType: g.K[0].V, NonNull: nn}
}

func goValueFor(t *ast.Type, schema *ast.Schema, r *rand.Rand, depth int) interface{} {
	if !t.NonNull && r.Intn(6) == 0 {
		return nil
	}
	if t.Elem != nil {
		out := []interface{}{}
		for i := r.Intn(3); i > 0; i-- {
			out = append(out, goValueFor(t.Elem, schema, r, depth-1))
		}
		return out
	}
	def := schema.Types[t.NamedType]
	if def == nil {
		return nil
	}
	switch def.Kind {
	case ast.Enum:
		return def.EnumValues[r.Intn(len(def.EnumValues))].Name
	case ast.InputObject:
		m := map[string]interface{}{}
		oneOf := def.Directives.ForName("oneOf") != nil
		for i, f := range def.Fields {
			if oneOf {
				if i == 0 {
					nt := *f.Type
					nt.NonNull = true
					m[f.Name] = goValueFor(&nt, schema, r, depth-1)
				}
				continue
			}
			if (f.Type.NonNull && f.DefaultValue == nil) || (depth > 0 && r.Intn(3) == 0 && f.Type.Name() != def.Name) {
				m[f.Name] = goValueFor(f.Type, schema, r, depth-1)
			}
		}
		return m
	}
	switch t.NamedType {
	case "Int":
		return r.Intn(100)
	case "Float":
		return 1.5
	case "String":
		return "s"
	case "Boolean":
		return r.Intn(2) == 0
	case "ID":
		return "id"
	}
	return map[string]interface{}{"any": []interface{}{1, "x"}}
}

// a schema whose lists carry repeats and stand in no particular order: extensions that name an interface or a
// union member the base already names, interfaces implemented by interfaces declared before the objects
const sharedDupSDL = `
interface Named { name: String }
interface Titled { title: String }
interface Node { id: ID }
interface Entity implements Node { id: ID }
interface Draft implements Node { id: ID }
type User implements Entity & Node { id: ID }
type Admin implements Draft & Node { id: ID }
type Book implements Named { name: String title: String }
extend type Book implements Named & Titled
union Thing = Book | User
extend union Thing = Book | Admin
enum Shade { DARK LIGHT }
extend enum Shade { MID }
interface Orphan { id: ID }
interface Lonely implements Orphan { id: ID }
"described, with a described argument"
directive @tagged("the name" name: String = "n", "the weight" weight: Int = 1) on FIELD_DEFINITION | FIELD
type Query { book: Book node: Node thing: Thing shade("which shade" s: Shade = MID, "how much" amount: Int = 2): Shade @tagged orphan: Orphan }
`

var sharedDupDocs = []string{
	`{ book { name title nam } }`, `{ node { idd } }`, `{ node { ... on Entity { id } ... on Book { name } } }`, `{ thing { ... on Book { name } ... on Admin { id } nope } }`,
	`{ book { ... on Named { name } ... on Titled { title } } }`, `{ shade(s: MIDD) }`, `{ node { ... on Draft { id } ... on User { id } } thing { __typename } }`,
	`{ node { name } }`, `{ thing { name } }`, `{ book { ... on Node { id } } }`, `{ thing { title } }`, `{ node { title } }`, `{ thing { title name id } node { title name } }`,
	// interfaces nothing implements (no possible type at all): as type condition, as parent of a spread, as parent
	// of an unknown field
	`{ node { ... on Orphan { id } } }`, `{ orphan { idd ... on Lonely { id } ...F } } fragment F on Node { id }`, `{ orphan { ... on Book { name } } thing { ... on Lonely { id } } }`,
}
