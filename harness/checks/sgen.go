package checks

import (
	"fmt"
	"math/rand"
	"sort"

	"github.com/vektah/gqlparser/v2/ast"
	"github.com/vektah/gqlparser/v2/lexer"
	"github.com/vektah/gqlparser/v2/parser"
)

// ---- projection of the type-system AST ----

func descLeaf(d string) []GT {
	if d == "" {
		return nil
	}
	return []GT{leaf("desc", d)}
}

func projArgDefs(as ast.ArgumentDefinitionList) []GT {
	var out []GT
	for _, a := range as {
		n := GT{T: "argdef"}
		n.K = append(n.K, descLeaf(a.Description)...)
		n.K = append(n.K, leaf("name", a.Name), projType(a.Type))
		if a.DefaultValue != nil {
			n.K = append(n.K, GT{T: "default", K: []GT{projValue(a.DefaultValue)}})
		}
		n.K = append(n.K, projDirs(a.Directives)...)
		out = append(out, n)
	}
	return out
}

func projDefinition(tag string, d *ast.Definition) GT {
	n := GT{T: tag}
	n.K = append(n.K, descLeaf(d.Description)...)
	n.K = append(n.K, leaf("kind", string(d.Kind)), leaf("name", d.Name))
	for _, i := range d.Interfaces {
		n.K = append(n.K, leaf("iface", i))
	}
	n.K = append(n.K, projDirs(d.Directives)...)
	for _, f := range d.Fields {
		if d.Kind == ast.InputObject {
			k := GT{T: "argdef"}
			k.K = append(k.K, descLeaf(f.Description)...)
			k.K = append(k.K, leaf("name", f.Name), projType(f.Type))
			if f.DefaultValue != nil {
				k.K = append(k.K, GT{T: "default", K: []GT{projValue(f.DefaultValue)}})
			}
			k.K = append(k.K, projDirs(f.Directives)...)
			if len(f.Arguments) > 0 {
				k.K = append(k.K, GT{T: "UNEXPECTED-ARGUMENTS-ON-INPUT-FIELD"})
			}
			n.K = append(n.K, k)
			continue
		}
		k := GT{T: "fielddef"}
		k.K = append(k.K, descLeaf(f.Description)...)
		k.K = append(k.K, leaf("name", f.Name))
		k.K = append(k.K, projArgDefs(f.Arguments)...)
		k.K = append(k.K, projType(f.Type))
		if f.DefaultValue != nil {
			k.K = append(k.K, GT{T: "UNEXPECTED-DEFAULT-ON-FIELD"})
		}
		k.K = append(k.K, projDirs(f.Directives)...)
		n.K = append(n.K, k)
	}
	for _, m := range d.Types {
		n.K = append(n.K, leaf("member", m))
	}
	for _, e := range d.EnumValues {
		k := GT{T: "enumval"}
		k.K = append(k.K, descLeaf(e.Description)...)
		k.K = append(k.K, leaf("name", e.Name))
		k.K = append(k.K, projDirs(e.Directives)...)
		n.K = append(n.K, k)
	}
	return n
}

func projSchemaDef(tag string, s *ast.SchemaDefinition) GT {
	n := GT{T: tag}
	n.K = append(n.K, descLeaf(s.Description)...)
	n.K = append(n.K, projDirs(s.Directives)...)
	for _, o := range s.OperationTypes {
		n.K = append(n.K, GT{T: "optype", K: []GT{leaf("op", string(o.Operation)), leaf("type", o.Type)}})
	}
	return n
}

// ProjectSchemaDoc: the five lists of the AST in the fixed order schema
// definitions, schema extensions, directive definitions, type definitions,
// type extensions.
func ProjectSchemaDoc(d *ast.SchemaDocument) []GT {
	var out []GT
	for _, s := range d.Schema {
		out = append(out, projSchemaDef("schema", s))
	}
	for _, s := range d.SchemaExtension {
		out = append(out, projSchemaDef("extschema", s))
	}
	for _, dd := range d.Directives {
		n := GT{T: "dirdef"}
		n.K = append(n.K, descLeaf(dd.Description)...)
		n.K = append(n.K, leaf("name", dd.Name))
		n.K = append(n.K, projArgDefs(dd.Arguments)...)
		if dd.IsRepeatable {
			n.K = append(n.K, leaf("repeatable", "repeatable"))
		}
		for _, l := range dd.Locations {
			n.K = append(n.K, leaf("loc", string(l)))
		}
		out = append(out, n)
	}
	for _, def := range d.Definitions {
		out = append(out, projDefinition("def", def))
	}
	for _, def := range d.Extensions {
		out = append(out, projDefinition("ext", def))
	}
	return out
}

func schemaRank(t string) int {
	switch t {
	case "schema":
		return 1
	case "extschema":
		return 2
	case "dirdef":
		return 3
	case "def":
		return 4
	}
	return 5
}

func dropEmptyDesc(ns []GT) []GT {
	var out []GT
	for _, n := range ns {
		if n.T == "desc" && n.V == "" {
			continue
		}
		n.K = dropEmptyDesc(n.K)
		out = append(out, n)
	}
	return out
}

// schemaNorm: stable order by AST list; an empty description is not
// distinguishable from none.
func schemaNorm(ns []GT) []GT {
	out := dropEmptyDesc(append([]GT{}, ns...))
	sort.SliceStable(out, func(i, j int) bool { return schemaRank(out[i].T) < schemaRank(out[j].T) })
	return out
}

var builtinToggle uint32

func parseSchemaReal(src string) (tree []GT, ok bool, crash string) {
	defer guard("parser.ParseSchema", src)()
	defer func() {
		if r := recover(); r != nil {
			crash = fmt.Sprintf("panic: %v", r)
		}
	}()
	// alternate the BuiltIn flag of the source: every definition and extension must carry it
	builtin := len(src)%2 == 1
	doc, err := parser.ParseSchema(&ast.Source{Input: src, Name: "s", BuiltIn: builtin})
	if err != nil {
		return nil, false, ""
	}
	if doc == nil {
		return nil, false, "nil document with nil error"
	}
	tree = ProjectSchemaDoc(doc)
	for _, d := range doc.Definitions {
		if d.BuiltIn != builtin {
			tree = append(tree, GT{T: "BUILTIN-FLAG-WRONG", V: d.Name})
		}
	}
	for _, d := range doc.Extensions {
		if d.BuiltIn != builtin {
			tree = append(tree, GT{T: "BUILTIN-FLAG-WRONG", V: d.Name})
		}
	}
	return tree, true, ""
}

// ---- token classes ----

var schemaClasses = []string{"SCHEMA", "SCALAR", "TYPE", "INTERFACE", "UNION", "ENUM", "INPUT", "DIRECTIVE", "EXTEND", "IMPLEMENTS", "REPEATABLE",
	"ON", "OP", "LOC", "BOOL", "NULL", "NAME", "STR", "INT", "FLOAT", "LB", "RB", "LP", "RP", "LK", "RK", "COLON", "EQ", "BANG", "DOLLAR", "AT", "PIPE", "AMP", "SPREAD"}

var dirLocations = []string{"QUERY", "MUTATION", "SUBSCRIPTION", "FIELD", "FRAGMENT_DEFINITION", "FRAGMENT_SPREAD", "INLINE_FRAGMENT", "VARIABLE_DEFINITION",
	"SCHEMA", "SCALAR", "OBJECT", "FIELD_DEFINITION", "ARGUMENT_DEFINITION", "INTERFACE", "UNION", "ENUM", "ENUM_VALUE", "INPUT_OBJECT", "INPUT_FIELD_DEFINITION"}

var schemaKeywordClass = map[string]string{"schema": "SCHEMA", "scalar": "SCALAR", "type": "TYPE", "interface": "INTERFACE", "union": "UNION", "enum": "ENUM",
	"input": "INPUT", "directive": "DIRECTIVE", "extend": "EXTEND", "implements": "IMPLEMENTS", "repeatable": "REPEATABLE", "on": "ON",
	"query": "OP", "mutation": "OP", "subscription": "OP", "true": "BOOL", "false": "BOOL", "null": "NULL"}

func schemaLexeme(class string, i int) RTok {
	mk := func(t string) RTok { return RTok{Class: class, Text: t, Value: t} }
	switch class {
	case "NAME":
		return mk("N" + itoa(i))
	case "LOC":
		return mk(dirLocations[i%len(dirLocations)])
	case "OP":
		return mk([]string{"query", "mutation", "subscription"}[i%3])
	case "BOOL":
		return mk([]string{"true", "false"}[i%2])
	case "NULL":
		return mk("null")
	case "INT":
		return mk([]string{"0", "-3", "17"}[i%3])
	case "FLOAT":
		return mk([]string{"1.5", "-2e3"}[i%2])
	case "STR":
		switch i % 3 {
		case 0:
			return RTok{Class: class, Text: `"d` + itoa(i) + `\"q"`, Value: "d" + itoa(i) + "\"q"}
		case 1:
			return RTok{Class: class, Text: `"""b` + itoa(i) + `"""`, Value: "b" + itoa(i)}
		default:
			return RTok{Class: class, Text: `""`, Value: ""}
		}
	case "PIPE":
		return mk("|")
	case "AMP":
		return mk("&")
	}
	for kw, c := range schemaKeywordClass {
		if c == class && class != "OP" && class != "BOOL" {
			return mk(kw)
		}
	}
	return mk(punctText[class])
}

func classOfSchemaToken(t lexer.Token) string {
	switch t.Kind {
	case lexer.Name:
		if c, ok := schemaKeywordClass[t.Value]; ok {
			return c
		}
		for _, l := range dirLocations {
			if l == t.Value {
				return "LOC"
			}
		}
		return "NAME"
	case lexer.Amp:
		return "AMP"
	case lexer.Pipe:
		return "PIPE"
	}
	return classOfQueryToken(t)
}

func schemaBind() *GrammarBind {
	return &GrammarBind{Prop: "C06", Module: "SchemaGrammar_MC", Classes: schemaClasses, Lexeme: schemaLexeme, Parse: parseSchemaReal, Norm: schemaNorm}
}

// ---- generator of type-system documents (grammar-directed, type-blind) ----

type SGen struct {
	R     *rand.Rand
	Q     *QGen
	Nasty bool // descriptions from nastyDescs
}

var sNames = []string{"A", "B", "Query", "Mutation", "type", "input", "enum", "on", "implements", "extend", "schema", "repeatable", "FIELD", "OBJECT", "query", "_x", "Node", "id", "interface", "union", "scalar", "directive", "deprecated", "include", "oneOf", "specifiedBy"}

func (g *SGen) name() string { return sNames[g.R.Intn(len(sNames))] }

var nastyDescs = []string{"  leading", "trailing \n", "\n\nblank around\n\n", "    all\n    indented", "\tall\n\t tabbed", "bell\x07", "cr\rlf", "a\r\nb", "   ", "\t", `a """ b`, `\"""`, `end\`, `end"`, `"start`, `""`,
	"é日本\U0001F600", "tab\tin", "line1\n\n  line3", " \n x \n ", "#hash", "ls\u2028", "x\n", "\nx", "a\n   \nb", "del\x7f", "\ufeffbom", "a\\\nb", "\"\"\"\n\"\"\""}

func (g *SGen) desc() []GT {
	if g.Nasty && g.R.Intn(3) == 0 {
		return []GT{leaf("desc", nastyDescs[g.R.Intn(len(nastyDescs))])}
	}
	switch g.R.Intn(5) {
	case 0:
		return []GT{leaf("desc", []string{"a description", "multi\nline", `with "quotes"`, "x"}[g.R.Intn(4)])}
	}
	return nil
}

func (g *SGen) cdirs() []GT {
	g.Q.R = g.R
	return g.Q.Dirs(false)
}

func (g *SGen) argdefs(tagMin int) []GT {
	var out []GT
	for i := tagMin + g.R.Intn(3); i > 0; i-- {
		n := GT{T: "argdef"}
		n.K = append(n.K, g.desc()...)
		g.Q.R = g.R
		n.K = append(n.K, leaf("name", g.name()), g.Q.Type(2))
		if g.R.Intn(3) == 0 {
			n.K = append(n.K, GT{T: "default", K: []GT{g.Q.Value(2, false)}})
		}
		n.K = append(n.K, g.cdirs()...)
		out = append(out, n)
	}
	return out
}

func (g *SGen) fields() []GT {
	var out []GT
	for i := 1 + g.R.Intn(3); i > 0; i-- {
		n := GT{T: "fielddef"}
		n.K = append(n.K, g.desc()...)
		n.K = append(n.K, leaf("name", g.name()))
		if g.R.Intn(3) == 0 {
			n.K = append(n.K, g.argdefs(1)...)
		}
		g.Q.R = g.R
		n.K = append(n.K, g.Q.Type(2))
		n.K = append(n.K, g.cdirs()...)
		out = append(out, n)
	}
	return out
}

func (g *SGen) enumName() string {
	for {
		n := g.name()
		if n != "true" && n != "false" && n != "null" {
			return n
		}
	}
}

func (g *SGen) typeBody(kind string, ext bool) []GT {
	var k []GT
	switch kind {
	case "OBJECT", "INTERFACE":
		if g.R.Intn(3) == 0 {
			for i := 1 + g.R.Intn(2); i > 0; i-- {
				k = append(k, leaf("iface", g.name()))
			}
		}
		k = append(k, g.cdirs()...)
		if g.R.Intn(4) != 0 {
			k = append(k, g.fields()...)
		}
	case "SCALAR":
		k = append(k, g.cdirs()...)
	case "UNION":
		k = append(k, g.cdirs()...)
		if g.R.Intn(4) != 0 {
			for i := 1 + g.R.Intn(3); i > 0; i-- {
				k = append(k, leaf("member", g.name()))
			}
		}
	case "ENUM":
		k = append(k, g.cdirs()...)
		if g.R.Intn(4) != 0 {
			for i := 1 + g.R.Intn(3); i > 0; i-- {
				e := GT{T: "enumval"}
				e.K = append(e.K, g.desc()...)
				e.K = append(e.K, leaf("name", g.enumName()))
				e.K = append(e.K, g.cdirs()...)
				k = append(k, e)
			}
		}
	case "INPUT_OBJECT":
		k = append(k, g.cdirs()...)
		if g.R.Intn(4) != 0 {
			k = append(k, g.argdefs(1)...)
		}
	}
	if ext && len(k) == 0 {
		// an extension must add something
		k = append(k, GT{T: "dir", K: []GT{leaf("name", g.name())}})
	}
	return k
}

func (g *SGen) Doc() []GT {
	var out []GT
	kinds := []string{"SCALAR", "OBJECT", "INTERFACE", "UNION", "ENUM", "INPUT_OBJECT"}
	for i := 1 + g.R.Intn(4); i > 0; i-- {
		switch k := g.R.Intn(12); {
		case k == 0:
			n := GT{T: "schema"}
			n.K = append(n.K, g.desc()...)
			n.K = append(n.K, g.cdirs()...)
			for j := 1 + g.R.Intn(3); j > 0; j-- {
				n.K = append(n.K, GT{T: "optype", K: []GT{leaf("op", []string{"query", "mutation", "subscription"}[g.R.Intn(3)]), leaf("type", g.name())}})
			}
			out = append(out, n)
		case k == 1:
			n := GT{T: "extschema"}
			n.K = append(n.K, g.cdirs()...)
			if len(n.K) == 0 || g.R.Intn(2) == 0 {
				n.K = append(n.K, GT{T: "optype", K: []GT{leaf("op", []string{"query", "mutation", "subscription"}[g.R.Intn(3)]), leaf("type", g.name())}})
			}
			out = append(out, n)
		case k == 2:
			n := GT{T: "dirdef"}
			n.K = append(n.K, g.desc()...)
			n.K = append(n.K, leaf("name", g.name()))
			if g.R.Intn(2) == 0 {
				n.K = append(n.K, g.argdefs(1)...)
			}
			if g.R.Intn(3) == 0 {
				n.K = append(n.K, leaf("repeatable", "repeatable"))
			}
			for j := 1 + g.R.Intn(3); j > 0; j-- {
				n.K = append(n.K, leaf("loc", dirLocations[g.R.Intn(len(dirLocations))]))
			}
			out = append(out, n)
		case k < 9:
			kind := kinds[g.R.Intn(len(kinds))]
			n := GT{T: "def"}
			n.K = append(n.K, g.desc()...)
			n.K = append(n.K, leaf("kind", kind), leaf("name", g.name()))
			n.K = append(n.K, g.typeBody(kind, false)...)
			out = append(out, n)
		default:
			kind := kinds[g.R.Intn(len(kinds))]
			n := GT{T: "ext"}
			n.K = append(n.K, leaf("kind", kind), leaf("name", g.name()))
			n.K = append(n.K, g.typeBody(kind, true)...)
			out = append(out, n)
		}
	}
	return out
}

var kindKeyword = map[string]string{"SCALAR": "scalar", "OBJECT": "type", "INTERFACE": "interface", "UNION": "union", "ENUM": "enum", "INPUT_OBJECT": "input"}

func (u *unparser) descOf(ks []GT) []GT {
	if len(ks) > 0 && ks[0].T == "desc" {
		v := ks[0].V
		if blockable(v) && u.r != nil && u.r.Intn(2) == 0 {
			u.toks = append(u.toks, RTok{Text: `"""` + v + `"""`, Value: v})
		} else {
			u.toks = append(u.toks, RTok{Text: quoteGraphQL(v, u.r), Value: v})
		}
		return ks[1:]
	}
	return ks
}

func (u *unparser) argdefList(ks []GT, open, close string) {
	first := true
	for _, k := range ks {
		if k.T != "argdef" {
			continue
		}
		if first {
			u.p(open)
			first = false
		}
		rest := u.descOf(k.K)
		u.p(rest[0].V)
		u.p(":")
		u.typ(rest[1])
		for _, x := range rest[2:] {
			if x.T == "default" {
				u.p("=")
				u.value(x.K[0])
			}
		}
		u.dirs(rest[2:])
	}
	if !first {
		u.p(close)
	}
}

func (u *unparser) typeBody(kind string, ks []GT) {
	first := true
	for _, k := range ks {
		if k.T == "iface" {
			if first {
				u.p("implements")
				if u.r != nil && u.r.Intn(4) == 0 {
					u.p("&")
				}
				first = false
			} else {
				u.p("&")
			}
			u.p(k.V)
		}
	}
	u.dirs(ks)
	switch kind {
	case "OBJECT", "INTERFACE":
		first = true
		for _, k := range ks {
			if k.T != "fielddef" {
				continue
			}
			if first {
				u.p("{")
				first = false
			}
			rest := u.descOf(k.K)
			u.p(rest[0].V)
			u.argdefList(rest[1:], "(", ")")
			u.p(":")
			for _, x := range rest[1:] {
				if x.T == "named" || x.T == "list" {
					u.typ(x)
				}
			}
			u.dirs(rest[1:])
		}
		if !first {
			u.p("}")
		}
	case "UNION":
		first = true
		for _, k := range ks {
			if k.T != "member" {
				continue
			}
			if first {
				u.p("=")
				if u.r != nil && u.r.Intn(4) == 0 {
					u.p("|")
				}
				first = false
			} else {
				u.p("|")
			}
			u.p(k.V)
		}
	case "ENUM":
		first = true
		for _, k := range ks {
			if k.T != "enumval" {
				continue
			}
			if first {
				u.p("{")
				first = false
			}
			rest := u.descOf(k.K)
			u.p(rest[0].V)
			u.dirs(rest[1:])
		}
		if !first {
			u.p("}")
		}
	case "INPUT_OBJECT":
		u.argdefList(ks, "{", "}")
	}
}

func (u *unparser) optypes(ks []GT) {
	first := true
	for _, k := range ks {
		if k.T != "optype" {
			continue
		}
		if first {
			u.p("{")
			first = false
		}
		u.p(k.K[0].V)
		u.p(":")
		u.p(k.K[1].V)
	}
	if !first {
		u.p("}")
	}
}

// UnparseSchema renders a generic type-system document as a token sequence.
func UnparseSchema(doc []GT, r *rand.Rand) []RTok {
	u := &unparser{r: r}
	for _, d := range doc {
		switch d.T {
		case "schema":
			rest := u.descOf(d.K)
			u.p("schema")
			u.dirs(rest)
			u.optypes(rest)
		case "extschema":
			u.p("extend")
			u.p("schema")
			u.dirs(d.K)
			u.optypes(d.K)
		case "dirdef":
			rest := u.descOf(d.K)
			u.p("directive")
			u.p("@")
			u.p(rest[0].V)
			u.argdefList(rest[1:], "(", ")")
			for _, k := range rest[1:] {
				if k.T == "repeatable" {
					u.p("repeatable")
				}
			}
			u.p("on")
			first := true
			for _, k := range rest[1:] {
				if k.T == "loc" {
					if !first {
						u.p("|")
					} else if u.r != nil && u.r.Intn(4) == 0 {
						u.p("|")
					}
					first = false
					u.p(k.V)
				}
			}
		case "def", "ext":
			rest := d.K
			if d.T == "def" {
				rest = u.descOf(rest)
			} else {
				u.p("extend")
			}
			kind := rest[0].V
			u.p(kindKeyword[kind])
			u.p(rest[1].V)
			u.typeBody(kind, rest[2:])
		}
	}
	return u.toks
}
