package checks

import (
	"encoding/json"
	"errors"
	"fmt"
	"math/rand"
	"os"
	"reflect"
	"strings"

	"github.com/vektah/gqlparser/v2"
	"github.com/vektah/gqlparser/v2/ast"
	"github.com/vektah/gqlparser/v2/gqlerror"
	"github.com/vektah/gqlparser/v2/parser"
	"github.com/vektah/gqlparser/v2/validator"

	"verif/harness/core"
)

// ---- positions beyond tokens (second half of C04): Positions_Trace ----

type posRec struct {
	Src int `json:"src"`
	S   int `json:"s"`
	L   int `json:"l"`
	C   int `json:"c"`
}

type locRec struct {
	Src int `json:"src"`
	L   int `json:"l"`
	C   int `json:"c"`
}

type posSrc struct {
	Name string `json:"name"`
	Text []int  `json:"text"`
}

type posCase struct {
	ID     int      `json:"id"`
	Srcs   []posSrc `json:"srcs"`
	Pos    []posRec `json:"pos"`
	Locs   []locRec `json:"locs"`
	Syntax bool     `json:"syntax"`
}

var (
	posType = reflect.TypeOf((*ast.Position)(nil))
	srcType = reflect.TypeOf((*ast.Source)(nil))
)

// collectPositions walks everything reachable from root and records every
// non-nil *ast.Position once (by pointer).
func collectPositions(root any, srcIndex func(*ast.Source) int) []posRec {
	out := []posRec{}
	seen := map[uintptr]bool{}
	var walk func(v reflect.Value)
	walk = func(v reflect.Value) {
		switch v.Kind() {
		case reflect.Ptr:
			if v.IsNil() {
				return
			}
			if v.Type() == srcType {
				return
			}
			if seen[v.Pointer()] {
				return
			}
			seen[v.Pointer()] = true
			if v.Type() == posType {
				p := v.Interface().(*ast.Position)
				out = append(out, posRec{Src: srcIndex(p.Src), S: p.Start, L: p.Line, C: p.Column})
				return
			}
			walk(v.Elem())
		case reflect.Interface:
			if !v.IsNil() {
				walk(v.Elem())
			}
		case reflect.Struct:
			for i := 0; i < v.NumField(); i++ {
				if v.Type().Field(i).IsExported() {
					walk(v.Field(i))
				}
			}
		case reflect.Slice, reflect.Array:
			for i := 0; i < v.Len(); i++ {
				walk(v.Index(i))
			}
		case reflect.Map:
			it := v.MapRange()
			for it.Next() {
				walk(it.Value())
			}
		}
	}
	walk(reflect.ValueOf(root))
	return out
}

func srcIndexer(srcs []*ast.Source) func(*ast.Source) int {
	return func(s *ast.Source) int {
		if s == nil {
			return 0
		}
		for i, x := range srcs {
			if x == s {
				return i + 1
			}
		}
		for i, x := range srcs {
			if x.Name == s.Name && x.Input == s.Input {
				return i + 1
			}
		}
		return 0
	}
}

func posSrcs(srcs []*ast.Source) []posSrc {
	out := []posSrc{}
	for _, s := range srcs {
		out = append(out, posSrc{Name: s.Name, Text: cps(s.Input)})
	}
	return out
}

// errLocs: every location of every error, with the index of the file the error names.
func errLocs(err error, srcs []*ast.Source) []locRec {
	out := []locRec{}
	if err == nil {
		return out
	}
	var list gqlerror.List
	var one *gqlerror.Error
	switch {
	case errors.As(err, &list):
	case errors.As(err, &one):
		list = gqlerror.List{one}
	default:
		return out
	}
	for _, e := range list {
		if e == nil {
			continue
		}
		file, _ := e.Extensions["file"].(string)
		idx := 0
		for i, s := range srcs {
			if s.Name == file && file != "" {
				idx = i + 1
				break
			}
		}
		for _, l := range e.Locations {
			out = append(out, locRec{Src: idx, L: l.Line, C: l.Column})
		}
	}
	return out
}

// nastyLayout re-lays a text whose only raw line feeds separate tokens or sit
// inside block strings: other terminators, multi-byte comments, tabs, a BOM.
func nastyLayout(text string, r *rand.Rand) string {
	var b strings.Builder
	if r.Intn(3) == 0 {
		b.WriteString("\ufeff")
	}
	seps := []string{"\n", "\n", "\r\n", "\r", "\n\n", " # é日本\U0001F600 ü\n", "\t\r\n", " #\r", "\r\r\n", "\n\ufeff"}
	for _, c := range text {
		if c == '\n' {
			b.WriteString(seps[r.Intn(len(seps))])
		} else {
			b.WriteRune(c)
		}
	}
	return b.String()
}

func positionsCheck(c *core.Ctx, devs []string) {
	nq, ns, nl, nv := 300, 200, 96, 10
	if c.Thorough() {
		nq, ns, nl, nv = 4000, 2500, 1200, 60
	}
	rng := rand.New(rand.NewSource(c.Seed*104729 + 41))
	var lines [][]byte
	var events []int64
	descs := map[int]string{}
	full := map[int]any{}
	id := 0
	var nontrivial, nerrs int64
	add := func(kind string, srcs []*ast.Source, pos []posRec, locs []locRec, syntax bool) {
		id++
		pc := posCase{ID: id, Srcs: posSrcs(srcs), Pos: pos, Locs: locs, Syntax: syntax}
		b, _ := json.Marshal(pc)
		lines = append(lines, b)
		events = append(events, int64(len(pos)+len(locs)))
		var names []string
		for _, s := range srcs {
			if s.Name != validator.Prelude.Name {
				names = append(names, fmt.Sprintf("%s=%q", s.Name, clip(s.Input, 300)))
			}
		}
		descs[id] = fmt.Sprintf("%s: %s", kind, strings.Join(names, " | "))
		full[id] = map[string]any{"kind": kind, "sources": sourcesJSON(srcs), "positions": pos, "locations": locs}
		multi := false
		for _, s := range srcs {
			if s.Name != validator.Prelude.Name && strings.ContainsAny(s.Input, "\r\n") {
				multi = true
			}
		}
		if multi && len(pos)+len(locs) > 0 {
			nontrivial++
		}
		if len(locs) > 0 {
			nerrs++
		}
	}
	// (A) executable documents, and the syntax errors of their token mutations
	qg := &QGen{R: rng, MaxDepth: 3, Unicode: true}
	for i := 0; i < nq; i++ {
		toks := UnparseQuery(qg.Doc(), rng)
		if i%3 == 2 {
			toks, _ = MutateTokens(toks, rng, []string{"{", "}", "(", ")", "$", "@", "...", "on", "\"x", "\"\"\"y", "0x", "?", "1.", "fragment", ":", "!"})
		}
		src := &ast.Source{Name: "q.graphql", Input: RenderIgnored(toks, rng)}
		doc, err := parser.ParseQuery(src)
		if err != nil {
			add("syntax error of an executable document", []*ast.Source{src}, []posRec{}, errLocs(err, []*ast.Source{src}), true)
			continue
		}
		add("parsed executable document", []*ast.Source{src}, collectPositions(doc, srcIndexer([]*ast.Source{src})), []locRec{}, true)
		if id == 1 {
			c.Sample(map[string]any{"source": "Positions_Trace", "input": src.Input, "positions": len(collectPositions(doc, srcIndexer([]*ast.Source{src})))})
		}
	}
	// (B) type-system documents
	sg := &SGen{R: rng, Nasty: true, Q: &QGen{R: rng, MaxDepth: 2, Unicode: true}}
	for i := 0; i < ns; i++ {
		toks := UnparseSchema(sg.Doc(), rng)
		if i%3 == 2 {
			toks, _ = MutateTokens(toks, rng, []string{"{", "}", "(", ")", "=", "@", "|", "&", "type", "\"x", "\"\"\"y", "extend", "?", ":", "!", "on"})
		}
		src := &ast.Source{Name: "s.graphql", Input: RenderIgnored(toks, rng)}
		doc, err := parser.ParseSchema(src)
		if err != nil {
			add("syntax error of a type-system document", []*ast.Source{src}, []posRec{}, errLocs(err, []*ast.Source{src}), true)
			continue
		}
		add("parsed type-system document", []*ast.Source{src}, collectPositions(doc, srcIndexer([]*ast.Source{src})), []locRec{}, true)
	}
	// (C) loaded schemas over several files (valid and with one injected violation)
	tg := &TGen{R: rng}
	var loadable []string
	for i := 0; i < nl; i++ {
		gs := tg.Gen()
		if i%2 == 1 {
			nastifyDescs(gs.doc, rng)
		}
		faulty := i%3 == 2
		if faulty {
			if tg.InjectFault(gs) == nil {
				faulty = false
			}
		}
		v := permuteItems(gs.doc.Items(), rng, nil)
		for _, s := range v.Sources {
			s.Input = nastyLayout(s.Input, rng)
		}
		all := append([]*ast.Source{validator.Prelude}, v.Sources...)
		schema, err := gqlparser.LoadSchema(v.Sources...)
		if err != nil {
			locs := errLocs(err, all)
			if len(locs) > 0 && locs[0].Src != 1 {
				// the error is not in the prelude: spare TLC its tokenisation (a dummy keeps the indices)
				all = append([]*ast.Source{{Name: validator.Prelude.Name, Input: ""}}, v.Sources...)
			}
			add("schema error", all, []posRec{}, locs, false)
			continue
		}
		pos := collectPositions(schema, srcIndexer(all))
		if i%8 != 0 || os.Getenv("VERIF_NOPRELUDE") != "" {
			// the positions inside the built-in prelude are the same in every load: checked in one load of eight
			var keep []posRec
			for _, p := range pos {
				if p.Src != 1 {
					keep = append(keep, p)
				}
			}
			pos = keep
			all = append([]*ast.Source{{Name: validator.Prelude.Name, Input: ""}}, v.Sources...)
		}
		add("loaded schema", all, pos, []locRec{}, false)
		if !faulty && len(loadable) < nv {
			loadable = append(loadable, gs.doc.SDL())
		}
	}
	// faults whose two halves stand in DIFFERENT files (a definition here, the clashing extension there): every
	// location of the error lies in the file the error names. One file per item, in both orders, each file laid
	// out differently so that a position of one file is no token start of the other.
	for _, its := range crossFileFaults {
		for _, rev := range []bool{false, true} {
			var srcs []*ast.Source
			for k := range its {
				j := k
				if rev {
					j = len(its) - 1 - k
				}
				pad := strings.Repeat("\n", 2*j) + strings.Repeat(" ", 3*j+1)
				srcs = append(srcs, &ast.Source{Name: fmt.Sprintf("x%d.graphql", j), Input: "# file " + fmt.Sprint(j) + "\n" + pad + strings.ReplaceAll(its[j], " { ", " {\n"+pad+"  ")})
			}
			all := append([]*ast.Source{{Name: validator.Prelude.Name, Input: ""}}, srcs...)
			_, err := gqlparser.LoadSchema(srcs...)
			if err != nil {
				if locs := errLocs(err, all); len(locs) > 0 && locs[0].Src != 1 {
					add("schema error across files", all, []posRec{}, locs, false)
				}
			}
		}
	}
	// (D) validation errors
	for _, sdl := range loadable {
		ssrc := &ast.Source{Name: "schema.graphql", Input: sdl}
		schema, err := gqlparser.LoadSchema(ssrc)
		if err != nil {
			continue
		}
		dg := &DGen{R: rng, S: schema}
		for k := 0; k < 12; k++ {
			doc := dg.Doc()
			for f := 0; f < 1+rng.Intn(3); f++ {
				InjectDocFault(dg, &doc, rng)
			}
			qsrc := &ast.Source{Name: "q.graphql", Input: RenderIgnored(UnparseQuery(doc, rng), rng)}
			qd, perr := parser.ParseQuery(qsrc)
			if perr != nil {
				continue
			}
			var errs gqlerror.List
			func() {
				defer func() { recover() }()
				errs = validator.Validate(schema, qd)
			}()
			if len(errs) == 0 {
				continue
			}
			all := []*ast.Source{qsrc, ssrc}
			add("validation errors", all, []posRec{}, errLocs(errs, all), false)
		}
	}
	cfg := "SPECIFICATION Spec\nCONSTANTS\n  Devs = " + core.DevSetTLA(devs) + "\nCHECK_DEADLOCK FALSE\n"
	bad, ok := RunTrace(c, TraceJob{Module: "Positions_Trace", CfgText: cfg, Lines: lines, Events: events, Shards: 14, Stack: "512m", Heap: "3g"})
	if !ok {
		return
	}
	c.Count(int64(len(lines)), nontrivial, int64(len(lines)))
	c.AddExtraInt("position_cases", int64(len(lines)))
	c.AddExtraInt("position_cases_with_error_locations", nerrs)
	var total int64
	for _, e := range events {
		total += e
	}
	c.AddExtraInt("node_positions_and_error_locations_checked", total)
	c.Logf("Positions_Trace: %d cases (%d with error locations), %d positions / locations, %d disagreements", len(lines), nerrs, total, len(bad))
	for _, raw := range bad {
		var b struct {
			ID    int    `json:"id"`
			Class string `json:"class"`
			At    posRec `json:"at"`
		}
		json.Unmarshal(raw, &b)
		c.Violation(fmt.Sprintf("%s (source #%d offset %d line %d column %d): %s", b.Class, b.At.Src, b.At.S, b.At.L, b.At.C, descs[b.ID]), map[string]any{"what": b.Class, "at": b.At, "case": full[b.ID]})
	}
}

// crossFileFaults: lists of items (one file each) that together violate one rule
var crossFileFaults = [][]string{
	{"type User { name: String id: ID }", "extend type User { name: String }", "type Query { u: User }"},
	{"extend type User { a: Int }", "extend type User { b: Int a: Int }", "type User { id: ID }", "type Query { u: User }"},
	{"type A { x: Int }", "type A { y: Int }", "type Query { a: A }"},
	{"directive @d on FIELD", "directive @d on OBJECT", "type Query { a: Int }"},
	{"interface I { x: Int }", "type T implements I { y: Int }", "type Query { t: T }"},
	{"enum E { A B }", "extend enum E { C A }", "type Query { e: E }"},
	{"union U = A", "extend union U = A", "type A { x: Int }", "type Query { u: U }"},
	{"input In { a: Int }", "extend input In { b: Int a: Int }", "type Query { f(i: In): Int }"},
	{"interface I { x(a: Int): Int }", "type T implements I { x(a: String): Int }", "type Query { t: T }"},
	{"type T { f(a: Int, b: Int): Int }", "extend type T { g(a: Int, a: Int): Int }", "type Query { t: T }"},
	{"scalar S", "extend type S { x: Int }", "type Query { s: S }"},
	{"type Query { a: Missing }", "extend type Query { b: Gone }"},
	{"directive @d(x: Int!) on OBJECT", "type T @d { x: Int }", "extend type T @e", "type Query { t: T }"},
}
