package checks

import (
	"bytes"
	"encoding/json"
	"fmt"
	"math/rand"
	"sort"
	"strings"

	"github.com/vektah/gqlparser/v2"
	"github.com/vektah/gqlparser/v2/ast"
	"github.com/vektah/gqlparser/v2/formatter"
	"github.com/vektah/gqlparser/v2/parser"

	"verif/harness/core"
)

func init() {
	Registry["C13"] = checkC13
}

var schemaFmtOpts = func() []fmtOpts {
	var out []fmtOpts
	for _, ind := range []string{"\t", "", "  "} {
		for _, cm := range []bool{false, true} {
			for _, nd := range []bool{false, true} {
				out = append(out, fmtOpts{Indent: ind, Comments: cm, NoDesc: nd})
			}
		}
	}
	return out
}()

func formatSchemaDoc(doc *ast.SchemaDocument, o fmtOpts) (text, crash string) {
	defer guard("formatter.FormatSchemaDocument", o.String())()
	defer func() {
		if r := recover(); r != nil {
			crash = fmt.Sprintf("panic: %v", r)
		}
	}()
	var buf bytes.Buffer
	formatter.NewFormatter(&buf, o.options()...).FormatSchemaDocument(doc)
	return buf.String(), ""
}

func formatSchema(s *ast.Schema, o fmtOpts) (text, crash string) {
	defer guard("formatter.FormatSchema", o.String())()
	defer func() {
		if r := recover(); r != nil {
			crash = fmt.Sprintf("panic: %v", r)
		}
	}()
	var buf bytes.Buffer
	formatter.NewFormatter(&buf, o.options()...).FormatSchema(s)
	return buf.String(), ""
}

func dropDescs(ns []GT) []GT {
	var out []GT
	for _, n := range ns {
		if n.T == "desc" {
			continue
		}
		n.K = dropDescs(n.K)
		out = append(out, n)
	}
	return out
}

// canonical projection of a loaded schema: what the statement says must survive
type cDir struct {
	Name string   `json:"name"`
	Args []string `json:"args"`
}
type cArg struct {
	Name string `json:"name"`
	Desc []int  `json:"desc"`
	Type string `json:"type"`
	Def  string `json:"def"`
	Dirs []cDir `json:"dirs"`
}
type cField struct {
	Name string `json:"name"`
	Desc []int  `json:"desc"`
	Type string `json:"type"`
	Args []cArg `json:"args"`
	Def  string `json:"def"`
	Dirs []cDir `json:"dirs"`
}
type cEnumVal struct {
	Name string `json:"name"`
	Desc []int  `json:"desc"`
	Dirs []cDir `json:"dirs"`
}
type cType struct {
	Kind    string     `json:"kind"`
	Name    string     `json:"name"`
	Desc    []int      `json:"desc"`
	Ifaces  []string   `json:"ifaces"`
	Fields  []cField   `json:"fields"`
	Members []string   `json:"members"`
	Values  []cEnumVal `json:"values"`
	Dirs    []cDir     `json:"dirs"`
}
type cDirDef struct {
	Name string   `json:"name"`
	Desc []int    `json:"desc"`
	Args []cArg   `json:"args"`
	Locs []string `json:"locs"`
	Rep  bool     `json:"rep"`
}
type cSchema struct {
	Types   []cType   `json:"types"`
	DirDefs []cDirDef `json:"dirdefs"`
	Q       string    `json:"q"`
	M       string    `json:"m"`
	S       string    `json:"s"`
	Desc    []int     `json:"desc"`
	Dirs    []cDir    `json:"dirs"`
}

func cDirs(ds ast.DirectiveList) []cDir {
	out := []cDir{}
	for _, d := range ds {
		x := cDir{Name: d.Name, Args: []string{}}
		for _, a := range d.Arguments {
			x.Args = append(x.Args, a.Name+":"+a.Value.String())
		}
		out = append(out, x)
	}
	return out
}

func valStr(v *ast.Value) string {
	if v == nil {
		return ""
	}
	return "=" + v.String()
}

func cArgs(as ast.ArgumentDefinitionList, desc bool) []cArg {
	out := []cArg{}
	for _, a := range as {
		x := cArg{Name: a.Name, Desc: []int{}, Type: a.Type.String(), Def: valStr(a.DefaultValue), Dirs: cDirs(a.Directives)}
		if desc {
			x.Desc = cps(a.Description)
		}
		out = append(out, x)
	}
	return out
}

func projectCanonical(s *ast.Schema, desc bool) cSchema {
	d := func(x string) []int {
		if desc {
			return cps(x)
		}
		return []int{}
	}
	var c cSchema
	c.Desc = d(s.Description)
	c.Dirs = cDirs(s.SchemaDirectives)
	root := func(x *ast.Definition) string {
		if x == nil {
			return ""
		}
		return x.Name
	}
	c.Q, c.M, c.S = root(s.Query), root(s.Mutation), root(s.Subscription)
	names := make([]string, 0, len(s.Types))
	for n, t := range s.Types {
		if !t.BuiltIn {
			names = append(names, n)
		}
	}
	sort.Strings(names)
	c.Types = []cType{}
	for _, n := range names {
		t := s.Types[n]
		x := cType{Kind: string(t.Kind), Name: t.Name, Desc: d(t.Description), Ifaces: append([]string{}, t.Interfaces...), Fields: []cField{}, Members: append([]string{}, t.Types...), Values: []cEnumVal{}, Dirs: cDirs(t.Directives)}
		for _, f := range t.Fields {
			if strings.HasPrefix(f.Name, "__") {
				continue // the introspection fields the loader adds to the query root
			}
			x.Fields = append(x.Fields, cField{Name: f.Name, Desc: d(f.Description), Type: f.Type.String(), Args: cArgs(f.Arguments, desc), Def: valStr(f.DefaultValue), Dirs: cDirs(f.Directives)})
		}
		for _, v := range t.EnumValues {
			x.Values = append(x.Values, cEnumVal{Name: v.Name, Desc: d(v.Description), Dirs: cDirs(v.Directives)})
		}
		c.Types = append(c.Types, x)
	}
	dn := make([]string, 0, len(s.Directives))
	for n, dd := range s.Directives {
		if dd.Position != nil && dd.Position.Src != nil && dd.Position.Src.BuiltIn {
			continue
		}
		dn = append(dn, n)
	}
	sort.Strings(dn)
	c.DirDefs = []cDirDef{}
	for _, n := range dn {
		dd := s.Directives[n]
		x := cDirDef{Name: dd.Name, Desc: d(dd.Description), Args: cArgs(dd.Arguments, desc), Locs: []string{}, Rep: dd.IsRepeatable}
		for _, l := range dd.Locations {
			x.Locs = append(x.Locs, string(l))
		}
		c.DirDefs = append(c.DirDefs, x)
	}
	return c
}

// mergeSchemaItems: the formatter prints all schema definitions as one item
// and all schema extensions as one (see Printer.tla MergeSchemaItems).
func mergeSchemaItems(ns []GT) []GT {
	merge := func(tag string) []GT {
		var its []GT
		for _, n := range ns {
			if n.T == tag {
				its = append(its, n)
			}
		}
		if len(its) <= 1 {
			return its
		}
		desc := ""
		var dirs, ops []GT
		for _, it := range its {
			for _, k := range it.K {
				switch k.T {
				case "desc":
					desc += k.V
				case "dir":
					dirs = append(dirs, k)
				case "optype":
					ops = append(ops, k)
				}
			}
		}
		m := GT{T: tag}
		if desc != "" {
			m.K = append(m.K, leaf("desc", desc))
		}
		m.K = append(m.K, dirs...)
		m.K = append(m.K, ops...)
		return []GT{m}
	}
	out := append(merge("schema"), merge("extschema")...)
	for _, n := range ns {
		if n.T != "schema" && n.T != "extschema" {
			out = append(out, n)
		}
	}
	return out
}

func describedInner(as ast.ArgumentDefinitionList) bool {
	for i, a := range as {
		if i != len(as)-1 && a.Description != "" {
			return true
		}
	}
	return false
}

func describedInnerDefs(defs ast.DefinitionList) bool {
	for _, d := range defs {
		for _, f := range d.Fields {
			if describedInner(f.Arguments) {
				return true
			}
		}
	}
	return false
}

// describedInnerArg: some argument definition other than the last of its list
// has a description (the shape of known finding ArgSeparatorWithoutDescription)
func describedInnerArg(d *ast.SchemaDocument) bool {
	for _, dd := range d.Directives {
		if describedInner(dd.Arguments) {
			return true
		}
	}
	return describedInnerDefs(d.Definitions) || describedInnerDefs(d.Extensions)
}

func describedInnerArgSchema(s *ast.Schema) bool {
	for _, dd := range s.Directives {
		if describedInner(dd.Arguments) {
			return true
		}
	}
	for _, t := range s.Types {
		for _, f := range t.Fields {
			if describedInner(f.Arguments) {
				return true
			}
		}
	}
	return false
}

// c13WitnessFails: does the recorded witness of a known finding still fail?
func c13WitnessFails(sdl, mode string, o fmtOpts) bool {
	if mode == "doc" {
		d0, err := parser.ParseSchema(&ast.Source{Input: sdl, Name: "w"})
		if err != nil {
			return false
		}
		t1, crash := formatSchemaDoc(d0, o)
		if crash != "" {
			return true
		}
		d1, err := parser.ParseSchema(&ast.Source{Input: t1, Name: "w1"})
		if err != nil {
			return true
		}
		a, b := mergeSchemaItems(schemaNorm(ProjectSchemaDoc(d0))), mergeSchemaItems(schemaNorm(ProjectSchemaDoc(d1)))
		if o.NoDesc {
			a, b = dropDescs(a), dropDescs(b)
		}
		t2, _ := formatSchemaDoc(d1, o)
		return fmt.Sprint(a) != fmt.Sprint(b) || t2 != t1
	}
	s, err := gqlparser.LoadSchema(&ast.Source{Name: "w.graphql", Input: sdl})
	if err != nil {
		return false
	}
	t1, crash := formatSchema(s, o)
	if crash != "" {
		return true
	}
	s1, err := gqlparser.LoadSchema(&ast.Source{Name: "w1.graphql", Input: t1})
	if err != nil {
		return true
	}
	t2, _ := formatSchema(s1, o)
	return fmt.Sprint(projectCanonical(s, !o.NoDesc)) != fmt.Sprint(projectCanonical(s1, !o.NoDesc)) || t2 != t1
}

// nastifyDescs puts descriptions a block string cannot hold as it stands
// (and some it can) on every kind of described element.
func nastifyDescs(d *ASDoc, r *rand.Rand) {
	pick := func(cur string, p int) string {
		if r.Intn(p) == 0 {
			return nastyDescs[r.Intn(len(nastyDescs))]
		}
		return cur
	}
	args := func(as []AArgDef) {
		for i := range as {
			as[i].Desc = pick(as[i].Desc, 4)
		}
	}
	for i := range d.Defs {
		t := &d.Defs[i]
		if !t.Ext {
			t.Desc = pick(t.Desc, 3)
		}
		for j := range t.Fields {
			t.Fields[j].Desc = pick(t.Fields[j].Desc, 4)
			args(t.Fields[j].Args)
		}
		for j := range t.Values {
			t.Values[j].Desc = pick(t.Values[j].Desc, 3)
		}
	}
	for i := range d.DirDefs {
		if !d.DirDefs[i].Builtin {
			d.DirDefs[i].Desc = pick(d.DirDefs[i].Desc, 3)
			args(d.DirDefs[i].Args)
		}
	}
	for i := range d.Schemas {
		if !d.Schemas[i].Ext {
			d.Schemas[i].Desc = pick(d.Schemas[i].Desc, 3)
		}
	}
}

func locCps() [][]int {
	var out [][]int
	for _, l := range dirLocations {
		out = append(out, cps(l))
	}
	return out
}

var handFormatSchemas = []string{
	// no query root although a type named Query exists; roots in every subset
	`schema { mutation: Mutation } type Query { a: Int } type Mutation { m: Int }`,
	`schema { subscription: S } type S { s: Int } type Query { q: Int } type Mutation { m: Int }`,
	`schema { mutation: M subscription: Subscription } type M { m: Int } type Subscription { s: Int }`,
	`schema { query: Mutation mutation: Query } type Query { a: Int } type Mutation { m: Int }`,
	// the user's own definition of a directive the prelude also defines (the loader keeps and uses it)
	`directive @deprecated(reason: String = "gone", since: String) on FIELD_DEFINITION | ENUM_VALUE type Query { a: Int @deprecated(since: "v2") }`,
	`directive @include(if: Boolean!, unless: Boolean) on FIELD | FRAGMENT_SPREAD | INLINE_FRAGMENT type Query { a: Int }`,
	`"mine" directive @specifiedBy(url: String!, note: String) on SCALAR scalar Date @specifiedBy(url: "u", note: "n") type Query { d: Date }`,
	`schema { query: Query } type Query { a: Int } type Mutation { m: Int }`,
	`schema { query: Q mutation: Mutation } type Q { a: Int } type Mutation { m: Int }`,
	`schema { query: Q } type Q { a: Int } type Query { notroot: Int } type Subscription { s: Int }`,
	`"the schema" schema { query: Query } type Query { a: Int }`,
	`schema @d { query: Query } directive @d on SCHEMA type Query { a: Int }`,
	`extend schema @d directive @d on SCHEMA type Query { a: Int }`,
	`type Query { "  leading spaces" a: Int "trailing newline\n" b: Int "a \"\"\" b" c: Int "\n\nblank lines around\n\n" d: Int "    all\n    indented" e: Int "bell\u0007" f: Int "cr\rlf" g: Int "   " h: Int }`,
	`"""multi
  line
    indented""" type Query { a(
  "arg desc" x: Int = 1 @deprecated(reason: "r\"q")
  y: [String!]! = ["a", "b\\c"]): Int @deprecated }`,
	`directive @rep("d" a: Int = 1) repeatable on FIELD_DEFINITION | OBJECT type Query @rep @rep(a: 2) { a: Int @rep }`,
	`enum E { "first" A @deprecated B } input I { "f" a: E = A b: [I!] = [{a: B}] } type Query { f(i: I = {a: A}): E }`,
	`interface A { x: Int } interface B implements A { x: Int y: Int } type T implements B & A { x: Int y: Int } union U = T type Query { u: U }`,
	`scalar Date @specifiedBy(url: "https://example.com/\"date\"") type Query { d: Date }`,
}

func checkC13(c *core.Ctx) {
	c.Rule = "cases are (a) parsed type-system documents (grammar-directed generator: every definition kind, extensions, descriptions with quotes, triple quotes, backslashes, leading / trailing blank space and newlines, constant directives and default values) formatted under 12 option sets (3 indents x comments x without-description): Printer_Trace reads the formatted text with the specification's own lexer and type-system parser and requires the same document (descriptions dropped when switched off), the library's re-parse to agree and the second formatting to reproduce the text; (b) loaded schemas from the typed generator and hand-written corner cases (custom root names, types named like default roots that are not roots, schema description and directives, repeatable directives, described arguments) formatted with FormatSchema and loaded again: the canonical projection (types, fields, arguments, defaults, directives, roots, descriptions) must be equal and the text a fixpoint. Non-trivial = cases with a description or an explicit schema definition; distinct by (text, options)"
	c.Assumptions = []string{"canonical projection of loaded schemas (checks/c13.go) is trusted; default values and directive arguments are compared by their printed literal", "Printer.tla's SpecParseSchema = Lexer.tla + SchemaGrammar.tla + Tree.tla"}
	ldevs := LexerDevs(c)
	gdevs := grammarDevs(c, map[string]bool{"EmptySchemaDocument": true, "EnumValueKeyword": true}, parseSchemaReal)
	var pdevs []string
	if fs, err := core.LoadFindings(); err == nil {
		for _, f := range fs {
			if f.Property == "C13" && f.Status == "open" {
				var w struct {
					SDL    string `json:"sdl"`
					Mode   string `json:"mode"`
					NoDesc bool   `json:"nodesc"`
				}
				json.Unmarshal(f.Witness, &w)
				if c13WitnessFails(w.SDL, w.Mode, fmtOpts{Indent: "\t", NoDesc: w.NoDesc}) {
					pdevs = append(pdevs, f.Dev)
					c.Known(f.Dev, fmt.Sprintf("sdl=%q: %s", w.SDL, f.What))
				}
			}
		}
	}
	ndocs, nschemas := 50, 40
	if c.Thorough() {
		ndocs, nschemas = 3000, 2500
	}
	rng := rand.New(rand.NewSource(c.Seed*198491317 + 13))
	var lines [][]byte
	var events []int64
	descs := map[int]string{}
	full := map[int]map[string]any{}
	var nontrivial int64
	id := 0
	// (a) schema documents
	sg := &SGen{R: rng, Nasty: true, Q: &QGen{R: rng, MaxDepth: 2, Unicode: true}}
	trickySchemas := handTrickySchemas()
	for i := 0; i < ndocs+len(trickySchemas); i++ {
		var src string
		opts := schemaFmtOpts
		if i < len(trickySchemas) {
			src = trickySchemas[i]
			n := len(schemaFmtOpts)
			opts = []fmtOpts{schemaFmtOpts[i%n], schemaFmtOpts[(i+5)%n], schemaFmtOpts[(i+7)%n]}
		} else {
			src = RenderIgnored(UnparseSchema(sg.Doc(), rng), rng)
		}
		// every fourth document comes from a BUILT-IN source and is formatted WithBuiltin (without that option the
		// formatter leaves built-in definitions out by design, so only this configuration is a round trip for it)
		builtin := i%4 == 3
		d0, err := parser.ParseSchema(&ast.Source{Input: src, Name: "s", BuiltIn: builtin})
		if err != nil {
			if i < len(trickySchemas) {
				c.Internal("hand-written type-system document does not parse: %v: %q", err, clip(src, 300))
				return
			}
			continue
		}
		if builtin {
			withB := make([]fmtOpts, len(opts))
			for k, o := range opts {
				o.Builtin = true
				withB[k] = o
			}
			opts = withB
		}
		// what the parser produced, projected ONCE: every formatting of this document (under whatever options,
		// after whatever earlier formatting) must denote it
		tree0 := schemaNorm(ProjectSchemaDoc(d0))
		for _, o := range opts {
			tree := copyGTs(tree0)
			if o.NoDesc {
				tree = dropDescs(tree)
			}
			t1, crash := formatSchemaDoc(d0, o)
			if crash != "" {
				c.Violation(fmt.Sprintf("formatter crashed: %s on %q (%s)", crash, src, o), map[string]any{"text": src, "crash": crash})
				continue
			}
			tree = mergeSchemaItems(tree)
			rec := map[string]any{"kind": "schemadoc", "tree": toGTc(tree), "t1": cps(t1), "reparsed": false, "d1": []GTc{}, "t2": []int{}, "locs": locCps(), "argsep": o.NoDesc && describedInnerArg(d0)}
			if d1, err := parser.ParseSchema(&ast.Source{Input: t1, Name: "formatted"}); err == nil {
				rec["reparsed"] = true
				t1tree := schemaNorm(ProjectSchemaDoc(d1))
				if o.NoDesc {
					t1tree = dropDescs(t1tree)
				}
				rec["d1"] = toGTc(mergeSchemaItems(t1tree))
				t2, _ := formatSchemaDoc(d1, o)
				rec["t2"] = cps(t2)
			}
			id++
			rec["id"] = id
			b, _ := json.Marshal(rec)
			lines = append(lines, b)
			events = append(events, int64(len(cps(t1))))
			descs[id] = fmt.Sprintf("schema document %q formatted with %s as %q", clip(src, 400), o, clip(t1, 500))
			full[id] = map[string]any{"mode": "doc", "sdl": src, "options": o, "formatted": t1}
			if strings.Contains(t1, `"""`) || strings.Contains(t1, "schema") {
				nontrivial++
			}
			if id == 3 {
				c.Sample(map[string]any{"source": src, "options": o.String(), "formatted": t1})
			}
		}
	}
	// (b) loaded schemas
	tg := &TGen{R: rng}
	var sdls []string
	for i := 0; i < nschemas; i++ {
		d := tg.Gen().doc
		if i%2 == 1 {
			nastifyDescs(d, rng)
		}
		sdls = append(sdls, d.SDL())
	}
	sdls = append(sdls, handFormatSchemas...)
	sdls = append(sdls, trickySchemas...)
	for _, sdl := range sdls {
		s, err := gqlparser.LoadSchema(&ast.Source{Name: "schema.graphql", Input: sdl})
		if err != nil {
			continue
		}
		// the schema as loaded, projected before anything is formatted
		loaded := map[bool]cSchema{true: projectCanonical(s, true), false: projectCanonical(s, false)}
		for oi, o := range schemaFmtOpts {
			if oi%3 != 0 && !c.Thorough() {
				continue
			}
			t1, crash := formatSchema(s, o)
			if crash != "" {
				c.Violation(fmt.Sprintf("FormatSchema crashed: %s on schema %q (%s)", crash, clip(sdl, 300), o), map[string]any{"sdl": sdl, "crash": crash})
				continue
			}
			rec := map[string]any{"kind": "schema", "tree": []GTc{}, "t1": cps(t1), "reparsed": false, "d1": []GTc{}, "t2": []int{}, "locs": locCps(), "argsep": o.NoDesc && describedInnerArgSchema(s),
				"loaded": loaded[!o.NoDesc], "reloaded": cSchema{Types: []cType{}, DirDefs: []cDirDef{}, Desc: []int{}, Dirs: []cDir{}}}
			if s1, err := gqlparser.LoadSchema(&ast.Source{Name: "formatted.graphql", Input: t1}); err == nil {
				rec["reparsed"] = true
				rec["reloaded"] = projectCanonical(s1, !o.NoDesc)
				t2, _ := formatSchema(s1, o)
				rec["t2"] = cps(t2)
			}
			id++
			rec["id"] = id
			b, _ := json.Marshal(rec)
			lines = append(lines, b)
			events = append(events, int64(len(cps(t1))))
			descs[id] = fmt.Sprintf("loaded schema %q formatted with %s as %q", clip(sdl, 500), o, clip(t1, 600))
			full[id] = map[string]any{"mode": "schema", "sdl": sdl, "options": o, "formatted": t1}
			if strings.Contains(t1, `"""`) || strings.Contains(sdl, "schema") {
				nontrivial++
			}
		}
	}
	cfg := "SPECIFICATION Spec\nCONSTANTS\n  LexDevs = " + core.DevSetTLA(ldevs) + "\n  GrammarDevs = " + core.DevSetTLA(gdevs) + "\n  PrinterDevs = " + core.DevSetTLA(pdevs) + "\nCHECK_DEADLOCK FALSE\n"
	bad, ok := RunTrace(c, TraceJob{Module: "Printer_Trace", CfgText: cfg, Lines: lines, Events: events, Shards: 14, Stack: "512m", Heap: "3g"})
	if !ok {
		return
	}
	c.Count(int64(len(lines)), nontrivial, int64(len(lines)))
	c.Logf("Printer_Trace: %d (schema, options) round trips validated, %d disagreements", len(lines), len(bad))
	for _, raw := range bad {
		var b struct {
			ID    int    `json:"id"`
			Class string `json:"class"`
		}
		json.Unmarshal(raw, &b)
		c.Violation(fmt.Sprintf("%s: %s", b.Class, descs[b.ID]), map[string]any{"what": b.Class, "case": full[b.ID]})
	}
}

// handTrickySchemas: every tricky string value in every spelling, as the
// description of a type, of a field, of an argument and of an enum value, and
// as a default value and a directive argument.
func handTrickySchemas() []string {
	var out []string
	for _, v := range trickyStrings {
		for _, sp := range stringSpellings(v) {
			out = append(out, sp+"\ntype Query {\n  "+sp+"\n  f(\n    "+sp+"\n    a: String = "+sp+"): E @deprecated(reason: "+sp+")\n}\nenum E {\n  "+sp+"\n  A\n}")
		}
	}
	// several schema definitions / extensions in one document (the formatter writes them as one), formatted under
	// several option sets in a row
	out = append(out, "schema @a { query: Q } extend schema @b extend schema @c(x: 1) { mutation: M } extend schema { subscription: S } type Q { a: Int } type M { a: Int } type S { a: Int }",
		"extend schema @b\nextend schema @c(x: 1) @c(x: 2) { mutation: M }\n\"d\" schema { query: Q }",
		"\"one\" schema { query: Q } \"two\" schema @x { mutation: M }")
	return out
}

func copyGTs(a []GT) []GT {
	if a == nil {
		return nil
	}
	out := make([]GT, len(a))
	for i, n := range a {
		out[i] = GT{T: n.T, V: n.V, K: copyGTs(n.K)}
	}
	return out
}
