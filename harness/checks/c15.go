package checks

import (
	"encoding/json"
	"fmt"
	"github.com/vektah/gqlparser/v2/gqlerror"
	"github.com/vektah/gqlparser/v2/parser"
	"strconv"
	"strings"

	"github.com/vektah/gqlparser/v2"
	"github.com/vektah/gqlparser/v2/ast"
	"github.com/vektah/gqlparser/v2/validator"

	"verif/harness/core"
	"verif/harness/tlc"
)

func init() {
	Registry["C15"] = checkC15
}

const argSDL = `
enum E { RED GREEN }
scalar Any
input Obj { x: Int y: [Int] z: Obj }
directive @skip(if: Boolean!, d: Int = 7, e: E = RED) on FIELD | FRAGMENT_SPREAD | INLINE_FRAGMENT
directive @dir(i: Int, d: Int = 7, l: [Int], o: Obj, a: Any, e: E = RED, fl: Float, id: ID, fls: [Float]) on FIELD | QUERY | FRAGMENT_SPREAD | INLINE_FRAGMENT | FRAGMENT_DEFINITION
type Query {
  f(i: Int, d: Int = 7, l: [Int], o: Obj, a: Any, e: E = RED, fl: Float, id: ID, fls: [Float]): Int
  g(u1: Int, u2: Int, u3: Int, u4: [Int]): Int
}
`

// the model's strings are ASCII: LATIN1 names a string of code points 128..255, written with \u00XX escapes
const latin1Name, latin1Value = "LATIN1", "caf\u00e9 \u00ff\u0080"

func latinBack(v JVal) JVal {
	if v.K == "str" && v.S == latin1Value {
		v.S = latin1Name
	}
	for i := range v.Items {
		v.Items[i] = latinBack(v.Items[i])
	}
	for i := range v.Ents {
		v.Ents[i].V = latinBack(v.Ents[i].V)
	}
	return v
}

const argSDL2 = `
enum E { RED GREEN }
scalar Any
input Obj { x: Int y: [Int] z: Obj }
directive @skip(if: Boolean!, d: Int = 8, e: E = GREEN) on FIELD | FRAGMENT_SPREAD | INLINE_FRAGMENT
directive @dir(i: Int = 11, d: Int = 8, l: [Int], o: Obj, a: Any, e: E = GREEN, fl: Float, id: ID, fls: [Float]) on FIELD | QUERY | FRAGMENT_SPREAD | INLINE_FRAGMENT | FRAGMENT_DEFINITION
type Query {
  f(i: Int = 11, d: Int = 8, l: [Int], o: Obj, a: Any, e: E = GREEN, fl: Float, id: ID, fls: [Float]): Int
  g(u1: Int, u2: Int, u3: Int, u4: [Int]): Int
}
`

func argLiteral(v JVal) string {
	switch v.K {
	case "null":
		return "null"
	case "bool":
		return strconv.FormatBool(v.I == 1)
	case "int":
		return strconv.Itoa(v.I)
	case "float", "bigint", "bigfloat", "enum":
		return v.S
	case "str":
		if v.S == latin1Name {
			return quoteEscaped(latin1Value)
		}
		return strconv.Quote(v.S)
	case "var":
		return "$" + v.S
	case "list":
		p := make([]string, len(v.Items))
		for i, x := range v.Items {
			p[i] = argLiteral(x)
		}
		return "[" + strings.Join(p, ", ") + "]"
	case "map":
		p := make([]string, len(v.Ents))
		for i, e := range v.Ents {
			p[i] = e.Key + ": " + argLiteral(e.V)
		}
		return "{" + strings.Join(p, ", ") + "}"
	}
	return "null"
}

func hasKind(v JVal, k string) bool {
	if v.K == k {
		return true
	}
	for _, x := range v.Items {
		if hasKind(x, k) {
			return true
		}
	}
	for _, e := range v.Ents {
		if hasKind(e.V, k) {
			return true
		}
	}
	return false
}

type argCase struct {
	Arg      string `json:"arg"`
	Use      []JVal `json:"use"`
	Supplied []struct {
		Name string `json:"name"`
		V    JVal   `json:"v"`
	} `json:"supplied"`
	CVars []struct {
		Name string `json:"name"`
		V    JVal   `json:"v"`
	} `json:"cvars"`
	All []struct {
		Arg     string `json:"arg"`
		Present bool   `json:"present"`
		Val     JVal   `json:"val"`
	} `json:"all"`
}

func argMapOf(f func() map[string]interface{}) (m map[string]interface{}, crash string) {
	defer guard("ArgumentMap", "")()
	defer func() {
		if r := recover(); r != nil {
			crash = fmt.Sprintf("panic: %v", r)
		}
	}()
	return f(), ""
}

func checkC15(c *core.Ctx) {
	c.Rule = "cases are the rows of the decision table enumerated by TLC in ArgMap_MC: variables $p: Int, $q: Int = 3 and $n: Int = null each absent / null / supplied, crossed with one argument of f(i, d = 7, l, o, a: Any, e = RED) written as nothing, a literal (lists and input objects with nested variables, custom-scalar literals of every kind) or a variable; each row is rendered as (schema, document, variables), validated, coerced, and both Field.ArgumentMap and Directive.ArgumentMap are compared entry by entry with the map the specification prints; string literals include code points 128..255 written as \\u00XX escapes; the rows are replayed a second time (other defaults: i = 11, d = 8, e = GREEN) on documents that were parsed once, validated against the first schema and then against the second, where the map must follow the schema validated last. Non-trivial = rows where the argument is written; distinct by (argument, usage, supplied variables)"
	c.Assumptions = []string{
		"ArgMap.tla: an absent variable nested in a literal contributes null (the statement says variables inside literals are substituted; it does not ask for omission of the entry)",
		"literal conversion kinds: Int -> integer, Float -> float, String/Enum -> string, Boolean -> bool, null -> nil",
	}
	schema, err := gqlparser.LoadSchema(&ast.Source{Name: "arg.graphql", Input: argSDL})
	if err != nil {
		c.Internal("schema: %v", err)
		return
	}
	// known finding: custom scalar literal beyond int64
	bigOpen := false
	if fs, err := core.LoadFindings(); err == nil {
		for _, f := range fs {
			if f.Property == "C15" && f.Dev == "CustomScalarRange" && f.Status == "open" {
				doc, errs := gqlparser.LoadQuery(schema, "{ f(a: 99999999999999999999) }")
				if len(errs) == 0 {
					_, crash := argMapOf(func() map[string]interface{} {
						return doc.Operations[0].SelectionSet[0].(*ast.Field).ArgumentMap(nil)
					})
					if crash != "" {
						bigOpen = true
						c.Known(f.Dev, "query={ f(a: 99999999999999999999) }: "+f.What)
					}
				}
				if !bigOpen {
					c.Logf("open finding CustomScalarRange no longer reproduces; the specification runs strict there")
				}
			}
		}
	}
	n1, nt1 := argRows(c, "", schema, nil, bigOpen)
	if c.HasInternal() {
		return
	}
	// the same parsed document validated against one schema and then against another with the same names and
	// other defaults (a document cache in front of a schema reload): the map follows the schema validated last
	schema2, err := gqlparser.LoadSchema(&ast.Source{Name: "arg2.graphql", Input: argSDL2})
	if err != nil {
		c.Internal("schema 2: %v", err)
		return
	}
	n2, nt2 := argRows(c, `"SCHEMA2"`, schema2, schema, bigOpen)
	if c.HasInternal() {
		return
	}
	c.Count(int64(n1+n2)*2, nt1+nt2, int64(n1+n2))
	argMapOps(c, schema)
	c.Exhaustive = true
	c.Logf("ArgMap_MC: %d rows replayed into Field.ArgumentMap and Directive.ArgumentMap; %d rows on documents validated against another schema first", n1, n2)
}

// argRows: the rows of ArgMap_MC (devs: the configuration switches) replayed on `schema`; with `first`, every
// document is parsed once, validated against `first` and then validated against `schema`
func argRows(c *core.Ctx, devs string, schema, first *ast.Schema, bigOpen bool) (int, int64) {
	var cases []argCase
	var nbad int
	cfg := "SPECIFICATION Spec\nCONSTANTS\n  Devs = {" + devs + "}\nINVARIANTS Emit Precedence VarLaw\nCHECK_DEADLOCK FALSE\n"
	r := c.RunTLC(tlc.Opts{Module: "ArgMap_MC", CfgText: cfg, Workers: 4, LineFn: func(l string) {
		js, ok := tlc.PrintedJSON(l, "CASE")
		if !ok {
			return
		}
		var ac argCase
		if err := json.Unmarshal([]byte(js), &ac); err != nil {
			nbad++
			return
		}
		cases = append(cases, ac)
	}})
	tlc.Cleanup(r)
	if c.HasInternal() {
		return 0, 0
	}
	if nbad > 0 || int64(len(cases)) != r.Distinct {
		c.Internal("ArgMap_MC: %d cases (%d unparsable) for %d states", len(cases), nbad, r.Distinct)
		return 0, 0
	}
	var nontrivial int64
	docCache := map[string]*ast.QueryDocument{}
	for i, ac := range cases {
		argText := ""
		if len(ac.Use) > 0 {
			argText = "(" + ac.Arg + ": " + argLiteral(ac.Use[0]) + ")"
			nontrivial++
		}
		// the directive stands at every executable location that takes one, twice on spreads of the same fragment
		q := "query($p: Int, $q: Int = 3, $n: Int = null, $e: [Int] = []) @dir" + argText + " { f" + argText + " @dir" + argText + " g(u1: $p, u2: $q, u3: $n, u4: $e) @skip(if: false) ...F @dir" + argText +
			" ... on Query @dir" + argText + " { __typename } ...F @dir" + argText + " } fragment F on Query @dir" + argText + " { __typename }"
		big := len(ac.Use) > 0 && (hasKind(ac.Use[0], "bigint") || hasKind(ac.Use[0], "bigfloat"))
		// one parsed and validated document per text, shared by all rows that differ only in the supplied
		// variables: resolving arguments again on the same tree with other values must not remember anything
		doc, cached := docCache[q]
		var errs gqlerror.List
		if !cached {
			if first != nil {
				doc, errs = gqlparser.LoadQuery(first, q)
				if len(errs) == 0 {
					errs = validator.Validate(schema, doc)
				}
			} else {
				doc, errs = gqlparser.LoadQuery(schema, q)
			}
			if len(errs) == 0 {
				docCache[q] = doc
			}
		}
		if big && !cached {
			// the same document under the without-suggestions variants of the rules: whatever rule list lets a literal
			// through, resolving the arguments afterwards returns normally
			if dv, perr := parser.ParseQuery(&ast.Source{Name: "q.graphql", Input: q}); perr == nil {
				var verrs gqlerror.List
				func() {
					defer guard("validator.Validate (without-suggestions variants)", q)()
					verrs = validator.Validate(schema, dv, rulesWithVariants()...)
				}()
				if len(verrs) == 0 {
					fv := dv.Operations[0].SelectionSet[0].(*ast.Field)
					for name, fn := range map[string]func() map[string]interface{}{
						"Field.ArgumentMap":     func() map[string]interface{} { return fv.ArgumentMap(map[string]interface{}{}) },
						"Directive.ArgumentMap": func() map[string]interface{} { return fv.Directives[0].ArgumentMap(map[string]interface{}{}) },
					} {
						if _, crash := argMapOf(fn); crash != "" && !(bigOpen && ac.Arg == "a") {
							c.Violation(fmt.Sprintf("%s on %s (validated with the without-suggestions variants of the rules): %s", name, q, crash), map[string]any{"query": q, "crash": crash, "rules": "without suggestions"})
						}
					}
					c.AddExtraInt("big_literal_rows_accepted_by_variant_rules", 1)
				}
			}
		}
		if len(errs) > 0 {
			if big {
				// a literal the implementation cannot represent was refused by validation: nothing to resolve
				c.AddExtraInt("rows_refused_by_validation", 1)
				continue
			}
			c.Internal("row %d: document %s does not validate: %v", i, q, errs)
			return 0, 0
		}
		vars := map[string]interface{}{}
		for _, s := range ac.Supplied {
			vars[s.Name] = toGo(s.V, i)
		}
		coerced, err := validator.VariableValues(schema, doc.Operations[0], vars)
		if err != nil {
			c.Internal("row %d: variables do not coerce: %v", i, err)
			return 0, 0
		}
		// binding: the coerced map is the one the specification computed
		if len(coerced) != len(ac.CVars) {
			c.Violation(fmt.Sprintf("row %s: coerced variables %v, specification expects %d entries", q, coerced, len(ac.CVars)), map[string]any{"query": q, "vars": vars, "coerced": fmt.Sprint(coerced)})
			continue
		}
		field := doc.Operations[0].SelectionSet[0].(*ast.Field)
		targets := map[string]func() map[string]interface{}{
			"Field.ArgumentMap":     func() map[string]interface{} { return field.ArgumentMap(coerced) },
			"Directive.ArgumentMap": func() map[string]interface{} { return field.Directives[0].ArgumentMap(coerced) },
		}
		op0 := doc.Operations[0]
		at := func(name string, ds ast.DirectiveList) {
			if len(ds) > 0 {
				d := ds[0]
				targets["Directive.ArgumentMap ("+name+")"] = func() map[string]interface{} { return d.ArgumentMap(coerced) }
			}
		}
		at("on the operation", op0.Directives)
		if len(op0.SelectionSet) >= 5 {
			if sp, ok := op0.SelectionSet[2].(*ast.FragmentSpread); ok {
				at("on the first spread of F", sp.Directives)
			}
			if in, ok := op0.SelectionSet[3].(*ast.InlineFragment); ok {
				at("on the inline fragment", in.Directives)
			}
			if sp, ok := op0.SelectionSet[4].(*ast.FragmentSpread); ok {
				at("on the second spread of F", sp.Directives)
			}
		}
		if fd := doc.Fragments.ForName("F"); fd != nil {
			at("on the fragment definition", fd.Directives)
		}
		// the schema's OWN declaration of a specified directive (@skip with two more, defaulted arguments) is the one
		// in force: its map holds the literal and the defaults the specification gives for d and e
		if ac.Arg != "d" && ac.Arg != "e" && len(op0.SelectionSet) >= 2 {
			if gf, ok := op0.SelectionSet[1].(*ast.Field); ok && len(gf.Directives) == 1 {
				m, crash := argMapOf(func() map[string]interface{} { return gf.Directives[0].ArgumentMap(coerced) })
				what := ""
				if crash != "" {
					what = crash
				} else {
					if v, ok := m["if"].(bool); !ok || v {
						what = fmt.Sprintf("argument \"if\" = %v, expected false", m["if"])
					}
					for _, e := range ac.All {
						if e.Arg != "d" && e.Arg != "e" {
							continue
						}
						got, present := m[e.Arg]
						if present != e.Present || (present && !jvEqual(jvNorm(e.Val), jvNorm(fromGo(got)))) {
							what = fmt.Sprintf("argument %q = %v (present=%v), expected %s", e.Arg, got, present, e.Val)
						}
					}
					if len(m) != 3 {
						what = fmt.Sprintf("map %v has %d entries, expected if, d and e", m, len(m))
					}
				}
				if what != "" {
					c.Violation(fmt.Sprintf("Directive.ArgumentMap of the redeclared @skip(if: false) on %s: %s", q, what), map[string]any{"query": q, "what": what})
				}
			}
		}
		for name, fn := range targets {
			m, crash := argMapOf(fn)
			if crash != "" {
				if big && bigOpen && ac.Arg == "a" {
					c.AddExtraInt("known_finding_occurrences", 1)
					continue
				}
				c.Violation(fmt.Sprintf("%s on %s with %v: %s", name, q, vars, crash), map[string]any{"query": q, "vars": fmt.Sprint(vars), "crash": crash})
				continue
			}
			if big {
				continue // any numeric value is acceptable for a literal no Go integer can hold; returning normally is the point
			}
			for _, e := range ac.All {
				got, present := m[e.Arg]
				what := ""
				if present != e.Present {
					what = fmt.Sprintf("argument %q present=%v, expected %v", e.Arg, present, e.Present)
				} else if present && !jvEqual(jvNorm(e.Val), jvNorm(latinBack(fromGo(got)))) {
					what = fmt.Sprintf("argument %q = %s, expected %s", e.Arg, fromGo(got), e.Val)
				}
				if what != "" {
					c.Violation(fmt.Sprintf("%s on %s with variables %v: %s", name, q, vars, what), map[string]any{"query": q, "vars": fmt.Sprint(vars), "what": what})
					break
				}
			}
			if len(m) > len(ac.All) {
				c.Violation(fmt.Sprintf("%s on %s: map has undeclared entries %v", name, q, m), map[string]any{"query": q})
			}
		}
		if i < 3 {
			c.Sample(map[string]any{"document": q, "variables": fmt.Sprint(vars), "expected_map": ac.All})
		}
	}
	return len(cases), nontrivial
}

// argMapOps: two operations sharing a fragment (ArgMapOps_MC), both orders of the operations in the
// document, every row on ONE validated tree per order
func argMapOps(c *core.Ctx, schema *ast.Schema) {
	type opCase struct {
		Op       int    `json:"op"`
		Arg      string `json:"arg"`
		Use      []JVal `json:"use"`
		Supplied []struct {
			Name string `json:"name"`
			V    JVal   `json:"v"`
		} `json:"supplied"`
		Exp struct {
			Present bool `json:"present"`
			Val     JVal `json:"val"`
		} `json:"exp"`
	}
	var cases []opCase
	r := c.RunTLC(tlc.Opts{Module: "ArgMapOps_MC", CfgFile: "ArgMapOps_MC.cfg", Workers: 2, LineFn: func(l string) {
		if js, ok := tlc.PrintedJSON(l, "CASE"); ok {
			var oc opCase
			if json.Unmarshal([]byte(js), &oc) == nil {
				cases = append(cases, oc)
			}
		}
	}})
	tlc.Cleanup(r)
	if c.HasInternal() {
		return
	}
	if int64(len(cases)) != r.Distinct {
		c.Internal("ArgMapOps_MC: %d cases for %d states", len(cases), r.Distinct)
		return
	}
	ops := []string{"query Plain($p: Int) { ...F }", "query WithDefault($p: Int = 9) { ...F }"}
	docs := map[string]*ast.QueryDocument{}
	for _, oc := range cases {
		frag := " fragment F on Query { f(" + oc.Arg + ": " + argLiteral(oc.Use[0]) + ") }"
		for order := 0; order < 2; order++ {
			text := ops[order] + " " + ops[1-order] + frag
			doc := docs[text]
			if doc == nil {
				d, errs := gqlparser.LoadQuery(schema, text)
				if len(errs) > 0 {
					c.Internal("document %s does not validate: %v", text, errs)
					return
				}
				doc = d
				docs[text] = d
			}
			opName := []string{"", "Plain", "WithDefault"}[oc.Op]
			op := doc.Operations.ForName(opName)
			vars := map[string]interface{}{}
			for _, s := range oc.Supplied {
				vars[s.Name] = toGo(s.V, 0)
			}
			coerced, err := validator.VariableValues(schema, op, vars)
			if err != nil {
				c.Internal("variables do not coerce: %v", err)
				return
			}
			field := doc.Fragments.ForName("F").SelectionSet[0].(*ast.Field)
			m, crash := argMapOf(func() map[string]interface{} { return field.ArgumentMap(coerced) })
			what := ""
			got, present := m[oc.Arg]
			switch {
			case crash != "":
				what = crash
			case present != oc.Exp.Present:
				what = fmt.Sprintf("argument %q present=%v, expected %v", oc.Arg, present, oc.Exp.Present)
			case present && !jvEqual(jvNorm(oc.Exp.Val), jvNorm(fromGo(got))):
				what = fmt.Sprintf("argument %q = %s, expected %s", oc.Arg, fromGo(got), oc.Exp.Val)
			}
			if what != "" {
				c.Violation(fmt.Sprintf("Field.ArgumentMap for operation %s of %s with variables %v: %s", opName, text, vars, what), map[string]any{"query": text, "operation": opName, "vars": fmt.Sprint(vars), "what": what})
			}
		}
	}
	c.Count(int64(len(cases))*2, int64(len(cases)), int64(len(cases)))
	c.Logf("ArgMapOps_MC: %d rows x 2 orders of the operations replayed (two operations sharing a fragment)", len(cases))
}
