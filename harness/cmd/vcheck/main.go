// vcheck runs one property check: vcheck <id> [quick|thorough] [--replay file]
package main

import (
	"fmt"
	"os"
	"runtime/debug"
	"strings"

	"verif/harness/checks"
	"verif/harness/core"
)

func main() {
	if len(os.Args) < 2 {
		fmt.Println("usage: vcheck <property id> [quick|thorough] [--replay file]")
		os.Exit(2)
	}
	if os.Args[1] == "__worker" {
		os.Exit(checks.WorkerMain(os.Args[2:]))
	}
	id := strings.ToUpper(os.Args[1])
	replay := ""
	for i := 2; i < len(os.Args); i++ {
		switch os.Args[i] {
		case "quick", "thorough":
			os.Setenv("VERIF_TIER", os.Args[i])
		case "--replay":
			if i+1 < len(os.Args) {
				replay = os.Args[i+1]
				i++
			}
		}
	}
	fn, ok := checks.Registry[id]
	if !ok {
		fmt.Printf("unknown property %s\n", id)
		os.Exit(2)
	}
	c := core.NewCtx(id)
	checks.CurCtx = c
	if replay != "" {
		if rf, ok := checks.Replays[id]; ok {
			if rc := rf(c, replay); rc != 3 {
				os.Exit(rc)
			}
		}
		// generic replay: every check is a deterministic function of (tier, seed); run it again with the
		// recorded ones and report whether the recorded violation recurs (evidence is not rewritten)
		tier, seed, what, ok := core.ReadReplay(replay)
		if !ok {
			fmt.Println("cannot read replay file", replay)
			os.Exit(2)
		}
		os.Setenv("VERIF_TIER", tier)
		os.Setenv("VERIF_SEED", fmt.Sprint(seed))
		c = core.NewCtx(id)
		checks.CurCtx = c
		c.ReplayOf, c.ReplayPath = what, replay
		fn(c)
		c.Finish()
	}
	defer func() {
		if r := recover(); r != nil {
			c.Internal("harness panic: %v\n%s", r, debug.Stack())
			c.Finish()
		}
	}()
	fn(c)
	c.Finish()
}
