// Package core holds what every check shares: tier/seed handling, verdict
// discipline (exit 0 / 1 / 2), known findings, evidence files.
package core

import (
	"encoding/json"
	"fmt"
	"os"
	"path/filepath"
	"runtime"
	"sort"
	"strconv"
	"strings"
	"sync"
	"time"

	"verif/harness/tlc"
)

type Finding struct {
	Property string          `json:"property"`
	Dev      string          `json:"dev"`
	Status   string          `json:"status"` // "open" or "fixed"
	What     string          `json:"what"`
	Witness  json.RawMessage `json:"witness"`
	Fixed    string          `json:"fixed,omitempty"` // "fixed: property=<id> <commit> <what failed>"
}

type findingsFile struct {
	Findings []Finding `json:"findings"`
}

func LoadFindings() ([]Finding, error) {
	b, err := os.ReadFile(filepath.Join(tlc.Root(), "known_findings.json"))
	if err != nil {
		return nil, err
	}
	var f findingsFile
	if err := json.Unmarshal(b, &f); err != nil {
		return nil, err
	}
	return f.Findings, nil
}

type Ctx struct {
	ID    string
	Tier  string
	Seed  int64
	Start time.Time

	mu          sync.Mutex
	States      int64
	Transitions int64
	Traces      int64 // traces / cases validated against the implementation
	Evals       int64
	Nontrivial  int64
	Rule        string
	Samples     []any
	Extra       map[string]any
	Assumptions []string
	Exhaustive  bool
	violations  []string
	nviol       int
	known       []string
	internal    []string
	diagnostics []string
	// replay mode: only the recorded violation counts, evidence is not rewritten
	ReplayOf, ReplayPath string
}

func NewCtx(id string) *Ctx {
	c := &Ctx{ID: id, Start: time.Now(), Extra: map[string]any{}}
	c.Tier = os.Getenv("VERIF_TIER")
	if c.Tier != "thorough" {
		c.Tier = "quick"
	}
	c.Seed = 1
	if s := os.Getenv("VERIF_SEED"); s != "" {
		if v, err := strconv.ParseInt(strings.TrimSpace(s), 10, 64); err == nil {
			c.Seed = v
		}
	}
	return c
}

func (c *Ctx) Thorough() bool { return c.Tier == "thorough" }

func (c *Ctx) Logf(format string, a ...any) {
	fmt.Printf("[%s %6.1fs] %s\n", c.ID, time.Since(c.Start).Seconds(), fmt.Sprintf(format, a...))
}

// AddTLC accumulates model-checking statistics of one TLC run.
func (c *Ctx) AddTLC(r *tlc.Result) {
	c.mu.Lock()
	defer c.mu.Unlock()
	c.States += r.Distinct
	c.Transitions += r.Generated
}

func (c *Ctx) Count(evals, nontrivial, traces int64) {
	c.mu.Lock()
	c.Evals += evals
	c.Nontrivial += nontrivial
	c.Traces += traces
	c.mu.Unlock()
}

func (c *Ctx) Sample(s any) {
	c.mu.Lock()
	if len(c.Samples) < 12 {
		c.Samples = append(c.Samples, s)
	}
	c.mu.Unlock()
}

func (c *Ctx) SetExtra(k string, v any) {
	c.mu.Lock()
	c.Extra[k] = v
	c.mu.Unlock()
}

func (c *Ctx) AddExtraInt(k string, v int64) {
	c.mu.Lock()
	old, _ := c.Extra[k].(int64)
	c.Extra[k] = old + v
	c.mu.Unlock()
}

// Known records a reproduced known finding (printed once).
func (c *Ctx) Known(dev, what string) {
	c.mu.Lock()
	defer c.mu.Unlock()
	line := fmt.Sprintf("KNOWN-FINDING: property=%s %s %s", c.ID, dev, what)
	for _, k := range c.known {
		if k == line {
			return
		}
	}
	c.known = append(c.known, line)
	fmt.Println(line)
}

// Violation records a violation observed on the real code. replay is any
// JSON-serialisable description that `bin/check <id> --replay <file>` understands.
func (c *Ctx) Violation(what string, replay any) {
	c.mu.Lock()
	defer c.mu.Unlock()
	if c.ReplayOf != "" {
		if what == c.ReplayOf && c.nviol == 0 {
			c.nviol++
			fmt.Printf("VIOLATION property=%s replay=%s\n  %s\n", c.ID, c.ReplayPath, what)
		}
		return
	}
	c.nviol++
	if len(c.violations) >= 25 {
		return
	}
	dir := filepath.Join(EvidenceDir(), "replays")
	os.MkdirAll(dir, 0o755)
	path := filepath.Join(dir, fmt.Sprintf("%s-%s-%d.json", c.ID, c.Tier, len(c.violations)+1))
	b, _ := json.MarshalIndent(map[string]any{"property": c.ID, "what": what, "seed": c.Seed, "tier": c.Tier, "case": replay}, "", " ")
	os.WriteFile(path, b, 0o644)
	c.violations = append(c.violations, path)
	fmt.Printf("VIOLATION property=%s replay=%s\n", c.ID, path)
	fmt.Printf("  %s\n", what)
}

func (c *Ctx) NumViolations() int {
	c.mu.Lock()
	defer c.mu.Unlock()
	return c.nviol
}

// Diagnostic records something worth a look that is neither a verdict about the
// library nor a failure of the machinery (e.g. the generator's intent disagreeing
// with specification AND library): printed, kept in the evidence, exit code unaffected.
func (c *Ctx) Diagnostic(format string, a ...any) {
	c.mu.Lock()
	defer c.mu.Unlock()
	msg := fmt.Sprintf(format, a...)
	c.diagnostics = append(c.diagnostics, msg)
	fmt.Printf("DIAGNOSTIC %s: %s\n", c.ID, msg)
}

// Internal records a failure of the machinery itself (exit 2, never a violation).
func (c *Ctx) Internal(format string, a ...any) {
	c.mu.Lock()
	defer c.mu.Unlock()
	msg := fmt.Sprintf(format, a...)
	c.internal = append(c.internal, msg)
	fmt.Printf("INTERNAL-ERROR %s: %s\n", c.ID, msg)
}

func (c *Ctx) HasInternal() bool {
	c.mu.Lock()
	defer c.mu.Unlock()
	return len(c.internal) > 0
}

// EvidenceDir: <root>/evidence, or VERIF_OUT when a seeded change is tried in
// a scratch tree (bin/seedpar) so that /verif/evidence is left alone.
func EvidenceDir() string {
	if d := os.Getenv("VERIF_OUT"); d != "" {
		return d
	}
	return filepath.Join(tlc.Root(), "evidence")
}

// Finish writes the evidence file and exits with the verdict.
func (c *Ctx) Finish() {
	c.mu.Lock()
	cov := map[string]any{}
	for k, v := range c.Extra {
		cov[k] = v
	}
	cov["states"] = c.States
	cov["transitions"] = c.Transitions
	cov["traces_validated_against_impl"] = c.Traces
	cov["evaluations"] = c.Evals
	cov["distinct_nontrivial"] = c.Nontrivial
	cov["rule"] = c.Rule
	if len(c.Samples) == 0 {
		c.Samples = []any{"(no sample recorded)"}
	}
	cov["samples"] = c.Samples
	cov["exhaustive"] = c.Exhaustive
	sort.Strings(c.known)
	cov["known_findings_reproduced"] = c.known
	ev := map[string]any{
		"property_id": c.ID,
		"tier":        c.Tier,
		"seed":        c.Seed,
		"level":       "model_checking",
		"coverage":    cov,
		"assumptions": c.Assumptions,
		"wall_s":      time.Since(c.Start).Seconds(),
		"violations":  c.nviol,
	}
	if len(c.diagnostics) > 0 {
		cov, _ := ev["coverage"].(map[string]any)
		if cov != nil {
			cov["diagnostics"] = c.diagnostics
		}
	}
	if len(c.internal) > 0 {
		ev["internal_errors"] = c.internal
	}
	nviol, ninternal := c.nviol, len(c.internal)
	c.mu.Unlock()
	dir := EvidenceDir()
	os.MkdirAll(dir, 0o755)
	if c.ReplayOf != "" {
		if nviol == 0 {
			fmt.Printf("replay %s: the recorded violation does not recur\n", c.ReplayPath)
			if ninternal > 0 {
				os.Exit(2)
			}
			os.Exit(0)
		}
		os.Exit(1)
	}
	b, _ := json.MarshalIndent(ev, "", " ")
	if err := os.WriteFile(filepath.Join(dir, c.ID+".json"), append(b, '\n'), 0o644); err != nil {
		fmt.Printf("INTERNAL-ERROR %s: cannot write evidence: %v\n", c.ID, err)
		os.Exit(2)
	}
	c.Logf("done: states=%d transitions=%d traces=%d evaluations=%d nontrivial=%d violations=%d internal=%d",
		c.States, c.Transitions, c.Traces, c.Evals, c.Nontrivial, nviol, ninternal)
	// A violation is always a disagreement of the REAL code with the specification,
	// observed and written to a replay file; it stands even if another part of the
	// run could not decide (internal error). Undecided with nothing observed = 2.
	if nviol > 0 {
		os.Exit(1)
	}
	if ninternal > 0 {
		os.Exit(2)
	}
	os.Exit(0)
}

// RunTLC runs TLC and treats anything but a clean completion as an internal
// error (a model-level failure never yields exit 1 by itself).
func (c *Ctx) RunTLC(o tlc.Opts) *tlc.Result {
	r, err := tlc.Run(o)
	if err != nil {
		c.Internal("tlc %s: %v\n%s", o.Module, err, tail(r))
		return r
	}
	if r.Violation {
		c.Internal("tlc %s reported an error on the model:\n%s", o.Module, r.Tail(30))
		return r
	}
	c.AddTLC(r)
	return r
}

func tail(r *tlc.Result) string {
	if r == nil {
		return ""
	}
	return r.Tail(20)
}

// DevSetTLA renders a set of deviation names as a TLA+ set for a cfg file.
func DevSetTLA(devs []string) string {
	q := make([]string, len(devs))
	for i, d := range devs {
		q[i] = `"` + d + `"`
	}
	sort.Strings(q)
	return "{" + strings.Join(q, ", ") + "}"
}

// ---- in-process guard ----
//
// Most checks call the library inside the harness process. A defect that makes
// such a call loop or allocate without bound would otherwise hang the check or
// get it killed, which says nothing. Every call of the real code is bracketed
// by Enter / the returned leave function; a monitor reports the call that has
// been running for more than a minute, or during which the heap grew by more
// than 3 GiB, as a violation attributed to its input, and ends the run with exit 1.

type guardedCall struct {
	desc      string
	detail    any
	start     time.Time
	seenHeap  uint64 // heap when the monitor first saw this call still running
	seenTwice bool
}

var (
	guardMu    sync.Mutex
	guardCalls = map[*guardedCall]bool{}
	guardOnce  sync.Once
	guardCtx   *Ctx
)

const guardSeconds, guardHeap = 60, 3 << 30

// Enter registers a call of the real code; call the result when it returns.
func (c *Ctx) Enter(desc string, detail any) func() {
	guardOnce.Do(func() {
		guardCtx = c
		go guardMonitor()
	})
	k := &guardedCall{desc: desc, detail: detail, start: time.Now()}
	guardMu.Lock()
	guardCalls[k] = true
	guardMu.Unlock()
	return func() {
		guardMu.Lock()
		delete(guardCalls, k)
		guardMu.Unlock()
	}
}

func guardMonitor() {
	var ms runtime.MemStats
	for {
		time.Sleep(500 * time.Millisecond)
		runtime.ReadMemStats(&ms)
		guardMu.Lock()
		var oldest *guardedCall
		for k := range guardCalls {
			if oldest == nil || k.start.Before(oldest.start) {
				oldest = k
			}
		}
		guardMu.Unlock()
		if oldest == nil {
			continue
		}
		what := ""
		if time.Since(oldest.start) > guardSeconds*time.Second {
			what = fmt.Sprintf("the call has not returned after %d s", guardSeconds)
		} else if !oldest.seenTwice {
			oldest.seenTwice, oldest.seenHeap = true, ms.HeapAlloc
		} else if ms.HeapAlloc > oldest.seenHeap+guardHeap {
			what = fmt.Sprintf("the heap grew by %d MiB while the call was running", (ms.HeapAlloc-oldest.seenHeap)>>20)
		}
		if what == "" {
			continue
		}
		c := guardCtx
		in := fmt.Sprintf("%q", fmt.Sprint(oldest.detail))
		if len(in) > 400 {
			in = in[:400] + "..."
		}
		c.Violation(fmt.Sprintf("%s: %s on %s", what, oldest.desc, in), map[string]any{"what": what, "call": oldest.desc, "input": oldest.detail})
		c.Logf("stopping: a call of the library inside the harness does not come back")
		c.Finish()
	}
}

// ReadReplay reads tier, seed and message of a replay file written by Violation.
func ReadReplay(path string) (tier string, seed int64, what string, ok bool) {
	b, err := os.ReadFile(path)
	if err != nil {
		return "", 0, "", false
	}
	var r struct {
		Tier string `json:"tier"`
		Seed int64  `json:"seed"`
		What string `json:"what"`
	}
	if json.Unmarshal(b, &r) != nil || r.What == "" {
		return "", 0, "", false
	}
	return r.Tier, r.Seed, r.What, true
}
