// Package tlc runs the TLC model checker on the specifications under
// /verif/spec in a private scratch directory, with a timeout, and extracts
// what the harness needs from its output: statistics, printed cases, the
// dumped state graph.
package tlc

import (
	"bufio"
	"bytes"
	"context"
	"errors"
	"fmt"
	"io"
	"os"
	"os/exec"
	"path/filepath"
	"regexp"
	"strconv"
	"strings"
	"time"
)

const (
	jar  = "/opt/veriftools/tla/tla2tools.jar"
	deps = "/opt/veriftools/tla/CommunityModules-deps.jar"
)

// Root is the /verif directory (overridable for snapshots run by `vp run`).
func Root() string {
	if r := os.Getenv("VERIF_ROOT"); r != "" {
		return r
	}
	if exe, err := os.Executable(); err == nil {
		// <root>/.build/vcheck.N
		d := filepath.Dir(filepath.Dir(exe))
		if _, err := os.Stat(filepath.Join(d, "spec")); err == nil {
			return d
		}
	}
	return "/verif"
}

type Opts struct {
	Module   string            // module to check, e.g. "Lexer_MC"
	CfgFile  string            // cfg file name in spec/ (used when CfgText == "")
	CfgText  string            // generated cfg text
	Extra    map[string]string // extra files (name -> content) written next to the specs
	Workers  int
	Args     []string // extra TLC arguments
	Env      []string
	Timeout  time.Duration
	Heap     string // e.g. "4g"
	Stack    string // e.g. "512m" (thread stack for deep recursion)
	DumpDot  bool
	Simulate string // e.g. "num=100" -> -simulate num=100
	Depth    int
	Seed     int64
	LineFn   func(line string) // called for every stdout line (streaming); Out is then not retained
}

type Result struct {
	Out       string
	Generated int64
	Distinct  int64
	ExitCode  int
	Dir       string
	DotPath   string
	Wall      time.Duration
	Violation bool // TLC reported an invariant/property violation or evaluation error
}

var statRe = regexp.MustCompile(`(\d+) states generated, (\d+) distinct states found`)

// Run executes TLC. The caller must call Cleanup(res) when done with res.Dir.
func Run(o Opts) (*Result, error) {
	root := Root()
	dir, err := os.MkdirTemp("", "verif-tlc-")
	if err != nil {
		return nil, err
	}
	res := &Result{Dir: dir}
	specs, _ := filepath.Glob(filepath.Join(root, "spec", "*.tla"))
	for _, s := range specs {
		b, err := os.ReadFile(s)
		if err != nil {
			return res, err
		}
		if err := os.WriteFile(filepath.Join(dir, filepath.Base(s)), b, 0o644); err != nil {
			return res, err
		}
	}
	for name, content := range o.Extra {
		if err := os.WriteFile(filepath.Join(dir, name), []byte(content), 0o644); err != nil {
			return res, err
		}
	}
	cfg := o.Module + "_run.cfg"
	if o.CfgText != "" {
		if err := os.WriteFile(filepath.Join(dir, cfg), []byte(o.CfgText), 0o644); err != nil {
			return res, err
		}
	} else {
		b, err := os.ReadFile(filepath.Join(root, "spec", o.CfgFile))
		if err != nil {
			return res, err
		}
		if err := os.WriteFile(filepath.Join(dir, cfg), b, 0o644); err != nil {
			return res, err
		}
	}
	heap := o.Heap
	if heap == "" {
		heap = "4g"
	}
	jtmp := filepath.Join(dir, "jtmp") // TLC unpacks its module jars under java.io.tmpdir; keep that inside dir
	os.MkdirAll(jtmp, 0o755)
	args := []string{"-XX:+UseParallelGC", "-Xmx" + heap, "-Djava.io.tmpdir=" + jtmp}
	if o.Stack != "" {
		args = append(args, "-Xss"+o.Stack)
	}
	args = append(args, "-cp", jar+":"+deps, "tlc2.TLC", "-metadir", filepath.Join(dir, "meta"))
	w := o.Workers
	if w <= 0 {
		w = 4
	}
	args = append(args, "-workers", strconv.Itoa(w))
	if o.DumpDot {
		res.DotPath = filepath.Join(dir, "graph.dot")
		args = append(args, "-dump", "dot,actionlabels", res.DotPath)
	}
	if o.Simulate != "" {
		args = append(args, "-simulate", o.Simulate)
		if o.Depth > 0 {
			args = append(args, "-depth", strconv.Itoa(o.Depth))
		}
	}
	if o.Seed != 0 {
		args = append(args, "-seed", strconv.FormatInt(o.Seed, 10))
	}
	args = append(args, o.Args...)
	args = append(args, "-config", cfg, o.Module+".tla")
	to := o.Timeout
	if to == 0 {
		to = 10 * time.Minute
	}
	ctx, cancel := context.WithTimeout(context.Background(), to)
	defer cancel()
	cmd := exec.CommandContext(ctx, "java", args...)
	cmd.Dir = dir
	cmd.Env = append(os.Environ(), o.Env...)
	pr, pw := io.Pipe()
	cmd.Stdout = pw
	cmd.Stderr = pw
	var buf bytes.Buffer
	doneRead := make(chan struct{})
	go func() {
		defer close(doneRead)
		sc := bufio.NewScanner(pr)
		sc.Buffer(make([]byte, 1<<20), 1<<28)
		for sc.Scan() {
			line := sc.Text()
			if o.LineFn != nil {
				if strings.HasPrefix(line, "<<") {
					o.LineFn(line)
					continue
				}
			}
			if buf.Len() < 8<<20 {
				buf.WriteString(line)
				buf.WriteByte('\n')
			}
		}
		io.Copy(io.Discard, pr)
	}()
	start := time.Now()
	runErr := cmd.Run()
	pw.Close()
	<-doneRead
	res.Wall = time.Since(start)
	res.Out = buf.String()
	if m := statRe.FindAllStringSubmatch(res.Out, -1); len(m) > 0 {
		last := m[len(m)-1]
		res.Generated, _ = strconv.ParseInt(last[1], 10, 64)
		res.Distinct, _ = strconv.ParseInt(last[2], 10, 64)
	}
	if ctx.Err() != nil {
		return res, fmt.Errorf("tlc %s: timeout after %v", o.Module, to)
	}
	if runErr != nil {
		var ee *exec.ExitError
		if errors.As(runErr, &ee) {
			res.ExitCode = ee.ExitCode()
		} else {
			return res, runErr
		}
	}
	if strings.Contains(res.Out, "Error:") || res.ExitCode != 0 {
		res.Violation = true
	}
	return res, nil
}

func Cleanup(r *Result) {
	if r != nil && r.Dir != "" {
		os.RemoveAll(r.Dir)
	}
}

// Tail returns the last n lines of the TLC output that are not parser chatter.
func (r *Result) Tail(n int) string {
	var keep []string
	for _, l := range strings.Split(r.Out, "\n") {
		if strings.HasPrefix(l, "Semantic processing") || strings.HasPrefix(l, "Parsing file") || strings.HasPrefix(l, "Linting of") || l == "" {
			continue
		}
		keep = append(keep, l)
	}
	if len(keep) > n {
		keep = keep[len(keep)-n:]
	}
	return strings.Join(keep, "\n")
}

// PrintedJSON extracts the JSON payload of a line printed by
// PrintT(<<"TAG", ToJson(x)>>): <<"TAG", "....">>
func PrintedJSON(line, tag string) (string, bool) {
	pre := `<<"` + tag + `", "`
	if !strings.HasPrefix(line, pre) || !strings.HasSuffix(line, `">>`) {
		return "", false
	}
	body := line[len(pre) : len(line)-3]
	return UnescapeTLA(body), true
}

// UnescapeTLA undoes TLA+ string escaping (\" and \\ and \n \t).
func UnescapeTLA(s string) string {
	if !strings.Contains(s, `\`) {
		return s
	}
	var b strings.Builder
	for i := 0; i < len(s); i++ {
		if s[i] == '\\' && i+1 < len(s) {
			i++
			switch s[i] {
			case 'n':
				b.WriteByte('\n')
			case 't':
				b.WriteByte('\t')
			case 'r':
				b.WriteByte('\r')
			case 'f':
				b.WriteByte('\f')
			default:
				b.WriteByte(s[i])
			}
			continue
		}
		b.WriteByte(s[i])
	}
	return b.String()
}
