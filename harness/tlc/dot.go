package tlc

import (
	"bufio"
	"fmt"
	"os"
	"strings"
)

// Graph is a TLC state graph dumped with -dump dot,actionlabels.
type Graph struct {
	Init  int
	Nodes []Node
	index map[string]int
}

type Node struct {
	ID    string
	O     string // value of the spec variable "o" (a JSON string) if present
	Label string // full dot-unescaped label (kept only if KeepLabels)
	Out   []Edge
}

type Edge struct {
	To     int
	Action string // e.g. Read(97)
}

func unescapeDot(s string) string {
	if !strings.Contains(s, `\`) {
		return s
	}
	var b strings.Builder
	for i := 0; i < len(s); i++ {
		if s[i] == '\\' && i+1 < len(s) {
			i++
			switch s[i] {
			case 'n':
				b.WriteByte('\n')
			default:
				b.WriteByte(s[i])
			}
			continue
		}
		b.WriteByte(s[i])
	}
	return b.String()
}

// labelOf returns the raw (still dot-escaped) label="..." content of a dot line.
func labelOf(line string) (string, bool) {
	i := strings.Index(line, `[label="`)
	if i < 0 {
		return "", false
	}
	j := i + len(`[label="`)
	k := j
	for k < len(line) {
		if line[k] == '\\' {
			k += 2
			continue
		}
		if line[k] == '"' {
			return line[j:k], true
		}
		k++
	}
	return "", false
}

// varString extracts the TLA+ string value of variable name from a state
// label in TLC's "/\ v = value" format.
func varString(label, name string) (string, bool) {
	pre := `/\ ` + name + ` = "`
	i := strings.Index(label, pre)
	if i < 0 {
		return "", false
	}
	j := i + len(pre)
	k := j
	for k < len(label) {
		if label[k] == '\\' {
			k += 2
			continue
		}
		if label[k] == '"' {
			return UnescapeTLA(label[j:k]), true
		}
		k++
	}
	return "", false
}

func LoadDot(path string, keepLabels bool) (*Graph, error) {
	f, err := os.Open(path)
	if err != nil {
		return nil, err
	}
	defer f.Close()
	g := &Graph{Init: -1, index: map[string]int{}}
	get := func(id string) int {
		if n, ok := g.index[id]; ok {
			return n
		}
		g.index[id] = len(g.Nodes)
		g.Nodes = append(g.Nodes, Node{ID: id})
		return len(g.Nodes) - 1
	}
	sc := bufio.NewScanner(f)
	sc.Buffer(make([]byte, 1<<20), 1<<28)
	for sc.Scan() {
		line := sc.Text()
		if len(line) == 0 || !(line[0] == '-' || (line[0] >= '0' && line[0] <= '9')) {
			continue
		}
		sp := strings.IndexByte(line, ' ')
		if sp < 0 {
			continue
		}
		id := line[:sp]
		rest := line[sp+1:]
		if strings.HasPrefix(rest, "-> ") {
			rest = rest[3:]
			sp2 := strings.IndexByte(rest, ' ')
			if sp2 < 0 {
				continue
			}
			to := rest[:sp2]
			lab, _ := labelOf(rest)
			a, b := get(id), get(to)
			g.Nodes[a].Out = append(g.Nodes[a].Out, Edge{To: b, Action: unescapeDot(lab)})
			continue
		}
		lab, ok := labelOf(rest)
		if !ok {
			continue
		}
		n := get(id)
		full := unescapeDot(lab)
		if o, ok := varString(full, "o"); ok {
			g.Nodes[n].O = o
		}
		if keepLabels {
			g.Nodes[n].Label = full
		}
		if strings.Contains(rest, "style = filled") {
			g.Init = n
		}
	}
	if err := sc.Err(); err != nil {
		return nil, err
	}
	if g.Init < 0 {
		return nil, fmt.Errorf("dot graph %s: no initial node", path)
	}
	return g, nil
}

func (g *Graph) NumEdges() int {
	n := 0
	for i := range g.Nodes {
		n += len(g.Nodes[i].Out)
	}
	return n
}
