#!/bin/bash
cd /verif && python3-vt - <<'PY'
import json,jsonschema,glob
jsonschema.validate(json.load(open('MANIFEST.json')),json.load(open('/root/.vp/MANIFEST.schema.json')))
es=json.load(open('/root/.vp/EVIDENCE.schema.json'))
for f in sorted(glob.glob('evidence/C*.json')):
    jsonschema.validate(json.load(open(f)),es)
print('manifest + %d evidence files valid' % len(glob.glob('evidence/C*.json')))
PY
