#!/usr/bin/env python3
"""Writes /verif/seeded/INDEX.md from seeded/*/meta.json (one row per kept seeded change)."""
import json, os, glob
ROOT = os.path.dirname(os.path.dirname(os.path.abspath(__file__)))
rows = []
for d in sorted(glob.glob(os.path.join(ROOT, 'seeded', 'C*'))):
    m = json.load(open(os.path.join(d, 'meta.json')))
    rows.append((os.path.basename(d), ', '.join(m.get('files_changed', [])), m.get('summary', '').replace('|', '/').replace('\n', ' '),
                 m.get('needs', '').replace('|', '/').replace('\n', ' '), m.get('checks_run', '').replace('|', '/')))
with open(os.path.join(ROOT, 'seeded', 'INDEX.md'), 'w') as f:
    f.write("# Seeded changes kept as regression material for the checks\n\n")
    f.write("Each directory holds `patch.diff` (applies to /repo HEAD), `zz_demo_test.go` (fails with the change, passes without) and `meta.json`.\n")
    f.write("Produced by fresh sub-agents that saw only the property text and a scratch worktree; confirmed and tried with `bin/seedpar` (scratch worktree, never /repo) or `bin/seedtest`.\n\n")
    f.write("| seed | files | change | needs | outcome |\n|---|---|---|---|---|\n")
    for r in rows:
        f.write("| %s | %s | %s | %s | %s |\n" % r)
print(len(rows), "seeds")
