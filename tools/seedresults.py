#!/usr/bin/env python3
"""tools/seedresults.py <seedpar log> [/verif commit]: records the outcome lines of a bin/seedpar run in seeded/*/meta.json (checks_run) and rewrites INDEX.md."""
import json, os, re, sys, subprocess
ROOT = os.path.dirname(os.path.dirname(os.path.abspath(__file__)))
commit = sys.argv[2] if len(sys.argv) > 2 else ''
n = 0
for line in open(sys.argv[1], errors='replace'):
    m = re.match(r'SEED (C\d\d-[a-z]): (.*?); check (C\d\d) \((\w+)\) exit=(\d+) violations=(\d+) (\w+)', line)
    if not m:
        continue
    name, conf, cid, tier, rc, nv, verdict = m.groups()
    p = os.path.join(ROOT, 'seeded', name, 'meta.json')
    if not os.path.exists(p):
        continue
    first = line.split('first:', 1)[1].strip()[:160] if 'first:' in line else ''
    meta = json.load(open(p))
    meta['confirmed'] = "bin/seedpar: %s (demo passes on the clean tree, existing suite passes with the change, demo fails with the change)" % conf
    meta['checks_run'] = "bin/check %s %s on the changed tree -> exit %s, %s violation line(s)%s%s" % (
        cid, tier, rc, nv, (" (/verif %s)" % commit) if commit else '', ("; first: " + first) if first else '')
    meta['caught'] = verdict == 'CAUGHT'
    json.dump(meta, open(p, 'w'), indent=1)
    n += 1
print(n, "seeds updated")
subprocess.run([sys.executable, os.path.join(ROOT, 'tools', 'seedindex.py')])
