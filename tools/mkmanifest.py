#!/usr/bin/env python3
"""Regenerates /verif/MANIFEST.json from the table below (single source of truth)."""
import json, os, subprocess
ROOT = os.path.dirname(os.path.dirname(os.path.abspath(__file__)))
props = [json.loads(l) for l in open(os.path.join(ROOT, 'properties.jsonl'))]

# id -> (technique, level text, level note, design ref)
CHECKS = {
 'C20': ("Errors.tla WF predicate evaluated by Errors_Trace on every error provoked from every entry point; path codec identity model-checked (Errors_MC) and all its 5461 paths replayed through json.Marshal of an error and ast.Path.UnmarshalJSON under four name alphabets",
         "4,000 (quick) / 2.5 million (thorough) errors from the lexer, both parsers (named sources), limited entry points, LoadSchema over several uniquely named files (after an early load that extends built-ins), Validate under default and random rule subsets, VariableValues with defective values and hostile map keys; coverage counted by distinct message template (about 230 in the quick tier).",
         "JSON shape is checked on json.Marshal of the *gqlerror.Error; message wording is not compared against an oracle; every error of a call whose sources are all named must carry one of those names.", "4/C20"),

 'C12': ("Printer.tla: the formatter is specified through its inverse, the SPECIFICATION's own parser (Lexer.tla + QueryGrammar.tla + Tree.tla); Printer_Trace requires SpecParse(format(d)) = d, the library's re-parse to agree, and format(parse(format(d))) = format(d); plus every sentence of the QueryGrammar_MC state graph formatted and re-read",
         "Every derivable sentence of the bounded grammar graph and a sentence through every transition of the larger graph, each under a rotating option set; 60 (quick) / 1,500 (thorough) generated document trees (strings with quotes, backslashes, control characters, non-BMP and non-printable runes, triple quotes, odd indentation; directives on every location incl. variable definitions; fragment variables; comments) x all 16 option sets (4 indents x comments x compacted).",
         "Comments are not part of the compared document; the padding state machine itself is not modelled (the formatter is specified by what its output must denote).", "4/C12"),
 'C13': ("Printer.tla with the type-system parser of the specification (SchemaGrammar.tla): Printer_Trace requires SpecParse(format(doc)) = doc (descriptions dropped when switched off; all schema definitions / extensions merged as the formatter merges them), the library's re-parse to agree, fixpoint; for loaded schemas the canonical projection of LoadSchema(FormatSchema(s)) must equal that of s",
         "50 (quick) / 3,000 (thorough) grammar-directed type-system documents (every definition kind, extensions, constant directives and defaults, descriptions from a pool of 29 hostile texts: leading / trailing blank space and newlines, common indentation, CR, control characters, triple quotes, trailing backslash or quote) x 12 option sets (3 indents x comments x without-description); 40 / 2,500 loaded schemas from the typed generator (custom roots, default-named non-roots, schema description and directives, repeatable directives, described arguments, hostile descriptions) plus 19 hand-written corner cases (no query root, user-defined prelude directives) x 4 / 12 option sets.",
         "Two recorded known findings pinned by golden files (argument separator under WithoutDescription; schema description not printed by FormatSchema). Default values and directive arguments of loaded schemas are compared by printed literal.", "4/C13"),
 'C11': ("Shared.tla (read-only operations on one schema; ReadOnly and SameAsAlone invariants over all interleavings of 3 goroutines, faulty writer as non-vacuity witness) + Shared_Trace on real runs: results equal the call run alone on a pristine schema, canonical deep snapshots of the schema graph equal before/after, no race-detector report; forced interleavings through hook H3",
         "Per run: three fixed schemas (tables not in alphabetical order; lists with repeats from extensions) with every hand-written document (history + 4 goroutines), then 2/8 schemas x (4/12 single-threaded histories of 30/75 calls with a snapshot around every call and a re-rendering of every returned value after the last call; goroutine runs with 2..8 / 2..32 goroutines in a child process built with -race; all 20 / 70 interleavings of two validations at walkSelection granularity). Calls are random mixes of parse+validate (valid, faulty, type-blind), variable coercion, argument resolution and schema formatting.",
         "Data-race freedom is decided by the Go race detector on the schedules that occur; the snapshot is a reflective walk of everything reachable from *ast.Schema (including spare slice capacity).", "4/C11"),

 'C02': ("FragTraversal.tla (visits under the Global / OnPath memo disciplines, linearity model-checked on all 3-fragment graphs) + Total2_Trace: every LoadSchema / Validate call runs in a crash-isolated child process; hook-H2 recursion step counters per site are checked against polynomial bounds in the document size",
         "1,100 (quick) / 72,000 (thorough) cases: LoadSchema on generated valid / faulty / hand-written / grammar-directed type-blind SDL; Validate on typed valid, fault-injected and type-blind documents; 24 adversarial document families (fragment fan-out under introspection, fields, top level, subscriptions; cycles through fields; fragments spreading each other while overlapping; exclusive-then-shared comparisons; deep aliases; wide same-name selection sets; deep equal / differing / reordered object and list arguments, deep default values) and 12 adversarial type-system families (interface chains and cycles reached from a type that sorts first, input cycles through non-null fields and defaults, deep list types, wide unions, directive cycles, extension chains, extensions of missing types) at 4 / 6 sizes. A crash, fatal stack exhaustion or 20 s silence is attributed to its input; a hard budget of 30 million steps per site turns exponential blow-up into a deterministic verdict.",
         "Termination / no-panic are observations of the Go runtime; time is bounded through step counters, not seconds; polynomial bounds are generous (degree 4 for the merge rule).", "4/C02"),

 'C09': ("Links_Trace over the typed walk (Events) of Rules.tla: every link of every node of the validated real AST, recorded with pointer identity against the schema's own definitions, must be a fact the walk implies, and every node the walk visits must carry its fact",
         "360 (quick) / 12,000 (thorough) generated valid documents on generated schemas, the valid ones among the small-scope documents of C08 (about 800 / 12,000), plus hand-written ones; every third document also validated on a fresh parse with a rule subset (none, no value observers, no directive observers) and linked again (fields reached only through fragments, __typename on unions, introspection fields, values nested in lists inside input objects inside lists, list-coerced single values, variables in every position incl. fragments shared by several operations, directives on every executable location).",
         "The inline-fragment link is a recorded known finding (links the enclosing type). Node identity is assigned by the projection.", "4/C09"),
 'C10': ("Determinism.tla function law (model-checked) and Determinism_Trace: the complete error list (order, rule, message incl. suggestions, locations, file) of every case observed on fresh parses, on re-validation of the same tree, and in 3/8 fresh worker processes must be identical; same for schema-load errors",
         "670 (quick) / 12,000 (thorough) cases: generated valid / faulty / misspelt (several equidistant candidates) / type-blind documents, the adversarial families of C02 at small sizes, a third of the merge family of C08, cyclic fragments with conflicts, hand documents on a schema with near-identical names (Item / ITEM, Doa..Doe, RED/REB/REC), faulty schemas.",
         "Map-order effects are sampled over K processes, not enumerated.", "4/C10"),
 'C18': ("Compose.tla CompositionLaw model-checked on abstract observers (with an interfering observer as non-vacuity witness); Compose_Trace checks on real runs that each rule set's errors are the multiset union of its members' singleton errors, tags, default = explicit full list, and the without-suggestions variants",
         "250 (quick) / 2,600 (thorough) (schema, document) pairs x (27 singletons + full list + default + the explicit empty list + 10/50 random subsets in random order on fresh parses against freshly loaded schemas + 3 subsets in sequence on one shared tree + 4 variants).",
         "Errors are compared as (rule, message, locations).", "4/C18"),

 'C08': ("Rules.tla: the 27 validation rules as predicates over (schema, document) on top of a typed walk written in TLA+ (FieldsInSetCanMerge / SameResponseShape, variable usage with location defaults, literal coercion with 32-bit Int range, oneOf, introspection depth); Rules_Trace evaluates them with TLC on the parsed document and loaded schema and compares the document verdict with validator.Validate; three-way agreement with generator intent",
         "Per run: 3 (quick) / 30 (thorough) generated schemas x (40/150 valid-by-construction documents, 120/500 documents with 1-3 injected faults from a 28-operator catalogue covering every rule, 40/150 type-blind documents over the schema's vocabulary) plus 180 hand-written corner cases and the merge family (9 context orders x 36 selection pairs) on a fixed schema, plus small scope: every document with at most 3 / 4 selections over a seven-type schema and a fixed vocabulary (6,570 / 106,850 documents). The verdict (errors / no errors) must equal Rules.tla's; per-rule agreement is recorded as a diagnostic.",
         "Trusts Rules.tla as the reading of section 5; the document / schema given to the specification are projections of the real parser's / loader's output (C05, C07); verdict only, not wording.", "4/C08"),

 'C07': ("TypeSystem.tla (merge of definitions and extensions, 12 named rules as predicates over the set of definitions, relations, roots) evaluated by TypeSystem_Trace on the projection of the real parser's output; real gqlparser.LoadSchema verdict, relations and closure compared; three-way agreement with generator intent",
         "Generated valid-by-construction type systems (interfaces implementing interfaces, unions, oneOf inputs, repeatable directives, defaults, custom scalars, nested list/non-null, directives on every type-system location, extensions and extension-only types, custom roots) must load and yield exactly the specification's types, directives, possible-type / implements relations and roots with introspection fields and no dangling reference; the same with one injected violation from a catalogue of 21 fault operators covering every enforced rule must be rejected; 70 hand-written corner cases; small scope: every combination of at most 3 / 4 blocks of a 30-block pool of definitions and extensions (4,525 / 31,930 type systems). 4,900 (quick) / 38,000 (thorough) documents.",
         "Trusts TypeSystem.tla as the reading of the rules the statement lists; the abstract document is the projection of parser.ParseSchemas' output (checked by C06); the small-scope enumeration is over a fixed pool of blocks, not over all type systems of a size.", "4/C07"),
 'C17': ("TypeSystem.tla rules are predicates over the SET of definitions (order-free by construction); TypeSystem_Trace requires LoadSchema's outcome for every permutation x partition into files to equal the specification's outcome for the set, and the error file to hold an involved definition",
         "100 (quick) / 1,000 (thorough) generated schemas, valid and single-fault, and 8 hand-written definition lists (extension-only types referred to by earlier extensions, roots after the schema definition), each loaded in base order and under 10 / 50 random permutations of their top-level definitions crossed with random partitions into 1-5 files and with the built-in prelude first, last or in the middle (extension before base, interface after implementer included); the set of types marked built-in is part of the comparison.",
         "The involved-definition set for the error-file clause comes from the generator's fault operator and is only checked when the specification finds exactly one violated rule.", "4/C17"),
 'C14': ("Coerce.tla (CoerceVariableValues + input coercion over JSON-like values) with Sound / Idempotent / Identity / Complete theorems model-checked; every case of the bounded universe printed by TLC (terminal-state print) replayed into validate + validator.VariableValues in five Go-kind variants; random deeper cases re-computed by Coerce_Trace",
         "All types of list depth <= 1 (quick) / 2 (thorough) with every non-null pattern over Int, String, E, In, Any (+ Float, Boolean, ID), conforming values and values with a defect at each depth, defaults valid only through list coercion: 3,000 / ~10^5 cases x 5 Go representations; a second phase in the same process on a second schema with the same type names and enum E { RED } (1,800 cases, the specification evaluated for that schema); 3,000 / 200,000 random type-directed cases to list depth 3.",
         "The scalar kind table is the library's documented one (DESIGN appendix B); __typename keys excluded.", "4/C14"),
 'C15': ("ArgMap.tla precedence machine (literal > variable > default, explicit null is a value) with Precedence and VarLaw invariants model-checked; every row of the decision table printed by TLC replayed into Field.ArgumentMap and Directive.ArgumentMap after real validation and variable coercion",
         "1,269 rows: three variables ($p: Int, $q: Int = 3, $n: Int = null) x absent / null / supplied, one of nine arguments written as nothing, literal (nested lists / input objects with variables, custom-scalar literals of every kind, numeric literals beyond int64 / float64) or variable; whole argument map compared entry by entry, panics reported; every row carries the directive on the operation, the field, two spreads of one fragment, an inline fragment and the fragment definition; all rows of one document text are resolved on ONE validated tree; ArgMapOps_MC: two operations sharing a fragment (one declaring a default), 24 rows x both orders of the operations.",
         "Absent variable nested in a literal contributes null; generated-document coverage (C->M) of argument maps is not built yet.", "4/C15"),

 'C01': ("TLA+ lexer/budget specifications + Total_Trace.tla validating, per input, outcomes, error positions (InsideInput over the spec's line table) and hook-H1 work counters recorded from the real lexer loop and six parser entry points run in a crash-isolated child process",
         "Every byte string up to 4 (quick) / 5 (thorough) bytes over a 17-byte adversarial alphabet, alone and behind ten prefixes that place the cursor inside escapes, block strings, comments, numbers and argument lists; seeded byte-level mutations of the repository's own test inputs and of generated documents; 22 size-parametrised families to 16 KiB / 64 KiB. A crash, fatal error or hang of the child is attributed to its input and reported; everything that returns is validated by TLC: nil error implies a document, syntax errors carry a line/column inside the input, lexer calls within a bounded look-ahead of the tokens consumed.",
         "Termination / no-panic is an observation of the Go runtime (child process + inactivity watchdog), not a TLC theorem; the time bound is stated on deterministic hook counters. Lexer.tla Progress/Bounds invariants are model-checked in C03.", "4/C01"),
 'C04': ("Lexer.tla carries line/lineStart through ignored text and block strings; TokenPos invariant (incremental = closed-form LineOf/ColOf) model-checked; every token's (start, line, column) compared on all graph paths, Lexer_Cases and Lexer_Trace",
         "Same exhaustive input spaces as C03, compared on start offset, line and column of every token (incl. EOF) against the transducer, whose positions are themselves checked by TLC against the closed-form definition (1 + line terminators before the offset; distance from line start + 1) on every string up to length 3/4. Positions_Trace: every *ast.Position reachable from 600 / 7,700 parsed executable and type-system documents (hostile layout: CR / CRLF / LF mixes, BOMs, multi-byte comments, multi-line block strings) and schemas loaded from 1-5 files (prelude positions included), and every location of the syntax, schema and validation errors of their mutations, must be the (offset, line, column) of a token start of the source it names, with line / column the closed form of the offset.",
         "A node position must be the start of SOME token of its source (the statement does not say which); the String-token column convention is a recorded known finding; Position.End is not part of the statement.", "4/C04"),
 'C05': ("QueryGrammar.tla: LL(1) pushdown automaton with SAX tree events, invariants (nesting, no variable in const context) model-checked; state graph dumped and every path replayed into parser.ParseQuery (accept/reject + tree equality under two ignored-token layouts); transition cover and near-miss cover of the larger graph; generated trees and token mutations validated by QueryGrammar_Trace",
         "Exhaustive within bounds: every token-class sequence up to 6 (quick) / 7 (thorough) tokens that is derivable, a viable prefix, or a viable prefix plus one inadmissible class; one shortest sentence through every transition of the 12/16-token graph plus spliced near-miss sentences; 2,000 / 30,000 generated and mutated documents whose verdict and tree are decided by the TLA+ automaton.",
         "Trusts QueryGrammar.tla as the reading of the grammar and the AST projection; lexemes per class are representatives.", "4/C05"),
 'C06': ("SchemaGrammar.tla: LL(1) pushdown automaton for the type-system grammar with tree events; same machinery as C05 against parser.ParseSchema, plus BuiltIn flag propagation",
         "Exhaustive within bounds (all paths up to 5/6 tokens over 34 classes, transition and near-miss covers at 11/14 tokens), plus generated type-system trees, single-token mutations and hand-written texts with lists nested at every position validated by SchemaGrammar_Trace; BuiltIn_Trace: 60 / 1,500 lists of 2-4 sources in one call with built-in sources at any position (merged document = concatenation, BuiltIn flag of every definition = flag of the source its position names).",
         "Trusts SchemaGrammar.tla and the SchemaDocument projection; empty description equals none; AST lists compared in fixed order.", "4/C06"),
 'C16': ("TokenLimit.tla budget machine (peek/next/comment-group) model-checked for Lookahead, CountOnce, WorkBound, Exact, Sticky; hook-H1 event streams of real parses validated by TokenLimit_Trace against the machine and against the specification's own tokenisation",
         "Every generated document x every limit 0..tokens+2 x every limited entry point: the recorded stream of lexer calls / counter increments / limit hits must be a behaviour of the budget machine, the outcome must be exact (ok iff unlimited ok and tokens <= limit), the tree identical, and no lexer call may follow the limit error; lists of three sources in one call (the limit is per source: ok iff every source parses and fits) at limits around the largest source and the sum; big inputs behind a source of exactly `limit` tokens; 1 MiB (quick) / 8 MiB (thorough) nesting, token-flood and comment-flood families under limits 1..200000 run in a child process with lexer calls <= limit + 1.",
         "Work/memory/recursion are bounded through the event counters (lexer calls, next() calls), not measured in seconds or bytes; trusts hook H1 placement.", "4/C16"),
 'C19': ("JsonCodec.tla (key sets + decoder discrimination rule, round-trip theorem model-checked); every path of the QueryGrammar graph parsed, JSON-encoded, decoded and compared with the tree denoted by the SPECIFICATION's events; generated deep documents' before/after trees and real per-selection key sets validated by JsonCodec_Trace",
         "Every document is decoded from the library's own encoding and from an indented or key-re-ordered spelling of it. All derivable sentences up to 6/7 tokens, a sentence through every transition of the 12/16-token graph, and 1,500/40,000 generated documents of depth up to 6 with all three selection kinds in all orders.",
         "Positions and comments are not compared (not in the statement).", "4/C19"),

 'C03': ("TLA+ transducer Lexer.tla model-checked by TLC (tiling, maximal munch, fold=step, positions); its state graph replayed path-by-path into lexer.ReadToken (M->C), Lexer_Cases terminal-state print for block strings / escapes, and recorded token streams validated by Lexer_Trace (C->M)",
         "Exhaustive within bounds: every string up to length 5 (quick) / 6 (thorough) over the 19-symbol alphabet, every string-body string up to 6/7, every block-string body up to 5/7 and every \\uXXXX escape over 6 hex digits is lexed by the real lexer and compared token by token (kind, extent, decoded value, failure point) with the outputs of the TLA+ transducer; plus seeded random long Unicode inputs validated by TLC. The oracle is the lexical grammar written in TLA+, not the Go code.",
         "Trusts Lexer.tla as the reading of the October-2021 lexical grammar, the token projection, TLC. Beyond the bounds only sampled.", "4/C03"),
}
NOT_YET = "check not built yet in this round (specification in progress); see DESIGN.md section 4"

checks = []
na = []
for p in props:
    i = p['id']
    if i in CHECKS:
        tech, text, note, ref = CHECKS[i]
        checks.append({
            "property_id": i,
            "quick_cmd": "bin/check %s quick" % i,
            "thorough_cmd": "bin/check %s thorough" % i,
            "evidence_file": "/verif/evidence/%s.json" % i,
            "replay_cmd_template": "bin/check %s --replay {path}" % i,
            "engine": "tlc+go-harness",
            "level_claimed": {"category": "model_checking", "text": text, "design_ref": "DESIGN.md section " + ref},
            "level_note": note,
            "technique": tech,
        })
    else:
        na.append({"property_id": i, "reason": NOT_YET})

hooks_commits = []
try:
    out = subprocess.run(['git', '-C', '/repo', 'log', '--format=%H %s'], capture_output=True, text=True).stdout
    hooks_commits = [l.split()[0] for l in out.splitlines() if ' verif hook' in l or l.split(' ', 1)[1].startswith('verif:')]
except Exception:
    pass

m = {
 "version": 1,
 "setup_cmd": "bin/setup",
 "hooks": {
  "guard": "verif (Go build tag)",
  "enable": "go build -tags verif (bin/check builds the harness against /repo's working tree with -tags verif)",
  "baseline_off_cmd": "cd /repo && GOFLAGS=-mod=mod GOPROXY=off go test -vet=off -count=1 ./...",
  "source_commits": hooks_commits,
  "add_only": True,
 },
 "engines": [
  {"name": "tlc+go-harness", "path": "/verif/harness", "serves_properties": [c["property_id"] for c in checks],
   "kind_free_text": "TLA+ specifications under /verif/spec checked by TLC 1.8; Go harness (verif/harness) extracts TLC state graphs / printed cases / simulation behaviours and replays them into the real code, and records executions of the real code as ndjson traces that TLC validates against the *_Trace specifications"},
 ],
 "checks": checks,
 "not_applicable": na,
 "notes": "Exit codes: 0 held (KNOWN-FINDING lines possible), 1 violation (VIOLATION lines), 2 the machinery could not decide (never a violation). Known findings: /verif/known_findings.json. Seeded changes used to test the checks: /verif/seeded/.",
}
json.dump(m, open(os.path.join(ROOT, 'MANIFEST.json'), 'w'), indent=1)
print("checks:", [c['property_id'] for c in checks], "not_applicable:", len(na))
