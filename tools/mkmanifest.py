#!/usr/bin/env python3
"""Regenerates /verif/MANIFEST.json from the table below (single source of truth)."""
import json, os, subprocess
ROOT = os.path.dirname(os.path.dirname(os.path.abspath(__file__)))
props = [json.loads(l) for l in open(os.path.join(ROOT, 'properties.jsonl'))]

# id -> (technique, level text, level note, design ref)
CHECKS = {
 'C03': ("TLA+ transducer Lexer.tla model-checked by TLC (tiling, maximal munch, fold=step, positions); its state graph replayed path-by-path into lexer.ReadToken (M->C), Lexer_Cases terminal-state print for block strings / escapes, and recorded token streams validated by Lexer_Trace (C->M)",
         "Exhaustive within bounds: every string up to length 5 (quick) / 6 (thorough) over the 19-symbol alphabet, every string-body string up to 6/7, every block-string body up to 5/7 and every \\uXXXX escape over 6 hex digits is lexed by the real lexer and compared token by token (kind, extent, decoded value, failure point) with the outputs of the TLA+ transducer; plus seeded random long Unicode inputs validated by TLC. The oracle is the lexical grammar written in TLA+, not the Go code.",
         "Trusts Lexer.tla as the reading of the October-2021 lexical grammar, the token projection, TLC. Beyond the bounds only sampled.", "4/C03"),
}
NOT_YET = "check not built yet in this round (specification in progress); see DESIGN.md section 4"

checks = []
na = []
for p in props:
    i = p['id']
    if i in CHECKS:
        tech, text, note, ref = CHECKS[i]
        checks.append({
            "property_id": i,
            "quick_cmd": "bin/check %s quick" % i,
            "thorough_cmd": "bin/check %s thorough" % i,
            "evidence_file": "/verif/evidence/%s.json" % i,
            "replay_cmd_template": "bin/check %s --replay {path}" % i,
            "engine": "tlc+go-harness",
            "level_claimed": {"category": "model_checking", "text": text, "design_ref": "DESIGN.md section " + ref},
            "level_note": note,
            "technique": tech,
        })
    else:
        na.append({"property_id": i, "reason": NOT_YET})

hooks_commits = []
try:
    out = subprocess.run(['git', '-C', '/repo', 'log', '--format=%H %s'], capture_output=True, text=True).stdout
    hooks_commits = [l.split()[0] for l in out.splitlines() if ' verif hook' in l or l.split(' ', 1)[1].startswith('verif:')]
except Exception:
    pass

m = {
 "version": 1,
 "setup_cmd": "bin/setup",
 "hooks": {
  "guard": "verif (Go build tag)",
  "enable": "go build -tags verif (bin/check builds the harness against /repo's working tree with -tags verif)",
  "baseline_off_cmd": "cd /repo && GOFLAGS=-mod=mod GOPROXY=off go test -vet=off -count=1 ./...",
  "source_commits": hooks_commits,
  "add_only": True,
 },
 "engines": [
  {"name": "tlc+go-harness", "path": "/verif/harness", "serves_properties": [c["property_id"] for c in checks],
   "kind_free_text": "TLA+ specifications under /verif/spec checked by TLC 1.8; Go harness (verif/harness) extracts TLC state graphs / printed cases / simulation behaviours and replays them into the real code, and records executions of the real code as ndjson traces that TLC validates against the *_Trace specifications"},
 ],
 "checks": checks,
 "not_applicable": na,
 "notes": "Exit codes: 0 held (KNOWN-FINDING lines possible), 1 violation (VIOLATION lines), 2 the machinery could not decide (never a violation). Known findings: /verif/known_findings.json. Seeded changes used to test the checks: /verif/seeded/.",
}
json.dump(m, open(os.path.join(ROOT, 'MANIFEST.json'), 'w'), indent=1)
print("checks:", [c['property_id'] for c in checks], "not_applicable:", len(na))
