SPECIFICATION Spec
CONSTANTS
  Devs = {}
INVARIANTS Emit Isolation
CHECK_DEADLOCK FALSE
