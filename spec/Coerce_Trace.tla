----------------------------- MODULE Coerce_Trace -----------------------------
(* C->M: recorded outcomes of validator.VariableValues for random           *)
(* (type, value) pairs, re-computed by the specification.                   *)
(* case: [id, t (type), given (value), ok, val (coerced value or null)]     *)
EXTENDS Coerce, TLC, Json, IOUtils

Cases == ndJsonDeserialize(IOEnv.VERIF_TRACE)
VARIABLES i, bad, n
vars == <<i, bad, n>>

\* JSON numbers arrive as integers, lists as sequences: bring a decoded value / type into the shape of V(...)
RECURSIVE FixV(_), FixT(_), SameV(_, _)
FixV(v) == V(v.k, v.i, v.s, [j \in 1..Len(v.items) |-> FixV(v.items[j])],
             [j \in 1..Len(v.ents) |-> Ent(v.ents[j].key, FixV(v.ents[j].v))])
FixT(t) == [k |-> t.k, name |-> t.name, nn |-> t.nn, of |-> [j \in 1..Len(t.of) |-> FixT(t.of[j])]]

\* floats are carried as text and compared as text after the harness normalised them; maps are unordered
SameV(a, b) ==
  /\ a.k = b.k
  /\ CASE a.k = "list" -> Len(a.items) = Len(b.items) /\ \A j \in 1..Len(a.items) : SameV(a.items[j], b.items[j])
       [] a.k = "map"  -> /\ Len(a.ents) = Len(b.ents)
                          /\ \A j \in 1..Len(a.ents) : \E m \in 1..Len(b.ents) :
                               a.ents[j].key = b.ents[m].key /\ SameV(a.ents[j].v, b.ents[m].v)
       [] a.k = "float" -> TRUE
       [] OTHER -> a.i = b.i /\ a.s = b.s

Verdict(c) ==
  LET r == Coerce(FixT(c.t), FixV(c.given), TRUE) IN
  IF r.ok # c.ok THEN [class |-> IF r.ok THEN "rejected a value that conforms" ELSE "accepted a value that cannot conform", exp |-> r.val]
  ELSE IF r.ok /\ ~SameV(r.val, FixV(c.val)) THEN [class |-> "coerced value differs", exp |-> r.val]
  ELSE IF r.ok /\ ~Conforms(FixT(c.t), FixV(c.val)) THEN [class |-> "returned value does not conform to the declared type", exp |-> r.val]
  ELSE [class |-> "ok", exp |-> VNull]

Init == i = 0 /\ bad = <<>> /\ n = 0
Check == /\ i < Len(Cases)
         /\ i' = i + 1
         /\ LET c == Cases[i + 1]
                v == Verdict(c)
            IN /\ bad' = IF v.class = "ok" \/ Len(bad) >= 100 THEN bad ELSE Append(bad, [id |-> c.id, class |-> v.class, exp |-> v.exp])
               /\ n' = n + 1
Finish == /\ i = Len(Cases)
          /\ i' = i + 1
          /\ ndJsonSerialize(IOEnv.VERIF_REPORT, <<[cases |-> i, events |-> n, bad |-> bad]>>)
          /\ UNCHANGED <<bad, n>>
Next == Check \/ Finish
Spec == Init /\ [][Next]_vars
=============================================================================
