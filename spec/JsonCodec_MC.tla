---------------------------- MODULE JsonCodec_MC ----------------------------
(* Every selection tree with at most two levels and at most two selections  *)
(* per level, over the three kinds (inline fragments with and without a     *)
(* type condition, fields with and without an alias of their own).          *)
EXTENDS JsonCodec

Leafs == { [kind |-> "field", name |-> "f", alias |-> a, cond |-> "", sel |-> <<>>] : a \in {"f", "g"} }
         \cup { [kind |-> "spread", name |-> "F", alias |-> "", cond |-> "", sel |-> <<>>] }
         \cup { [kind |-> "inline", name |-> "", alias |-> "", cond |-> c, sel |-> <<>>] : c \in {"", "T"} }
Seqs(S) == {<<>>} \cup {<<x>> : x \in S} \cup {<<x, y>> : x \in S, y \in S}
Level1 == Leafs \cup { [kind |-> "field", name |-> "f", alias |-> "f", cond |-> "", sel |-> ss] : ss \in Seqs(Leafs) \ {<<>>} }
                \cup { [kind |-> "inline", name |-> "", alias |-> "", cond |-> c, sel |-> ss] : c \in {"", "T"}, ss \in Seqs(Leafs) \ {<<>>} }
VARIABLE s
Init == s \in Level1 \cup { [kind |-> "field", name |-> "f", alias |-> "f", cond |-> "", sel |-> <<x, y>>] : x \in Level1, y \in Leafs }
Next == UNCHANGED s
Spec == Init /\ [][Next]_s
RoundTrip == Decode(Encode(s)) = s
KeysDistinguish == Discriminable
=============================================================================
