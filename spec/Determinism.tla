----------------------------- MODULE Determinism -----------------------------
(* Validation (and schema loading) is a function of the texts: whatever is  *)
(* observed for a case - in the same process on a fresh parse, on the same  *)
(* parsed tree again, or in a fresh process with different hash seeds - is   *)
(* the value memo[case] first observed.                                      *)
EXTENDS Integers, Sequences, FiniteSets
CONSTANTS Cases, Runs, Results
VARIABLES memo, seen
vars == <<memo, seen>>
None == "none"
Init == memo = [c \in Cases |-> None] /\ seen = {}
\* an implementation that is a function f of the case
Observe(f, c, r) == /\ <<c, r>> \notin seen
                    /\ memo[c] \in {None, f[c]}
                    /\ memo' = [memo EXCEPT ![c] = f[c]]
                    /\ seen' = seen \cup {<<c, r>>}
Deterministic(f) == \E c \in Cases, r \in Runs : Observe(f, c, r)
FunctionLaw == \A c \in Cases : memo[c] = None \/ memo[c] \in Results
=============================================================================
