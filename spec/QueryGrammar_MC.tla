-------------------------- MODULE QueryGrammar_MC --------------------------
(* Bounded model of the executable-document automaton: every sequence of   *)
(* at most MaxTok token classes that is a viable prefix.  Paths of the      *)
(* dumped graph are the test inputs of the M->C replay; variable o carries  *)
(* (as JSON) the class read and the tree events of the last step.           *)
EXTENDS QueryGrammar, TLC, Json
CONSTANT MaxTok
VARIABLES stack, n, st, depth, o
vars == <<stack, n, st, depth, o>>

Init == stack = Stack0 /\ n = 0 /\ st = "run" /\ depth = 0 /\ o = ""
Tok(t) ==
  /\ st = "run" /\ n < MaxTok
  /\ LET r == Shift(stack, t, n + 1) IN
     /\ ~Rej(r)
     /\ stack' = r.s /\ n' = n + 1 /\ st' = "run" /\ depth' = depth + Delta(r.ev)
     /\ o' = ToJson([t |-> t, ev |-> r.ev, st |-> "run"])
Eof ==
  /\ st = "run"
  /\ LET r == Shift(stack, "EOF", n + 1) IN
     /\ st' = (IF r.s = ACC THEN "accept" ELSE "reject")
     /\ depth' = (IF r.s = ACC THEN depth + Delta(r.ev) ELSE depth)
     /\ o' = ToJson([t |-> "EOF", ev |-> r.ev, st |-> st'])
     /\ UNCHANGED <<stack, n>>
Next == (\E t \in Classes : Tok(t)) \/ Eof
Spec == Init /\ [][Next]_vars

Markers(s) == Len(SelectSeq(s, IsMarker))
\* the close markers on the stack are exactly the nodes still open
Nesting == /\ depth >= 0
           /\ (st = "run" => depth = Markers(stack))
           /\ (st = "accept" => depth = 0)
\* no variable in a const context
ConstSyms == {"CVALUE", "CLISTN", "COBJN"}
ConstNoVar == (st = "run" /\ stack # <<>> /\ Head(stack) \in ConstSyms) => Rej(Shift(stack, "DOLLAR", 1))
\* a const context is never left through a non-const symbol: below a const list/object only const symbols until its marker
TypeOK == st \in {"run", "accept", "reject"} /\ n \in 0..MaxTok
=============================================================================
