SPECIFICATION Spec
CONSTANTS
  Devs = {}
  MaxLen = 6
INVARIANTS RoundTrip Emit
CHECK_DEADLOCK FALSE
