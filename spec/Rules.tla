-------------------------------- MODULE Rules --------------------------------
(***************************************************************************)
(* The validation rules of GraphQL (October 2021, section 5) that the      *)
(* library implements, as predicates over (schema S, document D), plus the *)
(* typed walk of the document that gives every node its context and its    *)
(* links to the schema (property C09).                                     *)
(*                                                                         *)
(* D is the generic tree of module Tree (as produced by the grammar's      *)
(* events / the projection of the parser's AST): a sequence of nodes       *)
(* [t, v, k].  Node kinds and their children (+ = repeated, ? = optional): *)
(*   op: opkind name? vardef+ dir+ sel+      frag: name vardef+ typecond   *)
(*   dir+ sel+     field: alias name arg+ dir+ sel+     spread: name dir+  *)
(*   inline: typecond? dir+ sel+    vardef: var type default? dir+         *)
(*   dir: name arg+    arg: name value    values: int float str bool null  *)
(*   enum var listv (values) obj (objfield: name value).                   *)
(*                                                                         *)
(* S is the loaded schema: [types: TypeDef*, dirs: DirDef*, q, m, s,       *)
(* possible: [name, of]*] with TypeDef [kind, name, ifaces, fields,        *)
(* members, values, oneOf], FieldDef [name, type, args, hasDef],           *)
(* ArgDef [name, type, hasDef], DirDef [name, args, locs, rep].            *)
(***************************************************************************)
EXTENDS Integers, Sequences, FiniteSets, SequencesExt, TypeAlgebra

CONSTANTS S, Devs

-----------------------------------------------------------------------------
(* Tree access                                                             *)
Kids(n, tag) == SelectSeq(n.k, LAMBDA c : c.t = tag)
Has(n, tag)  == \E j \in 1..Len(n.k) : n.k[j].t = tag
Val(n, tag)  == LET ks == Kids(n, tag) IN IF ks = <<>> THEN "" ELSE ks[1].v
IsSel(c)     == c.t \in {"field", "spread", "inline"}
Sels(n)      == SelectSeq(n.k, IsSel)
IsValueTag(t) == t \in {"int", "float", "str", "bool", "null", "enum", "var", "listv", "obj"}
ValueOf(n)   == LET vs == SelectSeq(n.k, LAMBDA c : IsValueTag(c.t)) IN vs[1]    \* of an arg / objfield / default
Names(seq)   == [j \in 1..Len(seq) |-> seq[j].name]
HasDup(seq)  == \E a, b \in 1..Len(seq) : a < b /\ seq[a] = seq[b]
Dunder(name) == Len(name) >= 2 /\ SubSeq(name, 1, 2) = "__"

RECURSIVE TypeOf(_)
TypeOf(g) == IF g.t = "named" THEN [k |-> "named", name |-> Val(g, "name"), nn |-> Has(g, "nn"), of |-> <<>>]
             ELSE [k |-> "list", name |-> "", nn |-> Has(g, "nn"),
                   of |-> <<TypeOf(SelectSeq(g.k, LAMBDA c : c.t \in {"named", "list"})[1])>>]
\* BaseName, TypeStr, Nullable and Compatible (AreTypesCompatible) come from module TypeAlgebra
VarDefType(vd) == TypeOf(SelectSeq(vd.k, LAMBDA c : c.t \in {"named", "list"})[1])

-----------------------------------------------------------------------------
(* Schema access                                                           *)
TypeNames == {S.types[j].name : j \in 1..Len(S.types)}
TD == [n \in TypeNames |-> S.types[CHOOSE j \in 1..Len(S.types) : S.types[j].name = n]]
DirNames == {S.dirs[j].name : j \in 1..Len(S.dirs)}
DD == [n \in DirNames |-> S.dirs[CHOOSE j \in 1..Len(S.dirs) : S.dirs[j].name = n]]
Known(n) == n \in TypeNames
KindOf(n) == IF Known(n) THEN TD[n].kind ELSE ""
Composite(n) == IsCompositeKind(KindOf(n))
LeafT(n)     == IsLeafKind(KindOf(n))
InputT(n)    == IsInputKind(KindOf(n))
Lookup(seq, name) == LET idx == {j \in 1..Len(seq) : seq[j].name = name}
                     IN IF idx = {} THEN <<>> ELSE <<seq[Min(idx)]>>
PossibleOf(n) == LET e == Lookup(S.possible, n) IN IF e = <<>> THEN {} ELSE Range(e[1].of)
TypenameField == [name |-> "__typename", type |-> [k |-> "named", name |-> "String", nn |-> FALSE, of |-> <<>>], args |-> <<>>, hasDef |-> FALSE]
\* the definition of field fname selected on type tn (<<>> when there is none)
FieldDefOf(tn, fname) ==
  IF fname = "__typename" THEN <<TypenameField>>
  ELSE IF ~Known(tn) THEN <<>> ELSE Lookup(TD[tn].fields, fname)
RootOf(kind) == CASE kind = "query" -> S.q [] kind = "mutation" -> S.m [] kind = "subscription" -> S.s [] OTHER -> <<>>
NameOrNone(n) == IF Known(n) THEN n ELSE ""      \* "" models a nil definition

-----------------------------------------------------------------------------
(* The typed walk.  Events:                                                *)
(*  field  [e, n (node), parent ("" = unknown), def (<<>>|<<FieldDef>>), op]*)
(*  inline [e, n, parent, cond ("" none), op]                              *)
(*  spread [e, n, parent, frag (<<>>|<<frag node>>), op]                   *)
(*  dir    [e, n, loc, def (<<>>|<<DirDef>>), op]   dirlist [e, ds]        *)
(*  value  [e, n, exp (<<>>|<<Type>>), def ("" = none), locDef (the        *)
(*          location has a default value), op]                             *)
(*  vardef [e, n, op]                                                      *)
(* op is the index of the operation in whose context the node is visited,  *)
(* 0 while a fragment definition is walked on its own.                     *)

Ops(D)   == SelectSeq(D, LAMBDA x : x.t = "op")
Frags(D) == SelectSeq(D, LAMBDA x : x.t = "frag")
FragByName(D, name) == LET fs == Frags(D)
                           idx == {j \in 1..Len(fs) : Val(fs[j], "name") = name}
                       IN IF idx = {} THEN <<>> ELSE <<fs[Min(idx)]>>

RECURSIVE WalkValue(_, _, _, _, _)
WalkValue(v, exp, def, locDef, op) ==
  LET me == <<[e |-> "value", n |-> v, exp |-> exp, def |-> def, locDef |-> locDef, op |-> op]>> IN
  IF v.t = "obj" THEN
    LET child(j) ==
          LET of == v.k[j]
              fd == IF def # "" THEN Lookup(TD[def].fields, Val(of, "name")) ELSE <<>>
          IN IF fd # <<>> THEN WalkValue(ValueOf(of), <<fd[1].type>>, NameOrNone(BaseName(fd[1].type)), fd[1].hasDef, op)
             ELSE WalkValue(ValueOf(of), <<>>, "", FALSE, op)
    IN FoldLeft(LAMBDA a, j : a \o child(j), <<>>, [j \in 1..Len(v.k) |-> j]) \o me
  ELSE IF v.t = "listv" THEN
    LET child(j) == IF exp # <<>> /\ exp[1].k = "list"
                    THEN WalkValue(v.k[j], <<exp[1].of[1]>>, def, FALSE, op)
                    ELSE WalkValue(v.k[j], <<>>, "", FALSE, op)
    IN FoldLeft(LAMBDA a, j : a \o child(j), <<>>, [j \in 1..Len(v.k) |-> j]) \o me
  ELSE me

WalkArgs(args, argDefs, known, op) ==
  \* known: the field / directive definition exists
  LET one(a) == LET ad == IF known THEN Lookup(argDefs, Val(a, "name")) ELSE <<>>
                IN IF ad # <<>> THEN WalkValue(ValueOf(a), <<ad[1].type>>, NameOrNone(BaseName(ad[1].type)), ad[1].hasDef, op)
                   ELSE WalkValue(ValueOf(a), <<>>, "", FALSE, op)
  IN FoldLeft(LAMBDA acc, a : acc \o one(a), <<>>, args)

WalkDirs(n, loc, op) ==
  LET ds == Kids(n, "dir")
      one(d) == LET dd == IF Val(d, "name") \in DirNames THEN <<DD[Val(d, "name")]>> ELSE <<>>
                IN WalkArgs(Kids(d, "arg"), IF dd # <<>> THEN dd[1].args ELSE <<>>, dd # <<>>, op)
                   \o <<[e |-> "dir", n |-> d, loc |-> loc, def |-> dd, op |-> op]>>
  IN FoldLeft(LAMBDA acc, d : acc \o one(d), <<>>, ds) \o <<[e |-> "dirlist", ds |-> ds]>>

\* the argument values of the directives of node n, without the directive events themselves:
\* the directives of a fragment DEFINITION are part of the fragment, so the variables they
\* use are uses by every operation that reaches the fragment (section 5.8.3 / 5.8.4)
WalkDirArgsOnly(n, op) ==
  LET ds == Kids(n, "dir")
      one(d) == LET dd == IF Val(d, "name") \in DirNames THEN <<DD[Val(d, "name")]>> ELSE <<>>
                IN WalkArgs(Kids(d, "arg"), IF dd # <<>> THEN dd[1].args ELSE <<>>, dd # <<>>, op)
  IN FoldLeft(LAMBDA acc, d : acc \o one(d), <<>>, ds)

RECURSIVE WalkSels(_, _, _, _, _), WalkSel(_, _, _, _, _)
\* returns [ev, vis]: events and the set of fragments expanded so far in this walk
WalkSels(D, sels, parent, op, vis) ==
  FoldLeft(LAMBDA acc, s : LET r == WalkSel(D, s, parent, op, acc.vis) IN [ev |-> acc.ev \o r.ev, vis |-> r.vis],
           [ev |-> <<>>, vis |-> vis], sels)
WalkSel(D, s, parent, op, vis) ==
  IF s.t = "field" THEN
    LET fd   == FieldDefOf(parent, Val(s, "name"))
        next == IF fd # <<>> THEN NameOrNone(BaseName(fd[1].type)) ELSE ""
        sub  == WalkSels(D, Sels(s), next, op, vis)
    IN [ev |-> WalkArgs(Kids(s, "arg"), IF fd # <<>> THEN fd[1].args ELSE <<>>, fd # <<>>, op)
               \o WalkDirs(s, "FIELD", op) \o sub.ev
               \o <<[e |-> "field", n |-> s, parent |-> parent, def |-> fd, op |-> op]>>,
        vis |-> sub.vis]
  ELSE IF s.t = "inline" THEN
    LET cond == Val(s, "typecond")
        next == IF cond # "" THEN NameOrNone(cond) ELSE parent
        sub  == WalkSels(D, Sels(s), next, op, vis)
    IN [ev |-> WalkDirs(s, "INLINE_FRAGMENT", op) \o sub.ev
               \o <<[e |-> "inline", n |-> s, parent |-> parent, cond |-> cond, op |-> op]>>,
        vis |-> sub.vis]
  ELSE \* spread
    LET name == Val(s, "name")
        fr   == FragByName(D, name)
        next == IF fr # <<>> THEN NameOrNone(Val(fr[1], "typecond")) ELSE ""
        sub  == IF fr # <<>> /\ name \notin vis
                THEN LET w == WalkSels(D, Sels(fr[1]), next, op, vis \cup {name})
                     IN [ev |-> WalkDirArgsOnly(fr[1], op) \o w.ev, vis |-> w.vis]
                ELSE [ev |-> <<>>, vis |-> vis]
    IN [ev |-> WalkDirs(s, "FRAGMENT_SPREAD", op) \o sub.ev
               \o <<[e |-> "spread", n |-> s, parent |-> parent, frag |-> fr, op |-> op]>>,
        vis |-> sub.vis]

WalkOp(D, o, idx) ==
  LET kind == Val(o, "opkind")
      root == RootOf(kind)
      rootName == IF root = <<>> THEN "" ELSE root[1]
      vds  == Kids(o, "vardef")
      vdev(vd) == LET t == VarDefType(vd)
                      dflt == Kids(vd, "default")
                  IN <<[e |-> "vardef", n |-> vd, op |-> idx]>>
                     \o (IF dflt # <<>> THEN WalkValue(ValueOf(dflt[1]), <<t>>, NameOrNone(BaseName(t)), FALSE, idx) ELSE <<>>)
                     \o WalkDirs(vd, "VARIABLE_DEFINITION", idx)
      loc == CASE kind = "query" -> "QUERY" [] kind = "mutation" -> "MUTATION" [] OTHER -> "SUBSCRIPTION"
  IN FoldLeft(LAMBDA acc, vd : acc \o vdev(vd), <<>>, vds)
     \o WalkDirs(o, loc, idx)
     \o WalkSels(D, Sels(o), rootName, idx, {}).ev

WalkFrag(D, f) ==
  LET next == NameOrNone(Val(f, "typecond"))
  IN WalkDirs(f, "FRAGMENT_DEFINITION", 0) \o WalkSels(D, Sels(f), next, 0, {}).ev

Events(D) ==
  LET os == Ops(D)  fs == Frags(D)
  IN FoldLeft(LAMBDA acc, j : acc \o WalkOp(D, os[j], j), <<>>, [j \in 1..Len(os) |-> j])
     \o FoldLeft(LAMBDA acc, f : acc \o WalkFrag(D, f), <<>>, fs)

Of(E, kind) == SelectSeq(E, LAMBDA x : x.e = kind)

-----------------------------------------------------------------------------
(* Fragment graph                                                          *)
RECURSIVE SpreadNames(_)
SpreadNames(sels) ==
  UNION { IF sels[j].t = "spread" THEN {Val(sels[j], "name")} ELSE SpreadNames(Sels(sels[j])) : j \in 1..Len(sels) }
FragNames(D) == {Val(f, "name") : f \in Range(Frags(D))}
FragSpreads(D, name) == LET f == FragByName(D, name) IN IF f = <<>> THEN {} ELSE SpreadNames(Sels(f[1])) \cap FragNames(D)
\* reachability in the spread graph
RECURSIVE ReachFrom(_, _, _)
ReachFrom(D, frontier, seen) ==
  LET new == (UNION {FragSpreads(D, n) : n \in frontier}) \ seen
  IN IF new = {} THEN seen ELSE ReachFrom(D, new, seen \cup new)
HasCycle(D) == \E n \in FragNames(D) : n \in ReachFrom(D, {n}, {})

-----------------------------------------------------------------------------
(* Values of correct type (5.6.1), as literal input coercion               *)
BuiltinScalars == {"Int", "Float", "String", "Boolean", "ID"}
\* the text of an Int literal denotes a 32-bit signed integer (decided on the digits: TLC integers are 32 bit)
Digits(s) == LET neg == Len(s) > 0 /\ SubSeq(s, 1, 1) = "-" IN IF neg THEN SubSeq(s, 2, Len(s)) ELSE s
RECURSIVE StripZeros(_)
StripZeros(s) == IF Len(s) > 1 /\ SubSeq(s, 1, 1) = "0" THEN StripZeros(SubSeq(s, 2, Len(s))) ELSE s
DigitVal(c) == CASE c = "0" -> 0 [] c = "1" -> 1 [] c = "2" -> 2 [] c = "3" -> 3 [] c = "4" -> 4
                 [] c = "5" -> 5 [] c = "6" -> 6 [] c = "7" -> 7 [] c = "8" -> 8 [] c = "9" -> 9 [] OTHER -> 0
RECURSIVE LeqDigits(_, _)
LeqDigits(a, b) == \* a, b digit strings of equal length: a <= b
  IF Len(a) = 0 THEN TRUE
  ELSE IF DigitVal(SubSeq(a, 1, 1)) < DigitVal(SubSeq(b, 1, 1)) THEN TRUE
  ELSE IF DigitVal(SubSeq(a, 1, 1)) > DigitVal(SubSeq(b, 1, 1)) THEN FALSE
  ELSE LeqDigits(SubSeq(a, 2, Len(a)), SubSeq(b, 2, Len(b)))
FitsInt32(s) ==
  LET neg == Len(s) > 0 /\ SubSeq(s, 1, 1) = "-"
      d == StripZeros(Digits(s))
      lim == IF neg THEN "2147483648" ELSE "2147483647"
  IN Len(d) < 10 \/ (Len(d) = 10 /\ LeqDigits(d, lim))

\* one value event is ill-typed (children are judged by their own events)
BadValue(x, D) ==
  LET v == x.n  IN
  IF x.def = "" \/ x.exp = <<>> THEN FALSE
  ELSE LET T == x.exp[1]  d == TD[x.def]  IN
  IF v.t = "null" THEN T.nn
  ELSE IF v.t = "var" THEN FALSE
  ELSE IF d.kind = "SCALAR" /\ d.name \notin BuiltinScalars THEN FALSE       \* custom scalars accept any literal
  ELSE CASE v.t = "listv" -> T.k # "list"
         [] v.t = "int"   -> d.name \notin {"Int", "Float", "ID"}
                             \/ (d.name = "Int" /\ "NoInt32Range" \notin Devs /\ ~FitsInt32(v.v))
         [] v.t = "float" -> d.name # "Float"
         [] v.t = "str"   -> d.name \notin {"String", "ID"}
         [] v.t = "bool"  -> d.name # "Boolean"
         [] v.t = "enum"  -> d.kind # "ENUM" \/ v.v \notin Range(d.values)
         [] v.t = "obj"   ->
              IF d.kind # "INPUT_OBJECT" THEN "ObjectForLeaf" \notin Devs
              ELSE LET given == [j \in 1..Len(v.k) |-> Val(v.k[j], "name")] IN
                   \/ \E f \in Range(d.fields) : f.type.nn /\ ~f.hasDef /\ f.name \notin Range(given)
                   \/ \E g \in Range(given) : Lookup(d.fields, g) = <<>>
                   \/ (d.oneOf /\ (Len(v.k) # 1
                                   \/ ValueOf(v.k[1]).t = "null"
                                   \/ (ValueOf(v.k[1]).t = "var" /\ x.op # 0 /\
                                       LET vd == Lookup([j \in 1..Len(Kids(Ops(D)[x.op], "vardef")) |->
                                                            [name |-> Val(Kids(Ops(D)[x.op], "vardef")[j], "var"),
                                                             nd |-> Kids(Ops(D)[x.op], "vardef")[j]]], ValueOf(v.k[1]).v)
                                       IN vd # <<>> /\ ~VarDefType(vd[1].nd).nn)))
         [] OTHER -> FALSE

-----------------------------------------------------------------------------
(* Variables                                                               *)
VarDefsOf(D, op) == Kids(Ops(D)[op], "vardef")
VarDefByName(D, op, name) == LET vds == VarDefsOf(D, op)
                                 idx == {j \in 1..Len(vds) : Val(vds[j], "var") = name}
                             IN IF idx = {} THEN <<>> ELSE <<vds[Min(idx)]>>

BadVarUse(x, D) ==
  x.n.t = "var" /\ x.exp # <<>> /\ x.op # 0 /\
  LET vd == VarDefByName(D, x.op, x.n.v) IN
  vd # <<>> /\
  LET vt == VarDefType(vd[1])
      dflt == Kids(vd[1], "default")
      hasNonNullDefault == dflt # <<>> /\ ValueOf(dflt[1]).t # "null"
      locDefault == x.locDef /\ "NoLocationDefault" \notin Devs
      lt == IF x.exp[1].nn /\ ~vt.nn /\ (hasNonNullDefault \/ locDefault) THEN Nullable(x.exp[1]) ELSE x.exp[1]
  IN ~Compatible(vt, lt)

-----------------------------------------------------------------------------
(* Field selection merging (5.3.2)                                         *)
\* the fields a selection set contributes, fragments expanded: [n (field node), parent (type the field is selected on)]
RECURSIVE Collect(_, _, _, _)
Collect(D, sels, parent, vis) ==
  \* returns [fs, vis]
  FoldLeft(LAMBDA acc, s :
      IF s.t = "field" THEN [fs |-> Append(acc.fs, [n |-> s, parent |-> parent]), vis |-> acc.vis]
      ELSE IF s.t = "inline" THEN
        LET cond == Val(s, "typecond")
            r == Collect(D, Sels(s), IF cond # "" THEN NameOrNone(cond) ELSE parent, acc.vis)
        IN [fs |-> acc.fs \o r.fs, vis |-> r.vis]
      ELSE LET name == Val(s, "name")  fr == FragByName(D, name) IN
           IF fr = <<>> \/ name \in acc.vis THEN acc
           ELSE LET r == Collect(D, Sels(fr[1]), NameOrNone(Val(fr[1], "typecond")), acc.vis \cup {name})
                IN [fs |-> acc.fs \o r.fs, vis |-> r.vis],
    [fs |-> <<>>, vis |-> vis], sels)

FDef(f) == FieldDefOf(f.parent, Val(f.n, "name"))
SubOf(D, f) == LET fd == FDef(f) IN
               Collect(D, Sels(f.n), IF fd # <<>> THEN NameOrNone(BaseName(fd[1].type)) ELSE "", {}).fs

RECURSIVE SameValue(_, _)
SameValue(a, b) ==
  /\ a.t = b.t
  /\ IF a.t \in {"listv", "obj"}
     THEN IF "CompositeArgsNeverDiffer" \in Devs THEN TRUE
          ELSE Len(a.k) = Len(b.k) /\
               IF a.t = "obj"        \* input objects: field by field, in any order
               THEN \A j \in 1..Len(a.k) : \E m \in 1..Len(b.k) :
                       Val(a.k[j], "name") = Val(b.k[m], "name") /\ SameValue(ValueOf(a.k[j]), ValueOf(b.k[m]))
               ELSE \A j \in 1..Len(a.k) : SameValue(a.k[j], b.k[j])
     ELSE a.v = b.v
SameArgs(a, b) ==
  LET aa == Kids(a, "arg")  bb == Kids(b, "arg") IN
  /\ Len(aa) = Len(bb)
  /\ \A x \in Range(aa) : \E y \in Range(bb) : Val(x, "name") = Val(y, "name") /\ SameValue(ValueOf(x), ValueOf(y))

RECURSIVE ShapeOK(_, _, _, _), SameShapeTypes(_, _)
SameShapeTypes(ta, tb) ==
  IF ta.k = "list" \/ tb.k = "list"
  THEN ta.k = "list" /\ tb.k = "list" /\ ("ListNullabilityShape" \in Devs \/ ta.nn = tb.nn) /\ SameShapeTypes(ta.of[1], tb.of[1])
  ELSE (ta.nn = tb.nn) /\
       (IF LeafT(ta.name) /\ LeafT(tb.name) THEN ta.name = tb.name
        ELSE IF (LeafT(ta.name) /\ Known(tb.name)) \/ (LeafT(tb.name) /\ Known(ta.name)) THEN "LeafVsCompositeShape" \in Devs
        ELSE TRUE)
\* every pair of fields with the same response key in fs has the same response shape, to depth fuel
ShapeOK(D, fs, fuel, dummy) ==
  \A a, b \in 1..Len(fs) :
    (a < b /\ Val(fs[a].n, "alias") = Val(fs[b].n, "alias")) =>
      LET da == FDef(fs[a])  db == FDef(fs[b]) IN
      (da # <<>> /\ db # <<>>) =>
        /\ SameShapeTypes(da[1].type, db[1].type)
        /\ (fuel = 0 \/ ShapeOK(D, SubOf(D, fs[a]) \o SubOf(D, fs[b]), fuel - 1, 0))

RECURSIVE MergeOK(_, _, _)
MergeOK(D, fs, fuel) ==
  \A a, b \in 1..Len(fs) :
    (a < b /\ Val(fs[a].n, "alias") = Val(fs[b].n, "alias")) =>
      LET pa == fs[a].parent  pb == fs[b].parent
          exclusive == pa # pb /\ KindOf(pa) = "OBJECT" /\ KindOf(pb) = "OBJECT"
      IN exclusive \/
         ( /\ Val(fs[a].n, "name") = Val(fs[b].n, "name")
           /\ SameArgs(fs[a].n, fs[b].n)
           /\ (fuel = 0 \/ MergeOK(D, SubOf(D, fs[a]) \o SubOf(D, fs[b]), fuel - 1)) )

\* every selection set of the document (of operations, fragments, fields, inline fragments), with its parent type
SelSetOK(D, sels, parent, fuel) ==
  LET fs == Collect(D, sels, parent, {}).fs IN ShapeOK(D, fs, fuel, 0) /\ MergeOK(D, fs, fuel)

-----------------------------------------------------------------------------
(* Introspection depth                                                     *)
ListFields == {"fields", "interfaces", "possibleTypes", "inputFields"}
RECURSIVE DeepSels(_, _, _, _), DeepField(_, _, _, _)
DeepField(D, f, depth, onPath) ==
  LET d2 == IF Val(f, "name") \in ListFields THEN depth + 1 ELSE depth
  IN (Val(f, "name") \in ListFields /\ d2 >= 3) \/ DeepSels(D, Sels(f), d2, onPath)
DeepSels(D, sels, depth, onPath) ==
  \E j \in 1..Len(sels) :
    LET s == sels[j] IN
    IF s.t = "field" THEN DeepField(D, s, depth, onPath)
    ELSE IF s.t = "inline" THEN DeepSels(D, Sels(s), depth, onPath)
    ELSE LET name == Val(s, "name")  fr == FragByName(D, name) IN
         fr # <<>> /\ name \notin onPath /\ DeepSels(D, Sels(fr[1]), depth, onPath \cup {name})

-----------------------------------------------------------------------------
(* Subscriptions: exactly one top-level field (by response key), none of   *)
(* them an introspection field                                             *)
TopFields(D, o) == Collect(D, Sels(o), "", {}).fs

-----------------------------------------------------------------------------
(* The rules                                                               *)
RuleNames == <<"FieldsOnCorrectType", "FragmentsOnCompositeTypes", "KnownArgumentNames", "KnownDirectives",
               "KnownFragmentNames", "KnownRootType", "KnownTypeNames", "LoneAnonymousOperation",
               "MaxIntrospectionDepth", "NoFragmentCycles", "NoUndefinedVariables", "NoUnusedFragments",
               "NoUnusedVariables", "OverlappingFieldsCanBeMerged", "PossibleFragmentSpreads",
               "ProvidedRequiredArguments", "ScalarLeafs", "SingleFieldSubscriptions", "UniqueArgumentNames",
               "UniqueDirectivesPerLocation", "UniqueFragmentNames", "UniqueInputFieldNames",
               "UniqueOperationNames", "UniqueVariableNames", "ValuesOfCorrectType", "VariablesAreInputTypes",
               "VariablesInAllowedPosition">>

MissingRequired(argDefs, given) ==
  \E ad \in Range(argDefs) : ad.type.nn /\ ~ad.hasDef /\ ad.name \notin Range(given)
ArgNamesOf(n) == [j \in 1..Len(Kids(n, "arg")) |-> Val(Kids(n, "arg")[j], "name")]

SpreadImpossible(parent, cond) ==
  /\ parent # "" /\ KindOf(parent) \in {"OBJECT", "INTERFACE", "UNION"}
  /\ Known(cond) /\ Composite(cond)
  /\ LET ps == IF KindOf(parent) = "OBJECT" THEN {parent} ELSE PossibleOf(parent)
         cs == PossibleOf(cond)
     IN ps \cap cs = {}

\* the operations that reach fragment name through spreads
UsedFrags(D) == ReachFrom(D, UNION {SpreadNames(Sels(o)) \cap FragNames(D) : o \in Range(Ops(D))},
                          UNION {SpreadNames(Sels(o)) \cap FragNames(D) : o \in Range(Ops(D))})

Violates(r, D, E) ==
  CASE r = "FieldsOnCorrectType" -> \E x \in Range(Of(E, "field")) : x.parent # "" /\ x.def = <<>>
    [] r = "FragmentsOnCompositeTypes" ->
         \/ \E x \in Range(Of(E, "inline")) : Known(x.cond) /\ ~Composite(x.cond)
         \/ \E f \in Range(Frags(D)) : Known(Val(f, "typecond")) /\ ~Composite(Val(f, "typecond"))
    [] r = "KnownArgumentNames" ->
         \/ \E x \in Range(Of(E, "field")) : x.def # <<>> /\ x.parent # "" /\
              \E a \in Range(ArgNamesOf(x.n)) : Lookup(x.def[1].args, a) = <<>>
         \/ \E x \in Range(Of(E, "dir")) : x.def # <<>> /\
              \E a \in Range(ArgNamesOf(x.n)) : Lookup(x.def[1].args, a) = <<>>
    [] r = "KnownDirectives" -> \E x \in Range(Of(E, "dir")) : x.def = <<>> \/ x.loc \notin Range(x.def[1].locs)
    [] r = "KnownFragmentNames" -> \E x \in Range(Of(E, "spread")) : x.frag = <<>>
    [] r = "KnownRootType" -> \E o \in Range(Ops(D)) : RootOf(Val(o, "opkind")) = <<>>
    [] r = "KnownTypeNames" ->
         \/ \E x \in Range(Of(E, "vardef")) : ~Known(BaseName(VarDefType(x.n)))
         \/ \E x \in Range(Of(E, "inline")) : x.cond # "" /\ ~Known(x.cond)
         \/ \E f \in Range(Frags(D)) : ~Known(Val(f, "typecond"))
    [] r = "LoneAnonymousOperation" -> Len(Ops(D)) > 1 /\ \E o \in Range(Ops(D)) : ~Has(o, "name")
    [] r = "MaxIntrospectionDepth" ->
         \E x \in Range(Of(E, "field")) : Val(x.n, "name") \in {"__schema", "__type"} /\ DeepField(D, x.n, 0, {})
    [] r = "NoFragmentCycles" -> HasCycle(D)
    [] r = "NoUndefinedVariables" ->
         \E x \in Range(Of(E, "value")) : x.n.t = "var" /\ x.op # 0 /\ VarDefByName(D, x.op, x.n.v) = <<>>
    [] r = "NoUnusedFragments" -> FragNames(D) \ UsedFrags(D) # {}
    [] r = "NoUnusedVariables" ->
         \E j \in 1..Len(Ops(D)) : \E vd \in Range(VarDefsOf(D, j)) :
            ~\E x \in Range(Of(E, "value")) : x.n.t = "var" /\ x.op = j /\ x.n.v = Val(vd, "var")
    [] r = "OverlappingFieldsCanBeMerged" ->
         \/ \E o \in Range(Ops(D)) : ~SelSetOK(D, Sels(o), IF RootOf(Val(o, "opkind")) = <<>> THEN "" ELSE RootOf(Val(o, "opkind"))[1], 6)
         \/ \E f \in Range(Frags(D)) : ~SelSetOK(D, Sels(f), NameOrNone(Val(f, "typecond")), 6)
         \/ \E x \in Range(Of(E, "field")) : Sels(x.n) # <<>> /\
              ~SelSetOK(D, Sels(x.n), IF x.def # <<>> THEN NameOrNone(BaseName(x.def[1].type)) ELSE "", 6)
         \/ \E x \in Range(Of(E, "inline")) :
              ~SelSetOK(D, Sels(x.n), IF x.cond # "" THEN NameOrNone(x.cond) ELSE x.parent, 6)
    [] r = "PossibleFragmentSpreads" ->
         \/ \E x \in Range(Of(E, "inline")) : SpreadImpossible(x.parent, x.cond)
         \/ \E x \in Range(Of(E, "spread")) : x.frag # <<>> /\ SpreadImpossible(x.parent, Val(x.frag[1], "typecond"))
    [] r = "ProvidedRequiredArguments" ->
         \/ \E x \in Range(Of(E, "field")) : x.def # <<>> /\ MissingRequired(x.def[1].args, ArgNamesOf(x.n))
         \/ \E x \in Range(Of(E, "dir")) : x.def # <<>> /\ MissingRequired(x.def[1].args, ArgNamesOf(x.n))
    [] r = "ScalarLeafs" ->
         \E x \in Range(Of(E, "field")) : x.def # <<>> /\ Known(BaseName(x.def[1].type)) /\
            (LeafT(BaseName(x.def[1].type)) = (Sels(x.n) # <<>>))
    [] r = "SingleFieldSubscriptions" ->
         S.s # <<>> /\ \E o \in Range(Ops(D)) : Val(o, "opkind") = "subscription" /\
            LET tf == TopFields(D, o)
                keys == IF "SubscriptionByName" \in Devs THEN {Val(f.n, "name") : f \in Range(tf)}
                        ELSE {Val(f.n, "alias") : f \in Range(tf)}
            IN Cardinality(keys) > 1 \/ \E f \in Range(tf) : Dunder(Val(f.n, "name"))
    [] r = "UniqueArgumentNames" ->
         \/ \E x \in Range(Of(E, "field")) : HasDup(ArgNamesOf(x.n))
         \/ \E x \in Range(Of(E, "dir")) : HasDup(ArgNamesOf(x.n))
    [] r = "UniqueDirectivesPerLocation" ->
         \E x \in Range(Of(E, "dirlist")) : \E a, b \in 1..Len(x.ds) :
            a < b /\ Val(x.ds[a], "name") = Val(x.ds[b], "name") /\
            (IF "RepeatableIgnored" \in Devs THEN Val(x.ds[a], "name") # "repeatable"
             ELSE ~(Val(x.ds[a], "name") \in DirNames /\ DD[Val(x.ds[a], "name")].rep))
    [] r = "UniqueFragmentNames" -> HasDup([j \in 1..Len(Frags(D)) |-> Val(Frags(D)[j], "name")])
    [] r = "UniqueInputFieldNames" ->
         \E x \in Range(Of(E, "value")) : x.n.t = "obj" /\ HasDup([j \in 1..Len(x.n.k) |-> Val(x.n.k[j], "name")])
    [] r = "UniqueOperationNames" ->
         LET named == SelectSeq(Ops(D), LAMBDA o : Has(o, "name")) IN HasDup([j \in 1..Len(named) |-> Val(named[j], "name")])
    [] r = "UniqueVariableNames" ->
         \E j \in 1..Len(Ops(D)) : HasDup([m \in 1..Len(VarDefsOf(D, j)) |-> Val(VarDefsOf(D, j)[m], "var")])
    [] r = "ValuesOfCorrectType" -> \E x \in Range(Of(E, "value")) : BadValue(x, D)
    [] r = "VariablesAreInputTypes" ->
         \E x \in Range(Of(E, "vardef")) : Known(BaseName(VarDefType(x.n))) /\ ~InputT(BaseName(VarDefType(x.n)))
    [] r = "VariablesInAllowedPosition" -> \E x \in Range(Of(E, "value")) : BadVarUse(x, D)

ViolatedRules(D) == LET E == Events(D) IN {RuleNames[j] : j \in {m \in 1..Len(RuleNames) : Violates(RuleNames[m], D, E)}}
Valid(D) == ViolatedRules(D) = {}
=============================================================================
