------------------------------ MODULE Compose_MC ------------------------------
EXTENDS Compose, TLC
VARIABLES evs, rs
Seqs(S, n) == UNION {[1..k -> S] : k \in 0..n}
Perms == {<<"count_a", "first_b", "reader">>, <<"reader", "first_b", "count_a">>, <<"first_b", "reader">>, <<"reader", "count_a">>, <<"count_a">>}
Init == evs \in Seqs(EventKinds, MaxLen) /\ rs \in Perms
Next == UNCHANGED <<evs, rs>>
Spec == Init /\ [][Next]_<<evs, rs>>
Law == CompositionLaw(rs, evs) /\ Tagged(rs, evs)
=============================================================================
