---------------------------- MODULE FragTraversal_MC ----------------------------
(* All graphs over N fragments with at most two spreads each (cycles, self   *)
(* spreads and fan-out included): Global terminates with a linear number of  *)
(* visits on every one of them; OnPath is exponential on the fan-out family. *)
EXTENDS FragTraversal, TLC
CONSTANT N
Frags == 1..N
Targets == {<<>>} \cup {<<a>> : a \in Frags} \cup {<<a, b>> : a \in Frags, b \in Frags}
VARIABLES G, root
Init == G \in [Frags -> Targets] /\ root \in Frags
Next == UNCHANGED <<G, root>>
Spec == Init /\ [][Next]_<<G, root>>
Linear == GlobalLinear(G, root)
\* the design-level reason the repair was needed: OnPath visits 2^n - 1 fragments on FanOut(n)
OnPathExplodes == /\ VisitsOnPath(FanOut(6), 1, {}, 10) = 63
                  /\ VisitsGlobal(FanOut(6), 1, {}).n = 11
=============================================================================
