--------------------------- MODULE JsonCodec_Trace ---------------------------
(* C->M: for each recorded round trip {id, before: tree of the parsed       *)
(* document, after: tree of the document decoded from its JSON encoding,    *)
(* keysets: for every selection of the document its true kind and the key   *)
(* set of its real JSON encoding} check that the decoder's rule classifies  *)
(* every real key set as the true kind and that the trees are equal.        *)
EXTENDS JsonCodec, TLC, Json, IOUtils

Cases == ndJsonDeserialize(IOEnv.VERIF_TRACE)
VARIABLES i, bad, n
vars == <<i, bad, n>>

ToSet(q) == {q[j] : j \in 1..Len(q)}
Verdict(c) ==
  IF \E j \in 1..Len(c.keysets) : Discriminate(ToSet(c.keysets[j].keys)) # c.keysets[j].kind THEN "keys"
  ELSE IF c.before # c.after THEN "tree"
  ELSE "ok"

Init == i = 0 /\ bad = <<>> /\ n = 0
Check == /\ i < Len(Cases)
         /\ i' = i + 1
         /\ LET c == Cases[i + 1]
                v == Verdict(c)
            IN /\ bad' = IF v = "ok" \/ Len(bad) >= 100 THEN bad ELSE Append(bad, [id |-> c.id, class |-> v])
               /\ n' = n + Len(c.keysets)
Finish == /\ i = Len(Cases)
          /\ i' = i + 1
          /\ ndJsonSerialize(IOEnv.VERIF_REPORT, <<[cases |-> i, events |-> n, bad |-> bad]>>)
          /\ UNCHANGED <<bad, n>>
Next == Check \/ Finish
Spec == Init /\ [][Next]_vars
=============================================================================
