------------------------- MODULE QueryGrammar_Trace -------------------------
(* C->M: for each recorded case {id, cls: token classes from the real       *)
(* lexer, lex: token texts, ok: did parser.ParseQuery accept, tree: the     *)
(* projected AST} the specification parses the classes itself and compares  *)
(* the verdict and, when accepted, the tree denoted by its events.          *)
EXTENDS QueryGrammar, TLC, Json, IOUtils

Cases == ndJsonDeserialize(IOEnv.VERIF_TRACE)
VARIABLES i, bad, n
vars == <<i, bad, n>>

\* the AST keeps operations and fragments in separate lists
Reorder(ns) == SelectSeq(ns, LAMBDA x : x.t # "frag") \o SelectSeq(ns, LAMBDA x : x.t = "frag")

Verdict(c) ==
  LET p == ParseClasses(c.cls) IN
  IF p.ok # c.ok THEN [class |-> IF p.ok THEN "accept" ELSE "reject", at |-> p.at, tree |-> <<>>]
  ELSE IF p.ok /\ ~WellNested(p.ev) THEN [class |-> "spec-events-not-nested", at |-> 0, tree |-> <<>>]
  ELSE IF p.ok /\ Reorder(BuildTree(p.ev, c.lex)) # c.tree
       THEN [class |-> "tree", at |-> 0, tree |-> Reorder(BuildTree(p.ev, c.lex))]
  ELSE [class |-> "ok", at |-> 0, tree |-> <<>>]

Init == i = 0 /\ bad = <<>> /\ n = 0
Check == /\ i < Len(Cases)
         /\ i' = i + 1
         /\ LET c == Cases[i + 1]
                v == Verdict(c)
            IN /\ bad' = IF v.class = "ok" \/ Len(bad) >= 100 THEN bad
                         ELSE Append(bad, [id |-> c.id, class |-> v.class, at |-> v.at, tree |-> v.tree])
               /\ n' = n + Len(c.cls)
Finish == /\ i = Len(Cases)
          /\ i' = i + 1
          /\ ndJsonSerialize(IOEnv.VERIF_REPORT, <<[cases |-> i, events |-> n, bad |-> bad]>>)
          /\ UNCHANGED <<bad, n>>
Next == Check \/ Finish
Spec == Init /\ [][Next]_vars
=============================================================================
