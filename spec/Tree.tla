-------------------------------- MODULE Tree --------------------------------
(* SAX-style tree events and the trees they denote.  Shared by the grammar  *)
(* automata: a grammar transition emits events; BuildTree folds the events  *)
(* of a whole document into nodes [t |-> tag, v |-> text, k |-> children].  *)
(* Leaf events refer to tokens by index (lex[i] is the text of token i), so *)
(* the grammars are independent of lexemes.                                 *)
EXTENDS Integers, Sequences, SequencesExt

Open(t)     == [e |-> "open",  t |-> t, i |-> 0, v |-> ""]
Close       == [e |-> "close", t |-> "",  i |-> 0, v |-> ""]
Leaf(t, i)  == [e |-> "leaf",  t |-> t, i |-> i, v |-> ""]    \* leaf whose text is token i
Const(t, v) == [e |-> "const", t |-> t, i |-> 0, v |-> v]     \* leaf with fixed text
SetName(i)  == [e |-> "set",   t |-> "name", i |-> i, v |-> ""]  \* the field's name is token i (an alias was written)
PreDesc(i)  == [e |-> "predesc", t |-> "desc", i |-> i, v |-> ""] \* a description (token i) for the node opened next

Node(t, v, k) == [t |-> t, v |-> v, k |-> k]

\* fold the events of a whole document into the list of top-level nodes; empty is the text of inner nodes
\* ("" when leaf texts are strings, <<>> when they are sequences of code points)
BuildTreeE(evs, lex, empty) ==
  LET step(a, e) ==
        \* a.st = stack of open nodes, a.st[1] is the innermost; a.pend = pending description leaves
        LET st == a.st IN
        CASE e.e = "open"  -> [st |-> <<Node(e.t, empty, a.pend)>> \o st, pend |-> <<>>]
          [] e.e = "predesc" -> [a EXCEPT !.pend = <<Node("desc", lex[e.i], <<>>)>>]
          [] e.e = "leaf"  -> [a EXCEPT !.st = <<[st[1] EXCEPT !.k = Append(@, Node(e.t, lex[e.i], <<>>))]>> \o Tail(st)]
          [] e.e = "const" -> [a EXCEPT !.st = <<[st[1] EXCEPT !.k = Append(@, Node(e.t, e.v, <<>>))]>> \o Tail(st)]
          [] e.e = "set"   -> LET ks == st[1].k
                                  j  == CHOOSE j \in 1..Len(ks) : ks[j].t = e.t /\ \A m \in (j + 1)..Len(ks) : ks[m].t # e.t
                              IN [a EXCEPT !.st = <<[st[1] EXCEPT !.k = [ks EXCEPT ![j] = Node(e.t, lex[e.i], <<>>)]]>> \o Tail(st)]
          [] e.e = "close" -> [a EXCEPT !.st = <<[st[2] EXCEPT !.k = Append(@, st[1])]>> \o Tail(Tail(st))]
      r == FoldLeft(step, [st |-> <<Node("doc", empty, <<>>)>>, pend |-> <<>>], evs)
  IN r.st[1].k
BuildTree(evs, lex) == BuildTreeE(evs, lex, "")

\* events are well nested: never close more than was opened, everything closed at the end
WellNested(evs) ==
  LET depth(d, e) == IF d < 0 THEN d
                     ELSE IF e.e = "open" THEN d + 1 ELSE IF e.e = "close" THEN d - 1 ELSE d
  IN FoldLeft(depth, 0, evs) = 0

Delta(evs) == LET f(d, e) == IF e.e = "open" THEN d + 1 ELSE IF e.e = "close" THEN d - 1 ELSE d
              IN FoldLeft(f, 0, evs)

REJ == [s |-> <<"REJECT">>, ev |-> <<>>]
ACC == <<"ACCEPT">>
Rej(r) == r.s = <<"REJECT">>
=============================================================================
