----------------------------- MODULE Lexer_MC -----------------------------
(* Bounded model of the lexer transducer: every string of length <= MaxLen  *)
(* over the code points in Sigma.  The state holds only what determines the *)
(* future (mode, cursor, line bookkeeping) plus the outputs of the last      *)
(* step, so the graph stays small while its paths are all the inputs.  The  *)
(* dumped graph (tlc -dump dot,actionlabels) is the test-case generator of  *)
(* the M->C replay: each path is one input string; the expected tokens are  *)
(* the outputs along the path, a token's value being the concatenation of   *)
(* the "app" outputs since the last "reset".  Variable o repeats the        *)
(* outputs of st as a JSON string for the harness.                          *)
EXTENDS Lexer, TLC, Json
CONSTANTS Sigma, MaxLen
VARIABLES st, o
vars == <<st, o>>

Outputs(s) == ToJson([out |-> s.out, appPre |-> s.appPre, reset |-> s.reset, app |-> s.app, mode |-> s.mode])

Init == st = Init0 /\ o = Outputs(Init0)
Read(c) == ~Done(st) /\ st.pos < MaxLen /\ st' = Step(st, c) /\ o' = Outputs(st')
Finish  == ~Done(st) /\ st' = End(st) /\ o' = Outputs(st')
Next == (\E c \in Sigma : Read(c)) \/ Finish
Spec == Init /\ [][Next]_vars

\* design-level invariants of the transducer
Bounds ==
  /\ st.pos >= 0 /\ st.pos <= MaxLen
  /\ st.ts >= 0 /\ st.ts <= st.pos /\ st.ls >= 0 /\ st.ls <= st.pos /\ st.line >= 1
  /\ \A i \in 1..Len(st.out) :
       LET t == st.out[i] IN
       t.k # "ERR" => /\ 0 <= t.s /\ t.s <= t.e /\ t.e <= st.pos
                      /\ t.l >= 1 /\ t.l <= st.line
                      /\ (Devs = {} => t.c >= 1)
\* every step consumes exactly one character or terminates: the cursor only moves forward
Progress == [][st'.pos = st.pos + 1 \/ (Done(st') /\ st'.pos = st.pos)]_vars
\* a terminated lexer has emitted EOF or an error as its last output, and only then
Terminal == Done(st) <=> (st.out # <<>> /\ st.out[Len(st.out)].k \in {"EOF", "ERR"})
=============================================================================
