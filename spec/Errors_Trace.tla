----------------------------- MODULE Errors_Trace -----------------------------
(* C->M: every error the error-biased drivers provoke from every entry point, *)
(* one record per error, checked for well-formedness.                         *)
EXTENDS Errors, TLC, Json, IOUtils
Cases == ndJsonDeserialize(IOEnv.VERIF_TRACE)
VARIABLES i, bad, n
vars == <<i, bad, n>>
Init == i = 0 /\ bad = <<>> /\ n = 0
Check == /\ i < Len(Cases)
         /\ i' = i + 1
         /\ LET c == Cases[i + 1]
                v == WF(c)
            IN /\ bad' = IF v = "" \/ Len(bad) >= 100 THEN bad ELSE Append(bad, [id |-> c.id, class |-> v])
               /\ n' = n + 1
Finish == /\ i = Len(Cases)
          /\ i' = i + 1
          /\ ndJsonSerialize(IOEnv.VERIF_REPORT, <<[cases |-> i, events |-> n, bad |-> bad]>>)
          /\ UNCHANGED <<bad, n>>
Next == Check \/ Finish
Spec == Init /\ [][Next]_vars
=============================================================================
