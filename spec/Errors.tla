-------------------------------- MODULE Errors --------------------------------
(* Well-formedness of an error record, and the path codec.                    *)
(* An error as observed: [origin, msgLen, rule, rules (the rule set that ran), *)
(*  locs: [l, c]*, file, srcNames (names of the sources the call was given),   *)
(*  locsInFile (per location: that line and column exist in the text of the   *)
(*  named file; empty when the harness does not have the texts),             *)
(*  json: [keys, locKeys (keys of every location object), locVals (line,       *)
(*  column numbers as decoded from JSON), pathKinds ("s" | "i")*, msgIsString]]*)
EXTENDS Integers, Sequences, FiniteSets

CONSTANT Devs
ToSet(q) == {q[j] : j \in 1..Len(q)}

WF(e) ==
  IF e.msgLen = 0 THEN "empty message"
  ELSE IF e.origin = "validate" /\ e.rule \notin ToSet(e.rules) THEN "validation error not tagged with a rule that ran"
  ELSE IF e.origin = "validate" /\ Len(e.locs) = 0 THEN "validation error without a location"
  ELSE IF \E j \in 1..Len(e.locs) : e.locs[j][1] < 1 \/ e.locs[j][2] < 1 THEN "location with a line or column below 1"
  ELSE IF e.origin \in {"lex", "parse", "load", "validate"} /\ e.file \notin ToSet(e.srcNames)
       THEN "error does not carry the name of the source it came from (every source given to the call is named)"
  ELSE IF e.origin = "limit" /\ "LimitErrorBare" \notin Devs /\ (e.file \notin ToSet(e.srcNames) \/ Len(e.locs) = 0)
       THEN "token-limit error does not carry a location and the name of the source"
  ELSE IF \E j \in 1..Len(e.locsInFile) : ~e.locsInFile[j]
       THEN "a location (line, column) does not exist in the file the error names"
  ELSE IF ~(ToSet(e.json.keys) \subseteq {"message", "locations", "path", "extensions"}) THEN "JSON encoding has a key the response format does not define"
  ELSE IF "message" \notin ToSet(e.json.keys) \/ ~e.json.msgIsString THEN "JSON encoding lacks a string message"
  ELSE IF \E j \in 1..Len(e.json.locKeys) : ToSet(e.json.locKeys[j]) # {"line", "column"} THEN "JSON location is not {line, column}"
  ELSE IF \E j \in 1..Len(e.json.locVals) : e.json.locVals[j] < 1 THEN "JSON location number below 1"
  ELSE IF \E j \in 1..Len(e.json.pathKinds) : e.json.pathKinds[j] \notin {"s", "i"} THEN "JSON path element is neither a name nor an index"
  ELSE ""

\* the path codec: a path is a sequence of [k |-> "n", v |-> name] | [k |-> "i", v |-> index]
Encode(p) == [j \in 1..Len(p) |-> IF p[j].k = "n" THEN [t |-> "string", v |-> p[j].v] ELSE [t |-> "number", v |-> p[j].v]]
Decode(js) == [j \in 1..Len(js) |-> IF js[j].t = "string" THEN [k |-> "n", v |-> js[j].v] ELSE [k |-> "i", v |-> js[j].v]]
=============================================================================
