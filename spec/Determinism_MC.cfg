SPECIFICATION Spec
CONSTANTS
  Cases = {"c1", "c2"}
  Runs = {"fresh", "again", "proc1", "proc2"}
  Results = {"r1", "r2"}
INVARIANTS Agree FunctionLaw
CHECK_DEADLOCK FALSE
