----------------------------- MODULE Lexer_MCH -----------------------------
(* The same transducer with history variables (the string read so far and  *)
(* the tokens emitted so far), at a smaller bound, to check the theorems   *)
(* that need the whole input: the fold LexAll agrees with stepping, token  *)
(* positions agree with the closed-form LineOf/ColOf, tokens tile the      *)
(* input, tokens are maximal, and lexing fails exactly when no production  *)
(* applies.                                                                *)
EXTENDS Lexer, TLC
CONSTANTS Sigma, MaxLen
VARIABLES st, src, acc
vars == <<st, src, acc>>

Init == st = Init0 /\ src = <<>> /\ acc = [val |-> <<>>, toks |-> <<>>]
Read(c) == /\ ~Done(st) /\ st.pos < MaxLen
           /\ st' = Step(st, c) /\ src' = Append(src, c) /\ acc' = EmitAll(acc, st')
Eof == ~Done(st) /\ st' = End(st) /\ acc' = EmitAll(acc, st') /\ UNCHANGED src
Next == (\E c \in Sigma : Read(c)) \/ Eof
Spec == Init /\ [][Next]_vars

Good == SelectSeq(acc.toks, LAMBDA t : t.k # "ERR")
IsIgnored(c) == c \in {SP, TAB, COMMA, BOM, LF, CR}

FoldAgrees == st.mode = "eof" => LexAll(src) = [toks |-> Good, err |-> FALSE]
FoldAgreesErr == st.mode = "err" => LexAll(src).err /\ LexAll(src).toks = Good

TokenPos == \A i \in 1..Len(Good) :
              LET t == Good[i] IN t.l = LineOf(src, t.s) /\ t.c = ColOf(src, t.s)

Tiling == \A i \in 1..Len(Good) :
            LET t == Good[i]
                prevEnd == IF i = 1 THEN 0 ELSE Good[i - 1].e
            IN /\ prevEnd <= t.s /\ t.s <= t.e /\ t.e <= Len(src)
               /\ (t.k # "EOF" => t.s < t.e)
               /\ \A j \in (prevEnd + 1)..t.s : IsIgnored(src[j])
EofCovers == st.mode = "eof" => Good[Len(Good)].k = "EOF" /\ Good[Len(Good)].e = Len(src)

MaximalMunch == \A i \in 1..Len(Good) :
                  LET t == Good[i] IN
                  /\ (t.k = "Name" /\ t.e < Len(src)) => ~IsNameCont(src[t.e + 1])
                  /\ (t.k \in {"Int", "Float"} /\ t.e < Len(src)) => ~NumFollow(src[t.e + 1])
                  /\ (t.k = "Comment" /\ t.e < Len(src)) => (IsLineTerm(src[t.e + 1]) \/ IsCtl(src[t.e + 1]))

\* lexeme/value laws
Values == \A i \in 1..Len(Good) :
            LET t == Good[i] IN
            /\ (t.k \in {"Name", "Int", "Float", "Comment"}) => t.v = SubSeq(src, t.s + 1, t.e)
            /\ (t.k = "String") => src[t.s + 1] = QUOTE /\ src[t.e] = QUOTE
            /\ (t.k = "BlockString") => SubSeq(src, t.s + 1, t.s + 3) = <<QUOTE, QUOTE, QUOTE>>
                                        /\ SubSeq(src, t.e - 2, t.e) = <<QUOTE, QUOTE, QUOTE>>
=============================================================================
