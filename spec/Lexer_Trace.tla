---------------------------- MODULE Lexer_Trace ----------------------------
(* C->M: token streams recorded from the real lexer (one ndjson line per    *)
(* input: {"id", "in": code points, "toks": [{k,s,e,l,c,v}], "err"}) are    *)
(* checked against the specification's LexAll.  One TLC state per case;     *)
(* disagreements are collected (bounded) and written to the report file by  *)
(* the final action together with the number of cases and token events      *)
(* consumed, so that a truncated or vacuous run is detected by the harness. *)
EXTENDS Lexer, TLC, Json, IOUtils

Cases == ndJsonDeserialize(IOEnv.VERIF_TRACE)
VARIABLES i, bad, n
vars == <<i, bad, n>>

ValueKinds == {"Name", "Int", "Float", "String", "BlockString"}
TokSame(a, b) == a.k = b.k /\ a.s = b.s /\ a.e = b.e /\ (a.k \in ValueKinds => a.v = b.v)
PosSame(a, b) == a.l = b.l /\ a.c = b.c
Class(r, c) ==
  IF r.err # c.err \/ Len(r.toks) # Len(c.toks) \/ \E j \in 1..Len(r.toks) : ~TokSame(r.toks[j], c.toks[j])
  THEN "tokens"
  ELSE IF \E j \in 1..Len(r.toks) : ~PosSame(r.toks[j], c.toks[j]) THEN "position" ELSE "ok"

Init == i = 0 /\ bad = <<>> /\ n = 0
Check == /\ i < Len(Cases)
         /\ i' = i + 1
         /\ LET c == Cases[i + 1]
                r == LexAll(c.in)
                k == Class(r, c)
            IN /\ bad' = IF k = "ok" \/ Len(bad) >= 100 THEN bad
                         ELSE Append(bad, [id |-> c.id, class |-> k, expected |-> r])
               /\ n' = n + Len(c.toks)
Finish == /\ i = Len(Cases)
          /\ i' = i + 1
          /\ ndJsonSerialize(IOEnv.VERIF_REPORT, <<[cases |-> i, events |-> n, bad |-> bad]>>)
          /\ UNCHANGED <<bad, n>>
Next == Check \/ Finish
Spec == Init /\ [][Next]_vars
=============================================================================
