SPECIFICATION Spec
CONSTANTS
  G = {1, 2, 3}
  Ops = {"validate", "coerce", "format"}
  Steps = 3
  Writer = "none"
INVARIANTS ReadOnly SameAsAlone
CHECK_DEADLOCK FALSE
