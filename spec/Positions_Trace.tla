--------------------------- MODULE Positions_Trace ---------------------------
(* C->M for the truthful-position property beyond tokens (C04): every        *)
(* *ast.Position reachable from a parsed document or a loaded schema, and    *)
(* every location attached to a syntax, schema or validation error.  A case: *)
(*   srcs  <<[name, text (code points)]>>  the sources handed to the library *)
(*         (the built-in prelude included when a schema is loaded)           *)
(*   pos   <<[src, s, l, c]>>  node positions; src = index into srcs of the  *)
(*         *ast.Source the position carries, 0 when it carries none of them  *)
(*   locs  <<[src, l, c]>>     error locations; src = index of the source    *)
(*         named by the error's "file" extension, 0 when it names none       *)
(*   syntax  TRUE when the errors come from a lexer/parser entry point       *)
(* Requirements (the statement of C04): a node position is the (offset,      *)
(* line, column) of the start of a token of the source it names, as          *)
(* Lexer.tla tokenises that source (whose own positions are model-checked    *)
(* against the closed form in Lexer_MCH); and line / column are the closed   *)
(* form of the offset (LineOf / ColOf), up to the recorded string-column     *)
(* deviation.  An error location is the (line, column) of a token start of   *)
(* the file it names; for a source that does not lex, a syntax error may     *)
(* instead point at any character position inside that source (InsideInput). *)
EXTENDS Lexer, TLC, Json, IOUtils

Cases == ndJsonDeserialize(IOEnv.VERIF_TRACE)
VARIABLES i, bad, n
vars == <<i, bad, n>>

Lexed(text) == LET lx == LexAll(text)
               IN [toks |-> lx.toks, err |-> lx.err, te |-> TermEnds(text),
                   starts |-> {<<lx.toks[j].s, lx.toks[j].l, lx.toks[j].c>> : j \in 1..Len(lx.toks)},
                   lcs |-> {<<lx.toks[j].l, lx.toks[j].c>> : j \in 1..Len(lx.toks)}]

\* the closed form, allowing the recorded deviation of string tokens (column
\* after the opening quote(s)) only when that deviation is enabled
\* (LineOf / ColOf of Lexer.tla with the set of line starts computed once per source)
ClosedForm(text, lx, p) ==
  LET before == {o \in lx.te : o <= p.s}
      line == 1 + Cardinality(before)
      col == p.s - (IF before = {} THEN 0 ELSE Max(before)) + 1
  IN
  /\ p.s >= 0 /\ p.s <= Len(text)
  /\ p.l = line
  /\ \/ p.c = col
     \/ /\ "StringColAfterQuote" \in Devs
        /\ \E j \in 1..Len(lx.toks) : /\ lx.toks[j].s = p.s
                                      /\ \/ lx.toks[j].k = "String" /\ p.c = col + 1
                                         \/ lx.toks[j].k = "BlockString" /\ p.c = col + 3

Verdict(c) ==
  LET LX == TLCEval([k \in 1..Len(c.srcs) |-> Lexed(c.srcs[k].text)])  \* TLCEval: tokenise each source once, not once per use
      posBad(p) == IF p.src = 0 THEN "a node position carries a source that was not given to the library"
                   ELSE IF <<p.s, p.l, p.c>> \notin LX[p.src].starts THEN "a node position is not the start of a token of the source it names"
                   ELSE IF ~ClosedForm(c.srcs[p.src].text, LX[p.src], p) THEN "line / column of a node position are not the closed form of its offset"
                   ELSE ""
      locBad(e) == IF e.src = 0 THEN "an error location names no source that was given"
                   ELSE IF <<e.l, e.c>> \in LX[e.src].lcs THEN ""
                   ELSE IF c.syntax /\ LX[e.src].err /\ InsideInput(c.srcs[e.src].text, e.l, e.c) THEN ""
                   ELSE "an error location is not the start of a token of the file it names"
      pb == SelectSeq(c.pos, LAMBDA p : posBad(p) # "")
      lb == SelectSeq(c.locs, LAMBDA e : locBad(e) # "")
  IN IF pb # <<>> THEN [class |-> posBad(pb[1]), at |-> pb[1]]
     ELSE IF lb # <<>> THEN [class |-> locBad(lb[1]), at |-> [src |-> lb[1].src, s |-> -1, l |-> lb[1].l, c |-> lb[1].c]]
     ELSE [class |-> "ok", at |-> [src |-> 0, s |-> 0, l |-> 0, c |-> 0]]

Init == i = 0 /\ bad = <<>> /\ n = 0
Check == /\ i < Len(Cases)
         /\ i' = i + 1
         /\ LET c == Cases[i + 1]
                v == Verdict(c)
            IN /\ bad' = IF v.class = "ok" \/ Len(bad) >= 100 THEN bad ELSE Append(bad, [id |-> c.id, class |-> v.class, at |-> v.at])
               /\ n' = n + Len(c.pos) + Len(c.locs)
Finish == /\ i = Len(Cases)
          /\ i' = i + 1
          /\ ndJsonSerialize(IOEnv.VERIF_REPORT, <<[cases |-> i, events |-> n, bad |-> bad]>>)
          /\ UNCHANGED <<bad, n>>
Next == Check \/ Finish
Spec == Init /\ [][Next]_vars
=============================================================================
