----------------------------- MODULE FragTraversal -----------------------------
(* Traversal of a fragment-spread graph under the memo disciplines the       *)
(* validator uses, and the number of fragment visits each costs.             *)
(*                                                                           *)
(* A graph maps each fragment to the sequence of fragments it spreads.       *)
(*   Global   a fragment is expanded at most once per traversal (the walker  *)
(*            per operation, NoFragmentCycles, the subscription rule)        *)
(*   PerDepth at most once per (fragment, depth) with depth < D (the         *)
(*            introspection depth rule; depth only grows through fields)     *)
(*   OnPath   a fragment is skipped only while it is on the recursion stack  *)
(*            (the discipline the introspection rule used before its repair) *)
(* Visits counts calls (including the ones that return at once).             *)
EXTENDS Integers, Sequences, FiniteSets, SequencesExt

RECURSIVE VisitsGlobal(_, _, _), VisitsOnPath(_, _, _, _)
\* returns [n, seen]
VisitsGlobal(G, f, seen) ==
  IF f \in seen THEN [n |-> 1, seen |-> seen]
  ELSE FoldLeft(LAMBDA a, t : LET r == VisitsGlobal(G, t, a.seen) IN [n |-> a.n + r.n, seen |-> r.seen],
                [n |-> 1, seen |-> seen \cup {f}], G[f])
VisitsOnPath(G, f, path, fuel) ==
  IF f \in path \/ fuel = 0 THEN 1
  ELSE 1 + FoldLeft(LAMBDA a, t : a + VisitsOnPath(G, t, path \cup {f}, fuel - 1), 0, G[f])

Spreads(G) == FoldLeft(LAMBDA a, f : a + Len(G[f]), 0, SetToSeq(DOMAIN G))
\* every traversal under Global is linear: one call per spread plus the root
GlobalLinear(G, root) == VisitsGlobal(G, root, {}).n <= Spreads(G) + 1
\* the fan-out family: F1 spreads F2 twice, ..., F(n-1) spreads Fn twice
FanOut(n) == [i \in 1..n |-> IF i < n THEN <<i + 1, i + 1>> ELSE <<>>]
=============================================================================
