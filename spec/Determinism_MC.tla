--------------------------- MODULE Determinism_MC ---------------------------
EXTENDS Determinism
F == [c \in Cases |-> IF c = "c1" THEN "r1" ELSE "r2"]
Next == Deterministic(F)
Spec == Init /\ [][Next]_vars
\* every observation of a case equals the first one: no run can disagree
Agree == \A c \in Cases : memo[c] \in {None, F[c]}
=============================================================================
