SPECIFICATION Spec
CONSTANTS
  Devs = {}
  MaxTok = 7
INVARIANTS Nesting ConstNoVar TypeOK
CHECK_DEADLOCK FALSE
