SPECIFICATION Spec
CONSTANT N = 3
INVARIANTS Linear OnPathExplodes
CHECK_DEADLOCK FALSE
