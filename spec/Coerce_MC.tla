------------------------------ MODULE Coerce_MC ------------------------------
(* Bounded universe of (variable type, default, supplied value) cases,      *)
(* generated type-directed inside TLA+: for every type of list depth <= D   *)
(* with every non-null pattern over VInt, VFloat, String, Boolean, ID, E, In, *)
(* Any, the conforming values and the defective ones (null at each depth,   *)
(* wrong kind, unknown / missing field, single value for a list, the        *)
(* json.Number forms).  Each case is printed once with the expected result  *)
(* (terminal-state print) and TLC checks the design-level theorems.         *)
EXTENDS Coerce, TLC, Json
CONSTANTS D, Leaves

RECURSIVE TypesOfDepth(_)
TypesOfDepth(d) ==
  IF d = 0 THEN {Named(n, nn) : n \in Leaves, nn \in BOOLEAN}
  ELSE TypesOfDepth(d - 1) \cup {ListOf(t, nn) : t \in TypesOfDepth(d - 1), nn \in BOOLEAN}
Types == TypesOfDepth(D)

Atoms == {VNull, VBool(TRUE), VInt(5), VFloat("1.5"), VStr("x"), VStr("12"), VStr("RED"), VStr("red"), VStr("PURPLE"),
          VNum("7"), VNum("1.5"), VNum("zz"), VStr("0x1F"), VStr("1_000")}
\* maps for In: field a good / null / wrong / missing; b absent / empty list / single map / list with a bad map; c; d; unknown key
GoodIn == VMap(<<Ent("a", VInt(5))>>)
Maps == { VMap(<<Ent("a", VInt(5))>>), VMap(<<>>), VMap(<<Ent("a", VNull)>>), VMap(<<Ent("a", VStr("x"))>>),
          VMap(<<Ent("a", VInt(5)), Ent("zz", VInt(1))>>),
          VMap(<<Ent("a", VInt(5)), Ent("b", VList(<<>>))>>),
          VMap(<<Ent("a", VInt(5)), Ent("b", GoodIn)>>),
          VMap(<<Ent("a", VInt(5)), Ent("b", VList(<<GoodIn, VMap(<<>>)>>))>>),
          VMap(<<Ent("a", VInt(5)), Ent("b", VList(<<VNull, GoodIn>>))>>),
          VMap(<<Ent("a", VInt(5)), Ent("b", VNull)>>),
          VMap(<<Ent("a", VInt(5)), Ent("c", VStr("GREEN"))>>),
          VMap(<<Ent("a", VInt(5)), Ent("c", VStr("PURPLE"))>>),
          VMap(<<Ent("a", VFloat("1.5")), Ent("c", VNull), Ent("d", VStr("x"))>>),
          VMap(<<Ent("a", VInt(5)), Ent("d", VNull)>>),
          VMap(<<Ent("a", VNum("7")), Ent("d", VNum("7"))>>),
          VMap(<<Ent("a", VNum("1.5"))>>),
          \* "__typename" stands for no field: as many keys as fields and still one required field missing
          VMap(<<Ent("__typename", VStr("In")), Ent("a", VInt(5))>>),
          VMap(<<Ent("__typename", VStr("In")), Ent("b", VList(<<>>)), Ent("c", VStr("RED")), Ent("d", VStr("x"))>>),
          VMap(<<Ent("__typename", VInt(1)), Ent("a", VInt(5)), Ent("b", VNull), Ent("c", VNull), Ent("d", VStr("x"))>>),
          VMap(<<Ent("__typename", VNull), Ent("zz", VInt(1)), Ent("b", VNull), Ent("c", VNull), Ent("d", VStr("x"))>>),
          VMap(<<Ent("a", VStr("0x1F"))>>),
          \* a field of nested list type given a flat list (every item becomes a list of one), a single value, a mix
          VMap(<<Ent("a", VInt(5)), Ent("e", VList(<<VInt(1), VInt(2), VInt(3)>>))>>),
          VMap(<<Ent("a", VInt(5)), Ent("e", VInt(3))>>),
          VMap(<<Ent("a", VInt(5)), Ent("e", VList(<<VList(<<VInt(1)>>), VNull, VInt(2)>>))>>),
          VMap(<<Ent("a", VInt(5)), Ent("e", VList(<<VStr("12"), VStr("7")>>))>>),
          VMap(<<Ent("a", VInt(5)), Ent("e", VList(<<VInt(1), VStr("x")>>))>>),
          VMap(<<Ent("a", VInt(5)), Ent("b", VList(<<VMap(<<Ent("a", VInt(5)), Ent("e", VList(<<VInt(4), VInt(5)>>))>>)>>))>>) }

RECURSIVE Gen(_), IsIntList(_, _)
Gen(T) ==
  IF T.k = "named" THEN Atoms \cup Maps \cup {VList(<<VInt(5)>>)}
  ELSE LET inner == Gen(Elem(T))
           good  == {x \in inner : Coerce(Elem(T), x, FALSE).ok}
           bad   == inner \ good
           g1    == IF good = {} THEN {} ELSE {CHOOSE x \in good : x.k # "null"} \cup {x \in good : x.k = "null"}
       IN {VNull, VList(<<>>)} \cup {VList(<<x>>) : x \in inner} \cup {VList(<<x, y>>) : x \in g1, y \in bad \cup g1}
          \cup inner      \* single values where a list is expected

\* default literals (all valid for their type, some only through single-value-to-list coercion)
IsIntList(T, d) == IF d = 0 THEN T.k = "named" /\ T.name = "Int" ELSE T.k = "list" /\ IsIntList(Elem(T), d - 1)
Defaults(T) == {<<>>}
  \cup (IF T.k = "list" THEN {<<VList(<<>>)>>} ELSE {})      \* the empty list literal is a value, not null
  \cup (IF IsIntList(T, 0) THEN {<<VInt(9)>>} ELSE {})
  \cup (IF IsIntList(T, 1) THEN {<<VList(<<VInt(9)>>)>>, <<VInt(9)>>} ELSE {})
  \cup (IF IsIntList(T, 2) THEN {<<VList(<<VList(<<VInt(9)>>)>>)>>, <<VList(<<VInt(8), VInt(9)>>)>>, <<VInt(9)>>} ELSE {})
  \cup (IF T.k = "named" /\ T.name = "In" THEN {<<GoodIn>>, <<VMap(<<Ent("a", VInt(5)), Ent("b", GoodIn)>>)>>} ELSE {})

VARIABLES T, def, given
vars == <<T, def, given>>
Init == /\ T \in Types
        /\ def \in Defaults(T)
        /\ given \in {<<>>} \cup {<<x>> : x \in Gen(T)}
Next == UNCHANGED vars
Spec == Init /\ [][Next]_vars

Exp == CoerceVar(T, def, given)
Emit == PrintT(<<"CASE", ToJson([t |-> T, def |-> def, given |-> given, exp |-> Exp])>>)

\* design-level theorems
Sound == (given # <<>> /\ Exp.ok) => Conforms(T, Exp.val)
Idempotent == (given # <<>> /\ Exp.ok) => (Coerce(T, Exp.val, FALSE).ok /\ Coerce(T, Exp.val, FALSE).val = Exp.val)
Identity == (given # <<>> /\ given[1].k # "num" /\ T.k = "named" /\ Conforms(T, given[1])) => (Exp.ok /\ Exp.val = given[1])
Complete == (given # <<>> /\ ~Exp.ok) => ~Conforms(T, given[1]) \/ given[1].k = "num"
=============================================================================
