------------------------------- MODULE Lexer -------------------------------
(***************************************************************************)
(* The GraphQL (October 2021) lexical grammar as a character-step          *)
(* transducer over Unicode code points.                                    *)
(*                                                                         *)
(* One definition, Step(st, c), is used three ways:                        *)
(*   - as the next-state relation of the bounded model (Lexer_MC.tla):     *)
(*     TLC explores every string up to MaxLen over a small alphabet and    *)
(*     the dumped state graph is replayed, path by path, into the real     *)
(*     lexer.ReadToken;                                                    *)
(*   - folded over a whole input by LexAll(src), which the trace           *)
(*     specifications use to validate token streams and positions          *)
(*     recorded from the real code;                                        *)
(*   - as the lexer under the specification's own parser (SpecParse) in    *)
(*     the round-trip properties.                                          *)
(*                                                                         *)
(* Strict behaviour is the grammar.  Each known deviation of the code is   *)
(* one named switch in the constant set Devs; with Devs = {} this is the   *)
(* property.                                                               *)
(***************************************************************************)
EXTENDS Integers, Sequences, FiniteSets, SequencesExt

CONSTANT Devs

TAB == 9    LF == 10    CR == 13    SP == 32    QUOTE == 34   HASH == 35
PLUS == 43  COMMA == 44 MINUS == 45 DOT == 46   SLASH == 47   BSL == 92
BOM == 65279

IsDigit(c)     == c >= 48 /\ c <= 57
IsLetter(c)    == (c >= 65 /\ c <= 90) \/ (c >= 97 /\ c <= 122)
IsNameStart(c) == IsLetter(c) \/ c = 95
IsNameCont(c)  == IsNameStart(c) \/ IsDigit(c)
IsExpLetter(c) == c = 69 \/ c = 101
IsHex(c)       == IsDigit(c) \/ (c >= 65 /\ c <= 70) \/ (c >= 97 /\ c <= 102)
HexVal(c)      == IF IsDigit(c) THEN c - 48 ELSE IF c >= 97 THEN c - 87 ELSE c - 55
IsSourceChar(c) == c = TAB \/ c = LF \/ c = CR \/ c >= 32
\* characters that may not appear raw in a quoted string / comment
IsCtl(c)       == c < 32 /\ c # TAB /\ c # LF /\ c # CR
IsLineTerm(c)  == c = LF \/ c = CR

PunctKind(c) ==
  CASE c = 33 -> "Bang"     [] c = 36 -> "Dollar"   [] c = 38 -> "Amp"
    [] c = 40 -> "ParenL"   [] c = 41 -> "ParenR"   [] c = 58 -> "Colon"
    [] c = 61 -> "Equals"   [] c = 64 -> "At"       [] c = 91 -> "BracketL"
    [] c = 93 -> "BracketR" [] c = 123 -> "BraceL"  [] c = 124 -> "Pipe"
    [] c = 125 -> "BraceR"  [] OTHER -> ""
IsPunct(c) == PunctKind(c) # ""

\* A token as emitted by one step.  w = "pre": the token ended before the
\* character read by this step; w = "post": this character completes it.
Tok(k, s, e, l, c, w) == [k |-> k, s |-> s, e |-> e, l |-> l, c |-> c, w |-> w]

Init0 == [mode |-> "start", pos |-> 0, ts |-> 0, line |-> 1, ls |-> 0,
          tl |-> 1, tc |-> 1, hex |-> <<>>, qrun |-> 0,
          out |-> <<>>, appPre |-> <<>>, reset |-> FALSE, app |-> <<>>]

Done(st) == st.mode \in {"err", "eof"}

\* line / column reported for a quoted token that began at (tl, tc)
StrLC(st, quotes) ==
  IF quotes = 3 /\ "BlockStringEndLine" \in Devs
  THEN <<st.line, (st.ts + 3) - st.ls + 1>>
  ELSE IF "StringColAfterQuote" \in Devs THEN <<st.tl, st.tc + quotes>>
  ELSE <<st.tl, st.tc>>

Fail(st, pre) ==
  [st EXCEPT !.mode = "err",
             !.out = pre \o <<Tok("ERR", st.ts, st.pos, st.line, st.pos - st.ls + 1, "post")>>]

\* The pending token that a non-continuing character (or the end of input)
\* flushes; <<>> when the current mode holds no complete token.
Pending(st, p) ==
  CASE st.mode = "name"               -> <<Tok("Name",    st.ts, p, st.tl, st.tc, "pre")>>
    [] st.mode \in {"int0", "int"}    -> <<Tok("Int",     st.ts, p, st.tl, st.tc, "pre")>>
    [] st.mode \in {"frac", "exp"}    -> <<Tok("Float",   st.ts, p, st.tl, st.tc, "pre")>>
    [] st.mode = "cmt"                -> <<Tok("Comment", st.ts, p, st.tl, st.tc, "pre")>>
    [] st.mode = "q2"                 -> <<Tok("String",  st.ts, p, StrLC(st, 1)[1], StrLC(st, 1)[2], "pre")>>
    [] st.mode = "bqrun"              -> <<Tok("BlockString", st.ts, (p - st.qrun) + 3,
                                                StrLC(st, 3)[1], StrLC(st, 3)[2], "pre")>>
    [] OTHER                          -> <<>>

\* c read at offset p while no token is in progress (or right after a flush).
FromStart(st, c, p, pre, afterCR) ==
  LET begin(m, ap) == [st EXCEPT !.mode = m, !.ts = p, !.tl = st.line, !.tc = p - st.ls + 1,
                                 !.reset = TRUE, !.app = ap, !.out = pre, !.hex = <<>>, !.qrun = 0]
  IN
  CASE IsPunct(c)     -> [begin("start", <<>>) EXCEPT
                            !.out = pre \o <<Tok(PunctKind(c), p, p + 1, st.line, p - st.ls + 1, "post")>>]
    [] IsNameStart(c) -> begin("name", <<c>>)
    [] c = 48         -> begin("int0", <<c>>)
    [] IsDigit(c)     -> begin("int", <<c>>)
    [] c = MINUS      -> begin("minus", <<c>>)
    [] c = DOT        -> begin("dot1", <<>>)
    [] c = QUOTE      -> begin("q1", <<>>)
    [] c = HASH       -> begin("cmt", <<c>>)
    [] c \in {SP, TAB, COMMA, BOM} -> [st EXCEPT !.mode = "start", !.out = pre]
    [] c = LF         -> IF afterCR
                         THEN [st EXCEPT !.mode = "start", !.out = pre,
                                         !.ls = IF "CRLFColumn" \in Devs THEN st.ls ELSE p + 1]
                         ELSE [st EXCEPT !.mode = "start", !.out = pre, !.line = st.line + 1, !.ls = p + 1]
    [] c = CR         -> [st EXCEPT !.mode = "cr", !.out = pre, !.line = st.line + 1, !.ls = p + 1]
    [] OTHER          -> Fail([st EXCEPT !.ts = p], pre)

\* c read inside a block string body; ap = characters that the pending
\* look-ahead (a backslash and/or quotes) turned out to be.
BlockChar(st, c, p, ap, afterCR) ==
  CASE c = QUOTE -> [st EXCEPT !.mode = "bq1", !.app = ap]
    [] c = BSL   -> [st EXCEPT !.mode = "besc", !.app = ap]
    [] c = CR    -> [st EXCEPT !.mode = "bcr", !.app = ap \o <<LF>>, !.line = st.line + 1, !.ls = p + 1]
    [] c = LF    -> IF afterCR THEN [st EXCEPT !.mode = "bstr", !.app = ap, !.ls = p + 1]
                    ELSE [st EXCEPT !.mode = "bstr", !.app = ap \o <<LF>>, !.line = st.line + 1, !.ls = p + 1]
    [] IsCtl(c)  -> Fail(st, <<>>)
    [] OTHER     -> [st EXCEPT !.mode = "bstr", !.app = ap \o <<c>>]

NumFollow(c) == IsDigit(c) \/ c = DOT \/ IsNameStart(c)

Step(st0, c) ==
  LET p  == st0.pos
      st == [st0 EXCEPT !.pos = p + 1, !.out = <<>>, !.appPre = <<>>, !.reset = FALSE, !.app = <<>>]
      m  == st0.mode
      flush == FromStart(st, c, p, Pending(st0, p), FALSE)
      \* strict: a number may not be followed by a digit, a dot or a name start
      numEnd == IF NumFollow(c) /\ "NumNoLookahead" \notin Devs THEN Fail(st, <<>>) ELSE flush
      stay(ap) == [st EXCEPT !.app = ap]
      to(md) == [st EXCEPT !.mode = md]
  IN
  CASE m \in {"start", "cr"} -> FromStart(st, c, p, <<>>, m = "cr")
    [] m = "name"  -> IF IsNameCont(c) THEN stay(<<c>>) ELSE flush
    [] m = "minus" -> IF c = 48 THEN [to("int0") EXCEPT !.app = <<c>>]
                      ELSE IF IsDigit(c) THEN [to("int") EXCEPT !.app = <<c>>]
                      ELSE Fail(st, <<>>)
    [] m = "int0"  -> IF IsDigit(c) THEN Fail(st, <<>>)
                      ELSE IF c = DOT THEN [to("frac0") EXCEPT !.app = <<c>>]
                      ELSE IF IsExpLetter(c) THEN [to("exp0") EXCEPT !.app = <<c>>]
                      ELSE numEnd
    [] m = "int"   -> IF IsDigit(c) THEN stay(<<c>>)
                      ELSE IF c = DOT THEN [to("frac0") EXCEPT !.app = <<c>>]
                      ELSE IF IsExpLetter(c) THEN [to("exp0") EXCEPT !.app = <<c>>]
                      ELSE numEnd
    [] m = "frac0" -> IF IsDigit(c) THEN [to("frac") EXCEPT !.app = <<c>>] ELSE Fail(st, <<>>)
    [] m = "frac"  -> IF IsDigit(c) THEN stay(<<c>>)
                      ELSE IF IsExpLetter(c) THEN [to("exp0") EXCEPT !.app = <<c>>]
                      ELSE numEnd
    [] m = "exp0"  -> IF IsDigit(c) THEN [to("exp") EXCEPT !.app = <<c>>]
                      ELSE IF c = PLUS \/ c = MINUS THEN [to("exps") EXCEPT !.app = <<c>>]
                      ELSE Fail(st, <<>>)
    [] m = "exps"  -> IF IsDigit(c) THEN [to("exp") EXCEPT !.app = <<c>>] ELSE Fail(st, <<>>)
    [] m = "exp"   -> IF IsDigit(c) THEN stay(<<c>>) ELSE numEnd
    [] m = "dot1"  -> IF c = DOT THEN to("dot2") ELSE Fail(st, <<>>)
    [] m = "dot2"  -> IF c = DOT
                      THEN [to("start") EXCEPT !.out = <<Tok("Spread", st.ts, p + 1, st.tl, st.tc, "post")>>]
                      ELSE Fail(st, <<>>)
    [] m = "cmt"   -> IF IsLineTerm(c) \/ IsCtl(c) THEN flush ELSE stay(<<c>>)
    [] m = "q1"    -> IF c = QUOTE THEN to("q2")
                      ELSE IF c = BSL THEN to("esc")
                      ELSE IF IsLineTerm(c) \/ IsCtl(c) THEN Fail(st, <<>>)
                      ELSE [to("str") EXCEPT !.app = <<c>>]
    [] m = "q2"    -> IF c = QUOTE THEN to("bstr") ELSE flush
    [] m = "str"   -> IF c = QUOTE
                      THEN [to("start") EXCEPT !.out = <<Tok("String", st.ts, p + 1,
                                                            StrLC(st, 1)[1], StrLC(st, 1)[2], "post")>>]
                      ELSE IF c = BSL THEN to("esc")
                      ELSE IF IsLineTerm(c) \/ IsCtl(c) THEN Fail(st, <<>>)
                      ELSE stay(<<c>>)
    [] m = "esc"   -> CASE c \in {QUOTE, BSL, SLASH} -> [to("str") EXCEPT !.app = <<c>>]
                        [] c = 98  -> [to("str") EXCEPT !.app = <<8>>]
                        [] c = 102 -> [to("str") EXCEPT !.app = <<12>>]
                        [] c = 110 -> [to("str") EXCEPT !.app = <<10>>]
                        [] c = 114 -> [to("str") EXCEPT !.app = <<13>>]
                        [] c = 116 -> [to("str") EXCEPT !.app = <<9>>]
                        [] c = 117 -> [to("hex") EXCEPT !.hex = <<>>]
                        [] OTHER   -> Fail(st, <<>>)
    [] m = "hex"   -> IF ~IsHex(c) THEN Fail(st, <<>>)
                      ELSE IF Len(st.hex) < 3 THEN [st EXCEPT !.hex = Append(st.hex, HexVal(c))]
                      ELSE [to("str") EXCEPT !.hex = <<>>,
                               !.app = <<((st.hex[1] * 16 + st.hex[2]) * 16 + st.hex[3]) * 16 + HexVal(c)>>]
    [] m = "bstr"  -> BlockChar(st, c, p, <<>>, FALSE)
    [] m = "bcr"   -> BlockChar(st, c, p, <<>>, TRUE)
    [] m = "besc"  -> IF c = QUOTE THEN to("besc1") ELSE BlockChar(st, c, p, <<BSL>>, FALSE)
    [] m = "besc1" -> IF c = QUOTE THEN to("besc2") ELSE BlockChar(st, c, p, <<BSL, QUOTE>>, FALSE)
    [] m = "besc2" -> IF c = QUOTE THEN [to("bstr") EXCEPT !.app = <<QUOTE, QUOTE, QUOTE>>]
                      ELSE BlockChar(st, c, p, <<BSL, QUOTE, QUOTE>>, FALSE)
    [] m = "bq1"   -> IF c = QUOTE THEN to("bq2") ELSE BlockChar(st, c, p, <<QUOTE>>, FALSE)
    [] m = "bq2"   -> IF c = QUOTE
                      THEN IF "BlockCloseLast3" \in Devs THEN [to("bqrun") EXCEPT !.qrun = 3]
                           ELSE [to("start") EXCEPT !.out = <<Tok("BlockString", st.ts, p + 1,
                                                                 StrLC(st, 3)[1], StrLC(st, 3)[2], "post")>>]
                      ELSE BlockChar(st, c, p, <<QUOTE, QUOTE>>, FALSE)
    [] m = "bqrun" -> IF c = QUOTE THEN [st EXCEPT !.qrun = st.qrun + 1]
                      ELSE [flush EXCEPT !.appPre = [i \in 1..(st0.qrun - 3) |-> QUOTE]]
    [] OTHER       -> st0

\* End of input.
End(st0) ==
  LET p  == st0.pos
      st == [st0 EXCEPT !.out = <<>>, !.appPre = <<>>, !.reset = FALSE, !.app = <<>>]
      eof == Tok("EOF", p, p, st.line, p - st.ls + 1, "post")
  IN
  IF st0.mode \in {"start", "cr"} THEN [st EXCEPT !.mode = "eof", !.out = <<eof>>, !.reset = TRUE]
  ELSE IF Pending(st0, p) # <<>>
       THEN [st EXCEPT !.mode = "eof", !.out = Pending(st0, p) \o <<eof>>,
                       !.appPre = IF st0.mode = "bqrun" THEN [i \in 1..(st0.qrun - 3) |-> QUOTE] ELSE <<>>]
  ELSE Fail(st, <<>>)

-----------------------------------------------------------------------------
(* BlockStringValue(rawValue), GraphQL October 2021 section 2.9.4.  raw    *)
(* is the body with line terminators already normalised to LF.            *)

SplitLF(raw) ==
  LET f(acc, c) == IF c = LF THEN Append(acc, <<>>)
                   ELSE [acc EXCEPT ![Len(acc)] = Append(acc[Len(acc)], c)]
  IN FoldLeft(f, << <<>> >>, raw)

IsWS(c) == c = SP \/ c = TAB
LeadWS(l) == LET idx == {i \in 1..Len(l) : ~IsWS(l[i])}
             IN IF idx = {} THEN Len(l) ELSE Min(idx) - 1
Blank(l) == LeadWS(l) = Len(l)

BlockStringValue(raw) ==
  LET lines == SplitLF(raw)
      from  == IF "BlockIndentFirstLine" \in Devs THEN 1 ELSE 2
      cand  == {LeadWS(lines[i]) : i \in {j \in from..Len(lines) : ~Blank(lines[j])}}
      hasCI == cand # {}
      ci    == IF hasCI THEN Min(cand) ELSE 0
      cut(l) == IF Len(l) <= ci THEN <<>> ELSE SubSeq(l, ci + 1, Len(l))
      ls2   == [i \in 1..Len(lines) |-> IF i = 1 THEN lines[1] ELSE cut(lines[i])]
      nb    == {i \in 1..Len(ls2) : ~Blank(ls2[i])}
  IN IF nb = {} THEN <<>>
     ELSE LET a == Min(nb)  b == Max(nb)
              join(acc, i) == IF i = a THEN ls2[i] ELSE acc \o <<LF>> \o ls2[i]
          IN FoldLeft(join, <<>>, [k \in 1..(b - a + 1) |-> a + k - 1])

-----------------------------------------------------------------------------
(* Whole-input lexing: the fold of Step.  Returns [toks, err] where toks   *)
(* are [k, s, e, l, c, v] and err says that the grammar admits no token    *)
(* after the last one listed.                                              *)

Valued == {"Name", "Int", "Float", "String", "BlockString", "Comment"}

EmitAll(acc, st) ==
  \* acc = [val, toks]; apply the outputs of one step
  LET val1 == acc.val \o st.appPre
      mk(t, v) == [k |-> t.k, s |-> t.s, e |-> t.e, l |-> t.l, c |-> t.c,
                   v |-> IF t.k = "BlockString" THEN BlockStringValue(v)
                         ELSE IF t.k \in Valued THEN v ELSE <<>>]
      pre  == SelectSeq(st.out, LAMBDA t : t.w = "pre")
      post == SelectSeq(st.out, LAMBDA t : t.w = "post")
      toks1 == acc.toks \o [i \in 1..Len(pre) |-> mk(pre[i], val1)]
      val2 == (IF st.reset THEN <<>> ELSE val1) \o st.app
      toks2 == toks1 \o [i \in 1..Len(post) |-> mk(post[i], val2)]
  IN [val |-> val2, toks |-> toks2]

LexAll(src) ==
  LET f(acc, c) == IF Done(acc.st) THEN acc
                   ELSE LET n == Step(acc.st, c)
                            e == EmitAll([val |-> acc.val, toks |-> acc.toks], n)
                        IN [st |-> n, val |-> e.val, toks |-> e.toks]
      r == FoldLeft(f, [st |-> Init0, val |-> <<>>, toks |-> <<>>], src)
      z == IF Done(r.st) THEN r
           ELSE LET n == End(r.st)
                    e == EmitAll([val |-> r.val, toks |-> r.toks], n)
                IN [st |-> n, val |-> e.val, toks |-> e.toks]
      good == SelectSeq(z.toks, LAMBDA t : t.k # "ERR")
  IN [toks |-> good, err |-> z.st.mode = "err"]

-----------------------------------------------------------------------------
(* Closed-form positions (used by the truthful-position property).         *)

\* number of line terminators (LF, CR, CRLF counted once) wholly before offset off
TermEnds(src) ==
  \* set of offsets o (0-based, o = index after the terminator) at which a line starts
  {o \in 1..Len(src) :
      \/ src[o] = LF
      \/ (src[o] = CR /\ ~(o < Len(src) /\ src[o + 1] = LF))}
LineOf(src, off)    == 1 + Cardinality({o \in TermEnds(src) : o <= off})
LineStart(src, off) == LET c == {o \in TermEnds(src) : o <= off} IN IF c = {} THEN 0 ELSE Max(c)
ColOf(src, off)     == off - LineStart(src, off) + 1
NumLines(src)       == 1 + Cardinality(TermEnds(src))

\* lengths (in characters, terminators excluded) of the lines of src, by one scan
LineLens(src) ==
  LET f(a, c) == IF c = LF THEN (IF a.cr THEN [a EXCEPT !.cr = FALSE]
                                  ELSE [lens |-> Append(a.lens, a.cur), cur |-> 0, cr |-> FALSE])
                 ELSE IF c = CR THEN [lens |-> Append(a.lens, a.cur), cur |-> 0, cr |-> TRUE]
                 ELSE [a EXCEPT !.cur = a.cur + 1, !.cr = FALSE]
      r == FoldLeft(f, [lens |-> <<>>, cur |-> 0, cr |-> FALSE], src)
  IN Append(r.lens, r.cur)
\* (l, c) names a position of src: 1-based, at most one past the last character of its line
InsideInput(src, l, c) == LET lens == LineLens(src) IN l >= 1 /\ l <= Len(lens) /\ c >= 1 /\ c <= lens[l] + 1
=============================================================================
