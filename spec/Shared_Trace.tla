----------------------------- MODULE Shared_Trace -----------------------------
(* C->M.  A case is one run on one shared schema: calls = the operations      *)
(* issued (each with the result hash it returns when run alone on a pristine  *)
(* schema), events = Begin / End records ordered by one atomic sequence       *)
(* number, snaps = canonical deep snapshots of the whole schema graph taken   *)
(* when no call is in flight (before the run, between calls in history mode,  *)
(* after the run), races = number of data-race reports of the Go race         *)
(* detector.  A Recheck record renders the values a call RETURNED once more   *)
(* after later calls have run (errors with their paths, coerced maps,         *)
(* argument maps): what was returned belongs to the caller and must not be    *)
(* rewritten through state shared between calls.                              *)
(* Requirements: every End returns its call's sequential result; so does      *)
(* every Recheck; every call that began ended; all snapshots are equal; no    *)
(* race.                                                                      *)
EXTENDS TLC, Json, IOUtils, Integers, Sequences, FiniteSets

Cases == ndJsonDeserialize(IOEnv.VERIF_TRACE)
VARIABLES i, bad, n
vars == <<i, bad, n>>

Verdict(c) ==
  LET ends == {j \in 1..Len(c.events) : c.events[j].e = "end"}
      begins == {j \in 1..Len(c.events) : c.events[j].e = "begin"}
      wrong == {j \in ends : c.events[j].result # c.calls[c.events[j].call].alone}
      late == {j \in 1..Len(c.events) : c.events[j].e = "recheck" /\ c.events[j].result # c.calls[c.events[j].call].alone}
      drift == {j \in 2..Len(c.snaps) : c.snaps[j] # c.snaps[1]}
  IN IF c.races > 0 THEN [class |-> "data race reported by the race detector", at |-> 0]
     ELSE IF drift # {} THEN [class |-> "the schema changed (snapshot differs from the one taken before the first call)", at |-> CHOOSE j \in drift : \A k \in drift : j <= k]
     ELSE IF wrong # {} THEN [class |-> "a concurrent call returned something else than the same call run alone", at |-> c.events[CHOOSE j \in wrong : TRUE].call]
     ELSE IF late # {} THEN [class |-> "a value a call had returned was rewritten by a later call (state shared between calls)", at |-> c.events[CHOOSE j \in late : TRUE].call]
     ELSE IF Cardinality(ends) # Cardinality(begins) THEN [class |-> "a call did not return", at |-> 0]
     ELSE [class |-> "ok", at |-> 0]

Init == i = 0 /\ bad = <<>> /\ n = 0
Check == /\ i < Len(Cases)
         /\ i' = i + 1
         /\ LET c == Cases[i + 1]
                v == Verdict(c)
            IN /\ bad' = IF v.class = "ok" \/ Len(bad) >= 100 THEN bad ELSE Append(bad, [id |-> c.id, class |-> v.class, at |-> v.at])
               /\ n' = n + Len(c.events)
Finish == /\ i = Len(Cases)
          /\ i' = i + 1
          /\ ndJsonSerialize(IOEnv.VERIF_REPORT, <<[cases |-> i, events |-> n, bad |-> bad]>>)
          /\ UNCHANGED <<bad, n>>
Next == Check \/ Finish
Spec == Init /\ [][Next]_vars
=============================================================================
