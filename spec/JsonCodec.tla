----------------------------- MODULE JsonCodec -----------------------------
(* JSON encode / decode of executable documents, at the level that matters  *)
(* for the round trip: which keys the encoding of each selection kind       *)
(* carries, and how the decoder chooses the kind from the keys.             *)
(*                                                                          *)
(* A selection is [kind, name, alias, cond, sel]; Encode maps it to a       *)
(* JSON-like object (a function from keys to values); Decode discriminates  *)
(* on the key set.  The theorem TLC checks (JsonCodec_MC): for every        *)
(* selection tree of the bounded universe Decode(Encode(s)) = s, which      *)
(* holds because the three key sets are pairwise distinguishable by the     *)
(* decoder's rule.  The trace specification checks that the real encoder    *)
(* emits key sets the rule classifies correctly and that real round trips   *)
(* preserve the whole tree.                                                 *)
EXTENDS Integers, Sequences, FiniteSets, TLC

FieldKeys  == {"Alias", "Name", "Arguments", "Directives", "SelectionSet", "Comment", "Definition", "ObjectDefinition"}
SpreadKeys == {"Name", "Directives", "ObjectDefinition", "Definition", "Comment"}
InlineKeys == {"TypeCondition", "Directives", "SelectionSet", "ObjectDefinition", "Comment"}

\* the decoder's rule (ast.UnmarshalSelectionSet)
Discriminate(keys) ==
  IF "TypeCondition" \in keys THEN "inline"
  ELSE IF "Name" \in keys /\ "Alias" \notin keys THEN "spread"
  ELSE "field"

KeysOf(kind) == CASE kind = "field" -> FieldKeys [] kind = "spread" -> SpreadKeys [] kind = "inline" -> InlineKeys

RECURSIVE Encode(_), Decode(_)
Encode(s) ==
  [keys |-> KeysOf(s.kind), name |-> s.name, alias |-> s.alias, cond |-> s.cond,
   sel |-> [i \in 1..Len(s.sel) |-> Encode(s.sel[i])]]
Decode(j) ==
  LET k == Discriminate(j.keys) IN
  [kind |-> k,
   name |-> IF k = "inline" THEN "" ELSE j.name,
   alias |-> IF k = "field" THEN j.alias ELSE "",
   cond |-> IF k = "inline" THEN j.cond ELSE "",
   sel |-> IF k = "spread" THEN <<>> ELSE [i \in 1..Len(j.sel) |-> Decode(j.sel[i])]]

Discriminable == \A k \in {"field", "spread", "inline"} : Discriminate(KeysOf(k)) = k
=============================================================================
