SPECIFICATION Spec
CONSTANTS
  D = 3
  Leaves = {"Int", "Str"}
INVARIANTS Emit EmitKinds KindLaws TwoDefinitionsAgree Reflexive Antisymmetric ShapeAndName NullableWider StricterFits StrInjective Transitive
CHECK_DEADLOCK FALSE
