-------------------------------- MODULE Printer --------------------------------
(* Round trips through the formatter, stated with the SPECIFICATION's own       *)
(* parser: SpecParseQuery / SpecParseSchema lex a text (code points) with       *)
(* Lexer.tla, classify the tokens, run the grammar automaton and build the tree  *)
(* its events denote.  Because this parser shares nothing with the library, an   *)
(* error of the formatter cannot be cancelled by a matching error of the         *)
(* library's parser.  Leaf texts are sequences of code points.                   *)
EXTENDS Integers, Sequences, FiniteSets, SequencesExt

CONSTANTS LexDevs, GrammarDevs
L  == INSTANCE Lexer WITH Devs <- LexDevs
QG == INSTANCE QueryGrammar WITH Devs <- GrammarDevs
SG == INSTANCE SchemaGrammar WITH Devs <- GrammarDevs

\* code points of the keywords and constants the grammars know
KW == [on |-> <<111, 110>>, query |-> <<113, 117, 101, 114, 121>>, mutation |-> <<109, 117, 116, 97, 116, 105, 111, 110>>,
       subscription |-> <<115, 117, 98, 115, 99, 114, 105, 112, 116, 105, 111, 110>>,
       fragment |-> <<102, 114, 97, 103, 109, 101, 110, 116>>, true |-> <<116, 114, 117, 101>>, false |-> <<102, 97, 108, 115, 101>>,
       null |-> <<110, 117, 108, 108>>, schema |-> <<115, 99, 104, 101, 109, 97>>, scalar |-> <<115, 99, 97, 108, 97, 114>>,
       type |-> <<116, 121, 112, 101>>, interface |-> <<105, 110, 116, 101, 114, 102, 97, 99, 101>>, union |-> <<117, 110, 105, 111, 110>>,
       enum |-> <<101, 110, 117, 109>>, input |-> <<105, 110, 112, 117, 116>>, directive |-> <<100, 105, 114, 101, 99, 116, 105, 118, 101>>,
       extend |-> <<101, 120, 116, 101, 110, 100>>, implements |-> <<105, 109, 112, 108, 101, 109, 101, 110, 116, 115>>,
       repeatable |-> <<114, 101, 112, 101, 97, 116, 97, 98, 108, 101>>]

PunctClass(k) == CASE k = "Bang" -> "BANG" [] k = "Dollar" -> "DOLLAR" [] k = "Amp" -> "AMP" [] k = "ParenL" -> "LP" [] k = "ParenR" -> "RP"
                   [] k = "Spread" -> "SPREAD" [] k = "Colon" -> "COLON" [] k = "Equals" -> "EQ" [] k = "At" -> "AT"
                   [] k = "BracketL" -> "LK" [] k = "BracketR" -> "RK" [] k = "BraceL" -> "LB" [] k = "BraceR" -> "RB" [] k = "Pipe" -> "PIPE"
                   [] OTHER -> "?"

QueryClass(t) ==
  CASE t.k = "Name" -> (CASE t.v = KW.on -> "ON" [] t.v \in {KW.query, KW.mutation, KW.subscription} -> "OP" [] t.v = KW.fragment -> "FRAGMENT"
                          [] t.v \in {KW.true, KW.false} -> "BOOL" [] t.v = KW.null -> "NULL" [] OTHER -> "NAME")
    [] t.k = "Int" -> "INT" [] t.k = "Float" -> "FLOAT" [] t.k \in {"String", "BlockString"} -> "STR"
    [] t.k = "Amp" -> "PIPE"
    [] OTHER -> PunctClass(t.k)

\* the 19 directive locations, as code points, are supplied by the trace (Locs) to keep this module small
SchemaClass(t, Locs) ==
  CASE t.k = "Name" ->
         (CASE t.v = KW.schema -> "SCHEMA" [] t.v = KW.scalar -> "SCALAR" [] t.v = KW.type -> "TYPE" [] t.v = KW.interface -> "INTERFACE"
            [] t.v = KW.union -> "UNION" [] t.v = KW.enum -> "ENUM" [] t.v = KW.input -> "INPUT" [] t.v = KW.directive -> "DIRECTIVE"
            [] t.v = KW.extend -> "EXTEND" [] t.v = KW.implements -> "IMPLEMENTS" [] t.v = KW.repeatable -> "REPEATABLE" [] t.v = KW.on -> "ON"
            [] t.v \in {KW.query, KW.mutation, KW.subscription} -> "OP" [] t.v \in {KW.true, KW.false} -> "BOOL" [] t.v = KW.null -> "NULL"
            [] t.v \in Locs -> "LOC" [] OTHER -> "NAME")
    [] t.k = "Int" -> "INT" [] t.k = "Float" -> "FLOAT" [] t.k \in {"String", "BlockString"} -> "STR"
    [] OTHER -> PunctClass(t.k)

Significant(toks) == SelectSeq(toks, LAMBDA t : t.k \notin {"Comment", "EOF"})

\* constants the grammars emit as strings, as code points
ConstCps(s) == CASE s = "!" -> <<33>> [] s = "query" -> KW.query [] s = "repeatable" -> KW.repeatable
                 [] s = "SCALAR" -> <<83, 67, 65, 76, 65, 82>> [] s = "OBJECT" -> <<79, 66, 74, 69, 67, 84>>
                 [] s = "INTERFACE" -> <<73, 78, 84, 69, 82, 70, 65, 67, 69>> [] s = "UNION" -> <<85, 78, 73, 79, 78>>
                 [] s = "ENUM" -> <<69, 78, 85, 77>> [] s = "INPUT_OBJECT" -> <<73, 78, 80, 85, 84, 95, 79, 66, 74, 69, 67, 84>>
                 [] OTHER -> <<>>
\* the grammars emit a few constant leaves (strings); here every leaf text is a sequence of code points, so
\* constant events are turned into leaf events that refer to entries appended to the token texts
ConstTable == <<"!", "query", "repeatable", "SCALAR", "OBJECT", "INTERFACE", "UNION", "ENUM", "INPUT_OBJECT">>
IdxOf(s) == CHOOSE j \in 1..Len(ConstTable) : ConstTable[j] = s
Deconst(evs, n) == [j \in 1..Len(evs) |-> IF evs[j].e = "const"
                                            THEN [e |-> "leaf", t |-> evs[j].t, i |-> n + IdxOf(evs[j].v), v |-> ""]
                                            ELSE evs[j]]
Texts(toks) == [j \in 1..Len(toks) |-> toks[j].v] \o [j \in 1..Len(ConstTable) |-> ConstCps(ConstTable[j])]

OpsFirst(ns) == SelectSeq(ns, LAMBDA x : x.t # "frag") \o SelectSeq(ns, LAMBDA x : x.t = "frag")

SpecParseQuery(text) ==
  LET lx == L!LexAll(text) IN
  IF lx.err THEN [ok |-> FALSE, why |-> "does not lex", tree |-> <<>>]
  ELSE LET toks == Significant(lx.toks)
           p == QG!ParseClasses([j \in 1..Len(toks) |-> QueryClass(toks[j])])
       IN IF ~p.ok THEN [ok |-> FALSE, why |-> "not derivable from the executable grammar", tree |-> <<>>]
          ELSE [ok |-> TRUE, why |-> "", tree |-> OpsFirst(QG!BuildTreeE(Deconst(p.ev, Len(toks)), Texts(toks), <<>>))]

SchemaRank(x) == CASE x.t = "schema" -> 1 [] x.t = "extschema" -> 2 [] x.t = "dirdef" -> 3 [] x.t = "def" -> 4 [] OTHER -> 5
RECURSIVE DropEmptyDesc(_)
DropEmptyDesc(ns) == LET keep == SelectSeq(ns, LAMBDA x : ~(x.t = "desc" /\ x.v = <<>>))
                     IN [j \in 1..Len(keep) |-> [keep[j] EXCEPT !.k = DropEmptyDesc(@)]]
SchemaOrder(ns0) == LET ns == DropEmptyDesc(ns0)
                        pick(r) == SelectSeq(ns, LAMBDA x : SchemaRank(x) = r)
                    IN pick(1) \o pick(2) \o pick(3) \o pick(4) \o pick(5)

\* The formatter prints all schema definitions of a document as one item and
\* all schema extensions as one item (descriptions concatenated, directives
\* first, then operation types): the same extension of the same schema.  Both
\* sides of the comparison are brought to that form.
MergeItems(its) ==
  LET descs == FoldLeft(LAMBDA acc, x : FoldLeft(LAMBDA a2, y : IF y.t = "desc" THEN a2 \o y.v ELSE a2, acc, x.k), <<>>, its)
      kids(tg) == FoldLeft(LAMBDA acc, x : acc \o SelectSeq(x.k, LAMBDA y : y.t = tg), <<>>, its)
  IN IF Len(its) <= 1 THEN its
     ELSE <<[t |-> its[1].t, v |-> its[1].v,
             k |-> (IF descs = <<>> THEN <<>> ELSE <<[t |-> "desc", v |-> descs, k |-> <<>>]>>) \o kids("dir") \o kids("optype")]>>
MergeSchemaItems(ns) == MergeItems(SelectSeq(ns, LAMBDA x : x.t = "schema")) \o MergeItems(SelectSeq(ns, LAMBDA x : x.t = "extschema"))
                        \o SelectSeq(ns, LAMBDA x : x.t \notin {"schema", "extschema"})

SpecParseSchema(text, Locs) ==
  LET lx == L!LexAll(text) IN
  IF lx.err THEN [ok |-> FALSE, why |-> "does not lex", tree |-> <<>>]
  ELSE LET toks == Significant(lx.toks)
           p == SG!ParseClasses([j \in 1..Len(toks) |-> SchemaClass(toks[j], Locs)])
       IN IF ~p.ok THEN [ok |-> FALSE, why |-> "not derivable from the type-system grammar", tree |-> <<>>]
          ELSE [ok |-> TRUE, why |-> "", tree |-> SchemaOrder(SG!BuildTreeE(Deconst(p.ev, Len(toks)), Texts(toks), <<>>))]
=============================================================================
