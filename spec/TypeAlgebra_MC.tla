---------------------------- MODULE TypeAlgebra_MC ----------------------------
(* Every ordered pair of type references of list depth <= D over the names  *)
(* in Leaves: the laws of the relation are checked as invariants, and each  *)
(* pair is printed once with the expected results of ast.Type.String,       *)
(* Name and IsCompatible (terminal-state print) for replay into the code.   *)
EXTENDS TypeAlgebra, TLC, Json
CONSTANTS D, Leaves

RECURSIVE TypesOfDepth(_)
TypesOfDepth(d) ==
  IF d = 0 THEN {Named(n, nn) : n \in Leaves, nn \in BOOLEAN}
  ELSE TypesOfDepth(d - 1) \cup {ListOf(t, nn) : t \in TypesOfDepth(d - 1), nn \in BOOLEAN}
Types == TypesOfDepth(D)

VARIABLES a, b
vars == <<a, b>>
Init == a \in Types /\ b \in Types
Next == UNCHANGED vars
Spec == Init /\ [][Next]_vars

Emit == PrintT(<<"CASE", ToJson([a |-> a, b |-> b, astr |-> TypeStr(a), aname |-> BaseName(a), compat |-> Compatible(a, b)])>>)

\* the kind table, printed once (from the initial state whose two types are the least of the universe)
KindRows == [k \in Kinds |-> [leaf |-> IsLeafKind(k), abstract |-> IsAbstractKind(k), composite |-> IsCompositeKind(k), input |-> IsInputKind(k)]]
EmitKinds == (a = b /\ a.k = "named" /\ ~a.nn) => PrintT(<<"KINDS", ToJson([name |-> a.name, rows |-> KindRows])>>)
\* every kind is input or output, only leaves are both, abstract kinds are composite
KindLaws == \A k \in Kinds : /\ (IsInputKind(k) \/ IsOutputKind(k))
                              /\ ((IsInputKind(k) /\ IsOutputKind(k)) <=> IsLeafKind(k))
                              /\ (IsAbstractKind(k) => IsCompositeKind(k))
                              /\ (IsCompositeKind(k) => IsOutputKind(k) /\ ~IsInputKind(k))

\* laws
TwoDefinitionsAgree == Compatible(a, b) = CompatibleByCases(a, b)
Reflexive     == Compatible(a, a)
Antisymmetric == (Compatible(a, b) /\ Compatible(b, a)) => a = b
ShapeAndName  == Compatible(a, b) => (SameShape(a, b) /\ BaseName(a) = BaseName(b) /\ Depth(a) = Depth(b))
NullableWider == Compatible(a, b) => Compatible(a, Nullable(b))
StricterFits  == Compatible(a, b) => Compatible([a EXCEPT !.nn = TRUE], b)
StrInjective  == (TypeStr(a) = TypeStr(b)) = (a = b)
\* transitivity over all triples (c ranges over the same universe)
Transitive    == \A c \in Types : (Compatible(a, b) /\ Compatible(b, c)) => Compatible(a, c)
=============================================================================
