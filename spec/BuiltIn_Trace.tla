---------------------------- MODULE BuiltIn_Trace ----------------------------
(* C->M for the last clause of C06 and for lists of sources: one call of     *)
(* parser.ParseSchemas (or ...WithLimit(0, ...)) on several sources, some of *)
(* them flagged built-in, in any order.  A case:                             *)
(*   parts   <<tree>>  the document each source yields when parsed alone     *)
(*   merged  tree      the document the one call yields                      *)
(*   defs    <<[name, src (index of the source its position names, 0 =      *)
(*           none of them), flag (its BuiltIn), srcflag (that source's)]>>   *)
(* Requirements: the merged document lists exactly what the sources list,    *)
(* source after source (per AST list); every definition and extension names  *)
(* the source it came from and is marked built-in exactly when THAT source   *)
(* is - whatever stands before or after it.                                  *)
EXTENDS Printer, TLC, Json, IOUtils

Cases == ndJsonDeserialize(IOEnv.VERIF_TRACE)
VARIABLES i, bad, n
vars == <<i, bad, n>>

Concat(parts) == FoldLeft(LAMBDA acc, p : acc \o p, <<>>, parts)

Verdict(c) ==
  LET wrong == {j \in 1..Len(c.defs) : c.defs[j].src = 0 \/ c.defs[j].flag # c.defs[j].srcflag}
  IN IF c.merged # SchemaOrder(Concat(c.parts)) THEN [class |-> "the document of a list of sources is not the concatenation of the documents of its sources", at |-> ""]
     ELSE IF wrong # {} THEN LET j == CHOOSE j \in wrong : TRUE IN
          [class |-> IF c.defs[j].src = 0 THEN "a definition does not name the source it came from"
                     ELSE "BuiltIn flag of a definition differs from the flag of the source it came from", at |-> c.defs[j].name]
     ELSE [class |-> "ok", at |-> ""]

Init == i = 0 /\ bad = <<>> /\ n = 0
Check == /\ i < Len(Cases)
         /\ i' = i + 1
         /\ LET c == Cases[i + 1]
                v == Verdict(c)
            IN /\ bad' = IF v.class = "ok" \/ Len(bad) >= 100 THEN bad ELSE Append(bad, [id |-> c.id, class |-> v.class, at |-> v.at])
               /\ n' = n + Len(c.defs)
Finish == /\ i = Len(Cases)
          /\ i' = i + 1
          /\ ndJsonSerialize(IOEnv.VERIF_REPORT, <<[cases |-> i, events |-> n, bad |-> bad]>>)
          /\ UNCHANGED <<bad, n>>
Next == Check \/ Finish
Spec == Init /\ [][Next]_vars
=============================================================================
