------------------------------ MODULE Total2_Trace ------------------------------
(* C->M for totality of validation and loading (C02).  The harness observes  *)
(* termination and crashes of the real code in a child process; a case that  *)
(* reaches this file returned normally.  Each case carries the size of the    *)
(* input and the deterministic recursion step counters of hook H2 per site:   *)
(*   1 walkSelection   2 introspection-depth spread   3 findConflict          *)
(*   4 fields-and-fragment   5 between-fragments   6 no-fragment-cycles       *)
(*   7 subscription top fields                                                *)
(* and the specification checks them against polynomial bounds in the size    *)
(* (nodes = selections of the document, frags, ops), so that "validation      *)
(* time is polynomial" is decided without a clock.  kind = "load" cases only  *)
(* assert the schema-or-error outcome.                                        *)
EXTENDS TLC, Json, IOUtils, Integers, Sequences, FiniteSets

Cases == ndJsonDeserialize(IOEnv.VERIF_TRACE)
VARIABLES i, bad, n
vars == <<i, bad, n>>

Cap(x) == IF x > 150 THEN 150 ELSE x
P1(x) == Cap(x) + 1
Bound(site, c) ==
  LET nd == P1(c.nodes)  fr == P1(c.frags)  op == P1(c.ops) IN
  CASE site = 1 -> 2 * (op + fr) * nd     \* (the document is walked twice: once to link it, once with the rules observing)
    [] site = 2 -> 4 * nd * nd
    [] site = 3 -> nd * nd * nd * nd
    [] site = 4 -> nd * nd * nd * nd
    [] site = 5 -> nd * nd * nd * nd
    [] site = 6 -> 2 * nd * fr
    [] site = 7 -> op * nd
    [] OTHER -> 0

SiteName(s) == CASE s = 1 -> "walkSelection" [] s = 2 -> "introspection depth: fragment spreads" [] s = 3 -> "overlapping fields: findConflict"
                 [] s = 4 -> "overlapping fields: fields and fragment" [] s = 5 -> "overlapping fields: between fragments"
                 [] s = 6 -> "fragment cycles" [] OTHER -> "subscription top fields"

Verdict(c) ==
  IF c.kind = "load" THEN (IF c.okxorerr THEN "ok" ELSE "LoadSchema returned neither or both of schema and error")
  ELSE IF c.budget THEN "recursion step budget of 30 million exceeded at site " \o SiteName(c.budgetSite)
  ELSE LET over == {s \in 1..7 : c.nodes <= 150 /\ c.steps[s] > Bound(s, c)}
       IN IF over = {} THEN "ok"
          ELSE LET s == CHOOSE s \in over : TRUE
               IN SiteName(s) \o ": " \o ToString(c.steps[s]) \o " steps for a document of " \o ToString(c.nodes) \o " selections, "
                  \o ToString(c.frags) \o " fragments, " \o ToString(c.ops) \o " operations (bound " \o ToString(Bound(s, c)) \o ")"

Init == i = 0 /\ bad = <<>> /\ n = 0
Check == /\ i < Len(Cases)
         /\ i' = i + 1
         /\ LET c == Cases[i + 1]
                v == Verdict(c)
            IN /\ bad' = IF v = "ok" \/ Len(bad) >= 100 THEN bad ELSE Append(bad, [id |-> c.id, class |-> v])
               /\ n' = n + 1
Finish == /\ i = Len(Cases)
          /\ i' = i + 1
          /\ ndJsonSerialize(IOEnv.VERIF_REPORT, <<[cases |-> i, events |-> n, bad |-> bad]>>)
          /\ UNCHANGED <<bad, n>>
Next == Check \/ Finish
Spec == Init /\ [][Next]_vars
=============================================================================
