---------------------------- MODULE TokenLimit_MC ----------------------------
(* All token streams up to MaxLen over {tok, comment, bad}, all limits up   *)
(* to MaxLimit, every order of peek / next calls a parser could make.       *)
EXTENDS TokenLimit, TLC
CONSTANTS MaxLen, MaxLimit
VARIABLES toks, limit, s
vars == <<toks, limit, s>>

Kinds == {"tok", "comment", "bad"}
Streams == UNION {[1..n -> Kinds] : n \in 0..MaxLen}

Init == toks \in Streams /\ limit \in 0..MaxLimit /\ s = S0
Peek == s' = DoPeek(s, toks, limit) /\ UNCHANGED <<toks, limit>>
Next1 == s.count <= MaxLen + 1 /\ s' = DoNext(s, toks, limit) /\ UNCHANGED <<toks, limit>>
Next == Peek \/ Next1
Spec == Init /\ [][Next]_vars

\* the lexer is never more than one token ahead of what was consumed
Lookahead == s.lexed <= s.count + 1
\* every lexed token is either the look-ahead or has been counted exactly once
CountOnce == s.err # "limit" => s.lexed = s.count + (IF s.peeked THEN 1 ELSE 0)
\* under a limit the work done on the input is bounded by the limit, whatever the input
WorkBound == limit # 0 => s.lexed <= limit + 1
\* the budget is exact
Exact == /\ (s.err # "limit" /\ limit # 0) => s.count <= limit
         /\ s.err = "limit" => (limit # 0 /\ s.count = limit + 1)
\* comments never surface as the look-ahead the grammar sees
PeekNoComment == (s.peeked /\ s.err = "none" /\ ~s.consuming) => s.peekKind # "comment"
\* once an error is set nothing happens any more: no lexing, no counting
Sticky == [][s.err # "none" => s' = s]_vars
=============================================================================
