----------------------------- MODULE Total_Trace -----------------------------
(* C->M for totality (C01): one case per input, carrying for the lexer loop *)
(* and for every parser entry point what the real code returned.  The       *)
(* harness observes termination and crashes (a crashed or hung run never    *)
(* reaches this file: it is reported directly); the specification decides   *)
(* whether each outcome is well formed for THAT input:                      *)
(*   - a nil error comes with a document (an error may come with a partial  *)
(*     document: the statement only requires "a non-nil error");            *)
(*   - a syntax error's line and column lie inside the input;               *)
(*   - the deterministic work counters of hook H1 are linear in the number  *)
(*     of tokens: lexer calls <= next() calls + 4, next() calls <= tokens + 4 (a bounded look-ahead), where      *)
(*     tokens is the specification's own count (LexAll) when the input is   *)
(*     small and the count known by construction otherwise;                 *)
(*   - the lexer loop emitted at most one token per character, in order,    *)
(*     inside the input.                                                    *)
EXTENDS Lexer, TLC, Json, IOUtils

Cases == ndJsonDeserialize(IOEnv.VERIF_TRACE)
VARIABLES i, bad, n
vars == <<i, bad, n>>

\* an outcome is the tuple <<entry, doc, err, loc, syntax, counted, l, c, lex, next>> (booleans as 0/1)
OutBad(c, o, N) ==
  IF o[3] = 0 /\ o[2] = 0 THEN "nil error without a document"
  ELSE IF o[3] = 1 /\ o[4] = 1 /\ ~InsideInput(c.in, o[7], o[8])
       THEN "error position outside the input: line " \o ToString(o[7]) \o " column " \o ToString(o[8])
  ELSE IF o[3] = 1 /\ o[5] = 1 /\ o[4] = 0 THEN "syntax error without a location"
  ELSE IF o[6] = 1 /\ o[9] > o[10] + 4 THEN "more lexer calls than tokens consumed + 4 (look-ahead bound)"
  ELSE IF o[6] = 1 /\ o[10] > N + 4 THEN "more tokens consumed than the input has"
  ELSE ""

Verdict(c) ==
  LET N == IF c.n >= 0 THEN c.n ELSE Len(LexAll(c.in).toks)
      chars == Len(c.in)
      \* lexer loop summary: <<tokens, err, l, c, maxEnd>>
      lexBad == IF c.lex[1] > chars + 1 THEN "lexer emitted more tokens than characters"
                ELSE IF c.lex[2] = 1 /\ ~InsideInput(c.in, c.lex[3], c.lex[4]) THEN "lexer error position outside the input"
                ELSE IF c.lex[5] > chars THEN "token extent beyond the input"
                ELSE ""
      outs == {j \in 1..Len(c.outs) : OutBad(c, c.outs[j], N) # ""}
  IN IF lexBad # "" THEN lexBad
     ELSE IF outs = {} THEN "ok"
     ELSE LET j == CHOOSE j \in outs : \A k \in outs : j <= k
          IN c.outs[j][1] \o ": " \o OutBad(c, c.outs[j], N)

Init == i = 0 /\ bad = <<>> /\ n = 0
Check == /\ i < Len(Cases)
         /\ i' = i + 1
         /\ LET c == Cases[i + 1]
                v == Verdict(c)
            IN /\ bad' = IF v = "ok" \/ Len(bad) >= 100 THEN bad ELSE Append(bad, [id |-> c.id, class |-> v])
               /\ n' = n + Len(c.outs)
Finish == /\ i = Len(Cases)
          /\ i' = i + 1
          /\ ndJsonSerialize(IOEnv.VERIF_REPORT, <<[cases |-> i, events |-> n, bad |-> bad]>>)
          /\ UNCHANGED <<bad, n>>
Next == Check \/ Finish
Spec == Init /\ [][Next]_vars
=============================================================================
