------------------------------ MODULE Rules_Trace ------------------------------
(* C->M for validation (C08): the first record of the trace is the loaded   *)
(* schema; every further record is one parsed executable document (generic  *)
(* tree) with what validator.Validate reported: errs (any error at all) and *)
(* rules (the names of the rules that reported).  The property is the       *)
(* document verdict: no errors iff the specification finds no violated      *)
(* rule.  The per-rule comparison is kept as a diagnostic.                  *)
EXTENDS TLC, Json, IOUtils, Integers, Sequences, FiniteSets

CONSTANT Devs
Cases == ndJsonDeserialize(IOEnv.VERIF_TRACE)
R == INSTANCE Rules WITH S <- Cases[1].schema, Devs <- Devs

VARIABLES i, bad, n, diag
vars == <<i, bad, n, diag>>

ToSet(q) == {q[j] : j \in 1..Len(q)}

Init == i = 1 /\ bad = <<>> /\ n = 0 /\ diag = <<>>
Check == /\ i < Len(Cases)
         /\ i' = i + 1
         /\ LET c == Cases[i + 1]
                viol == R!ViolatedRules(c.doc)
                specValid == viol = {}
            IN /\ bad' = IF specValid = ~c.errs \/ Len(bad) >= 100 THEN bad
                         ELSE Append(bad, [id |-> c.id,
                                           class |-> IF specValid THEN "rejected a document that satisfies every rule"
                                                     ELSE "accepted a document that violates a rule",
                                           spec |-> viol, real |-> ToSet(c.rules)])
               /\ diag' = IF viol = ToSet(c.rules) \/ Len(diag) >= 40 THEN diag
                          ELSE Append(diag, [id |-> c.id, spec |-> viol, real |-> ToSet(c.rules)])
               /\ n' = n + 1
Finish == /\ i = Len(Cases)
          /\ i' = i + 1
          /\ ndJsonSerialize(IOEnv.VERIF_REPORT, <<[cases |-> i - 1, events |-> n, bad |-> bad, diffs |-> diag]>>)
          /\ UNCHANGED <<bad, n, diag>>
Next == Check \/ Finish
Spec == Init /\ [][Next]_vars
=============================================================================
