SPECIFICATION Spec
CONSTANTS
  Devs = {}
  Sigma = {97, 32, 10, 13, 34, 92}
  MaxLen = 4
  Prefix <- Q3
  Suffix <- Q3
INVARIANT Emit
CHECK_DEADLOCK FALSE
