SPECIFICATION Spec
CONSTANTS
  MaxLen = 5
  MaxLimit = 6
INVARIANTS Lookahead CountOnce WorkBound Exact PeekNoComment
PROPERTY Sticky
CHECK_DEADLOCK FALSE
