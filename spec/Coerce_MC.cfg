SPECIFICATION Spec
CONSTANTS
  Devs = {}
  D = 1
  Leaves = {"Int", "String", "E", "In", "Any"}
INVARIANTS Emit Sound Idempotent Identity Complete
CHECK_DEADLOCK FALSE
