SPECIFICATION Spec
INVARIANTS RoundTrip KeysDistinguish
CHECK_DEADLOCK FALSE
