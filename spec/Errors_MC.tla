------------------------------ MODULE Errors_MC ------------------------------
(* Every path over two names and two indices up to length MaxLen: the codec   *)
(* is the identity (a name never decodes as an index or vice versa), and each *)
(* path is printed for the harness to push through the real encoder/decoder.  *)
EXTENDS Errors, TLC, Json
CONSTANT MaxLen
Elems == {[k |-> "n", v |-> "a"], [k |-> "n", v |-> "b"], [k |-> "i", v |-> 0], [k |-> "i", v |-> 7]}
VARIABLES p, done
Init == p = <<>> /\ done = FALSE
Next == \/ (~done /\ Len(p) < MaxLen /\ \E e \in Elems : p' = Append(p, e) /\ UNCHANGED done)
        \/ (~done /\ done' = TRUE /\ UNCHANGED p)
Spec == Init /\ [][Next]_<<p, done>>
RoundTrip == Decode(Encode(p)) = p
Emit == done => PrintT(<<"CASE", ToJson([path |-> p])>>)
=============================================================================
