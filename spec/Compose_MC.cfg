SPECIFICATION Spec
CONSTANTS
  EventKinds = {"a", "b", "c"}
  MaxLen = 4
  WithInterference = FALSE
INVARIANT Law
CHECK_DEADLOCK FALSE
