---------------------------- MODULE Lexer_Cases ----------------------------
(* Case generator with expected results ("terminal-state print"): every     *)
(* string Prefix \o w \o Suffix with w of length <= MaxLen over Sigma is    *)
(* lexed by the specification and printed once, as one JSON line            *)
(*   {"in": [code points], "toks": [[k,s,e,l,c,v]...], "err": bool}         *)
(* for the harness to run through the real lexer.  Used where the value of  *)
(* a token depends on the whole body (block strings, escapes).              *)
EXTENDS Lexer, TLC, Json
CONSTANTS Sigma, MaxLen, Prefix, Suffix
VARIABLES w, done
vars == <<w, done>>

\* values for Prefix / Suffix (a .cfg file cannot write tuples)
NoChars == <<>>
Q3 == <<34, 34, 34>>
Q1 == <<34>>
QBsU == <<34, 92, 117>>     \* "\u

Init == w = <<>> /\ done = FALSE
Read(c) == ~done /\ Len(w) < MaxLen /\ w' = Append(w, c) /\ UNCHANGED done
Finish == ~done /\ done' = TRUE /\ UNCHANGED w
Next == (\E c \in Sigma : Read(c)) \/ Finish
Spec == Init /\ [][Next]_vars

Input == Prefix \o w \o Suffix
Emit == done => PrintT(<<"CASE", ToJson([in |-> Input, r |-> LexAll(Input)])>>)
=============================================================================
