------------------------------- MODULE ArgMap -------------------------------
(***************************************************************************)
(* CoerceArgumentValues (GraphQL October 2021, section 6.4.1) as the       *)
(* library exposes it: the argument map of a field or directive, given the *)
(* variables map that passed coercion.                                     *)
(*                                                                         *)
(* For each argument definition, in order of precedence:                   *)
(*   1. a literal written in the document: converted recursively, lists    *)
(*      and input objects element by element, every variable inside it     *)
(*      replaced by its coerced value (null when it has none);             *)
(*   2. a variable written as the argument: its coerced value, which is    *)
(*      the supplied value (an explicit null is a value) or else the       *)
(*      variable's default (applied by variable coercion);                 *)
(*   3. the argument's default value;                                      *)
(*   4. otherwise the argument is absent from the map.                     *)
(*                                                                         *)
(* Literals are values V(...) of module Coerce with the extra kinds "var"  *)
(* (s = variable name), "enum" (s = name) and "bigint" (an integer literal *)
(* beyond 64 bits, only legal for custom scalars).                         *)
(***************************************************************************)
EXTENDS Coerce

VVar(name)  == V("var", 0, name, <<>>, <<>>)
VEnum(name) == V("enum", 0, name, <<>>, <<>>)
VBig        == V("bigint", 0, "99999999999999999999", <<>>, <<>>)
VHuge       == V("bigfloat", 0, "1e999", <<>>, <<>>)       \* a float literal no double can hold

\* cvars: sequence of [name, v] for the variables that have a coerced value
HasVar(cvars, name) == \E j \in 1..Len(cvars) : cvars[j].name = name
VarVal(cvars, name) == cvars[CHOOSE j \in 1..Len(cvars) : cvars[j].name = name].v

RECURSIVE Resolve(_, _)
Resolve(lit, cvars) ==
  CASE lit.k = "var"  -> IF HasVar(cvars, lit.s) THEN VarVal(cvars, lit.s) ELSE VNull
    [] lit.k = "enum" -> VStr(lit.s)
    [] lit.k = "list" -> VList([j \in 1..Len(lit.items) |-> Resolve(lit.items[j], cvars)])
    [] lit.k = "map"  -> VMap([j \in 1..Len(lit.ents) |-> Ent(lit.ents[j].key, Resolve(lit.ents[j].v, cvars))])
    [] OTHER -> lit

Absent == [present |-> FALSE, val |-> VNull, src |-> "none"]
\* use: <<>> (argument not written) or <<literal>>; def: <<>> or <<default literal>>
ArgValue(def, use, cvars) ==
  IF use # <<>> /\ use[1].k # "var" THEN [present |-> TRUE, val |-> Resolve(use[1], cvars), src |-> "literal"]
  ELSE IF use # <<>> /\ HasVar(cvars, use[1].s) THEN [present |-> TRUE, val |-> VarVal(cvars, use[1].s), src |-> "variable"]
  ELSE IF def # <<>> THEN [present |-> TRUE, val |-> Resolve(def[1], <<>>), src |-> "default"]
  ELSE Absent

\* variable coercion for the variables of the bounded universe (of type Int, nullable, unless the
\* definition carries a type t)
CoercedVars(vardefs, supplied) ==
  \* vardefs: sequence of [name, def (<<>> | <<value>>)]; supplied: sequence of [name, v]
  LET one(j) == LET vd == vardefs[j]
                    given == IF HasVar(supplied, vd.name) THEN <<VarVal(supplied, vd.name)>> ELSE <<>>
                    T == IF "t" \in DOMAIN vd THEN vd.t ELSE Named("Int", FALSE)
                IN CoerceVar(T, vd.def, given)
      idx == SelectSeq([j \in 1..Len(vardefs) |-> j], LAMBDA j : one(j).present)
  IN [m \in 1..Len(idx) |-> [name |-> vardefs[idx[m]].name, v |-> one(idx[m]).val]]
=============================================================================
