----------------------------- MODULE TypeSystem -----------------------------
(***************************************************************************)
(* Loading a type-system document: merge of definitions and extensions,    *)
(* the type-system rules the loader enforces (property C07), and the       *)
(* schema that results (types, relations, root operation types).           *)
(*                                                                         *)
(* A document is [defs, dirdefs, schemas]:                                 *)
(*   TypeDef  [kind, name, ext, builtin, ifaces, fields, members, values,  *)
(*             dirs, file]                                                 *)
(*   FieldDef [name, type, args, hasDef, dirs]   (object fields and input  *)
(*             fields; input fields have no args)                          *)
(*   ArgDef   [name, type, hasDef, dirs]                                   *)
(*   Type     [k |-> "named"|"list", name, nn, of (0/1 elements)]          *)
(*   DirUse   [name, args: [name, isNull]]                                 *)
(*   DirDef   [name, builtin, args, locs, rep, file]                       *)
(*   SchemaDef [ext, ops: [op, type], dirs, file]                          *)
(* The built-in prelude (scalars, introspection types, built-in            *)
(* directives) is part of the document, flagged builtin.                   *)
(*                                                                         *)
(* Nothing here depends on the order of defs: every rule is a predicate    *)
(* over the SET of definitions (with the fields of one type kept in        *)
(* sequence: base definition first, then its extensions in their relative  *)
(* order), which is what makes loading independent of definition order     *)
(* and of how definitions are split over files (property C17).             *)
(***************************************************************************)
EXTENDS Integers, Sequences, FiniteSets, SequencesExt, TypeAlgebra

CONSTANT Devs

Flatten(ss) == FoldLeft(LAMBDA a, x : a \o x, <<>>, ss)

Dunder(name) == Len(name) >= 2 /\ SubSeq(name, 1, 2) = "__"

\* type references: module TypeAlgebra (TypeStr, BaseName)
TypeName(t) == BaseName(t)

OutputKinds == {k \in Kinds : IsOutputKind(k)}
InputKinds  == {k \in Kinds : IsInputKind(k)}

-----------------------------------------------------------------------------
(* Merge: one record per type name.                                        *)

Bases(doc, n) == SelectSeq(doc.defs, LAMBDA d : ~d.ext /\ d.name = n)
Exts(doc, n)  == SelectSeq(doc.defs, LAMBDA d : d.ext /\ d.name = n)
Names(doc)    == {d.name : d \in Range(doc.defs)}

Merged(doc, n) ==
  LET parts == Bases(doc, n) \o Exts(doc, n)      \* base first, then extensions in their relative order
      first == parts[1]
  IN [name |-> n, kind |-> first.kind,
      \* a type is built-in when its DEFINITION stands in a built-in source: an extension neither makes a user's
      \* type built-in nor a built-in type the user's (a type that exists through extensions only is nobody's)
      builtin |-> Bases(doc, n) # <<>> /\ Bases(doc, n)[1].builtin,
      ifaces  |-> Flatten([j \in 1..Len(parts) |-> parts[j].ifaces]),
      fields  |-> Flatten([j \in 1..Len(parts) |-> parts[j].fields]),
      members |-> Flatten([j \in 1..Len(parts) |-> parts[j].members]),
      values  |-> Flatten([j \in 1..Len(parts) |-> parts[j].values]),
      dirs    |-> Flatten([j \in 1..Len(parts) |-> parts[j].dirs]),
      kinds   |-> {parts[j].kind : j \in 1..Len(parts)}]

Types(doc) == [n \in Names(doc) |-> Merged(doc, n)]

FieldOf(T, fname) == LET idx == {j \in 1..Len(T.fields) : T.fields[j].name = fname}
                     IN IF idx = {} THEN <<>> ELSE <<T.fields[Min(idx)]>>
ArgOf(args, aname) == LET idx == {j \in 1..Len(args) : args[j].name = aname}
                      IN IF idx = {} THEN <<>> ELSE <<args[Min(idx)]>>

\* directive definitions by name: a built-in directive may be redeclared by user sources; the
\* library keeps the LAST declaration in document order (the prelude comes first, so a user's
\* redeclaration replaces the built-in one)
DirNames(doc) == {d.name : d \in Range(doc.dirdefs)}
DirDefOf(doc, n) == doc.dirdefs[Max({j \in 1..Len(doc.dirdefs) : doc.dirdefs[j].name = n})]

-----------------------------------------------------------------------------
(* Relations.                                                              *)

\* possible types: an object itself; for an interface every object or interface declaring it;
\* for a union its members
Possible(doc, n) ==
  LET ts == Types(doc)  T == ts[n] IN
  CASE T.kind = "OBJECT" -> {n} \cup {}
    [] T.kind = "INPUT_OBJECT" -> {n}
    [] T.kind = "UNION" -> Range(T.members)
    [] OTHER -> {}
PossibleOf(doc, n) ==
  LET ts == Types(doc) IN
  Possible(doc, n) \cup {m \in Names(doc) : ts[m].kind \in {"OBJECT", "INTERFACE", "INPUT_OBJECT"} /\ n \in Range(ts[m].ifaces)}
ImplementsOf(doc, n) ==
  LET ts == Types(doc) IN
  (IF ts[n].kind \in {"OBJECT", "INTERFACE", "INPUT_OBJECT"} THEN Range(ts[n].ifaces) ELSE {})
  \cup {u \in Names(doc) : ts[u].kind = "UNION" /\ n \in Range(ts[u].members)}

RECURSIVE Covariant(_, _, _)
Covariant(doc, required, actual) ==
  IF required.nn /\ ~actual.nn THEN FALSE
  ELSE IF required.k = "named"
       THEN actual.k = "named" /\ (required.name = actual.name
                                    \/ (required.name \in Names(doc) /\ actual.name \in PossibleOf(doc, required.name)))
       ELSE actual.k = "list" /\ Covariant(doc, required.of[1], actual.of[1])

-----------------------------------------------------------------------------
(* Rules.  Each is TRUE when the document satisfies it.                    *)

UniqueTypes(doc) == \A n \in Names(doc) : Len(Bases(doc, n)) <= 1
ExtensionKinds(doc) == \A n \in Names(doc) : Cardinality(Types(doc)[n].kinds) = 1
\* Only the directives the specification itself defines may be declared again (section 3.13 lets a
\* type system spell them out); the built-in FLAG of a source gives no such licence.
SpecifiedDirectives == {"include", "skip", "deprecated", "specifiedBy", "defer", "oneOf"}
UniqueDirectives(doc) ==
  \A n \in DirNames(doc) :
    LET ds == SelectSeq(doc.dirdefs, LAMBDA d : d.name = n)
    IN Len(ds) <= 1 \/ n \in SpecifiedDirectives
UniqueFields(doc) == \A n \in Names(doc) :
  LET fs == Types(doc)[n].fields IN \A a, b \in 1..Len(fs) : a # b => fs[a].name # fs[b].name

AllArgs(T) == Flatten([j \in 1..Len(T.fields) |-> T.fields[j].args])

RefsExist(doc) ==
  LET ts == Types(doc)  known == Names(doc) IN
  /\ \A n \in known :
       /\ \A f \in Range(ts[n].fields) : TypeName(f.type) \in known /\ \A a \in Range(f.args) : TypeName(a.type) \in known
       /\ Range(ts[n].ifaces) \subseteq known
       /\ Range(ts[n].members) \subseteq known
  /\ \A d \in Range(doc.dirdefs) : \A a \in Range(d.args) : TypeName(a.type) \in known
  /\ \A s \in Range(doc.schemas) : \A o \in Range(s.ops) : o.type \in known

KindOf(doc, n) == Types(doc)[n].kind

RightKinds(doc) ==
  LET ts == Types(doc)  known == Names(doc)
      kindOK(t, kinds) == TypeName(t) \in known => KindOf(doc, TypeName(t)) \in kinds
  IN
  /\ \A n \in known :
       /\ \A i \in Range(ts[n].ifaces) : i \in known => KindOf(doc, i) = "INTERFACE"
       /\ \A m \in Range(ts[n].members) : m \in known => KindOf(doc, m) = "OBJECT"
       /\ ts[n].kind \in {"OBJECT", "INTERFACE"} =>
            \A f \in Range(ts[n].fields) : kindOK(f.type, OutputKinds) /\ \A a \in Range(f.args) : kindOK(a.type, InputKinds)
       /\ ts[n].kind = "INPUT_OBJECT" => \A f \in Range(ts[n].fields) : kindOK(f.type, InputKinds)
  /\ \A d \in Range(doc.dirdefs) : \A a \in Range(d.args) : kindOK(a.type, InputKinds)

Required(a) == a.type.nn /\ ~a.hasDef

ImplementsOK(doc, n, i) ==
  LET ts == Types(doc)  T == ts[n]  I == ts[i] IN
  /\ \A rf \in Range(I.fields) :
       LET ff == FieldOf(T, rf.name) IN
       /\ ff # <<>>
       /\ Covariant(doc, rf.type, ff[1].type)
       /\ \A ra \in Range(rf.args) :
            LET fa == ArgOf(ff[1].args, ra.name) IN
            /\ fa # <<>>
            /\ IF "IfaceArgNullability" \in Devs THEN TRUE ELSE TypeStr(ra.type) = TypeStr(fa[1].type)
       /\ \A fa \in Range(ff[1].args) : ArgOf(rf.args, fa.name) = <<>> => ~Required(fa)
  /\ Range(I.ifaces) \subseteq Range(T.ifaces)        \* also implement the interfaces their interfaces implement

Implementers(doc) ==
  LET ts == Types(doc) IN
  \A n \in Names(doc) : \A i \in Range(ts[n].ifaces) :
     (i \in Names(doc) /\ KindOf(doc, i) = "INTERFACE") => ImplementsOK(doc, n, i)

NonEmpty(doc) ==
  LET ts == Types(doc) IN
  \A n \in Names(doc) :
     /\ ts[n].kind \in {"OBJECT", "INTERFACE", "INPUT_OBJECT"} => Len(ts[n].fields) > 0
     /\ ts[n].kind = "ENUM" => Len(ts[n].values) > 0

NoDunder(doc) ==
  LET ts == Types(doc) IN
  /\ \A n \in Names(doc) :
       /\ ~ts[n].builtin => ~Dunder(n)
       /\ \A f \in Range(ts[n].fields) : ~Dunder(f.name) /\ \A a \in Range(f.args) : ~Dunder(a.name)
       /\ \A v \in Range(ts[n].values) : ("EnumValueDunder" \in Devs \/ ~Dunder(v.name))
  /\ \A d \in Range(doc.dirdefs) : ~Dunder(d.name) /\ \A a \in Range(d.args) : ~Dunder(a.name)

EnumValuesAreNames(doc) ==
  \A n \in Names(doc) : \A v \in Range(Types(doc)[n].values) : v.name \notin {"true", "false", "null"}

\* an applied directive: defined, declared for this location, only known arguments, required arguments given
DirUseOK(doc, u, loc) ==
  /\ u.name \in DirNames(doc)
  /\ LET d == DirDefOf(doc, u.name) IN
     /\ loc \in Range(d.locs)
     /\ \A a \in Range(u.args) : ArgOf(d.args, a.name) # <<>>
     /\ \A da \in Range(d.args) : Required(da) => \E a \in Range(u.args) : a.name = da.name /\ ~a.isNull

KindLocation(k) == k    \* the directive location of a type definition is named like its kind

DirectivesOK(doc) ==
  LET ts == Types(doc) IN
  /\ \A n \in Names(doc) :
       LET T == ts[n] IN
       /\ \A u \in Range(T.dirs) : DirUseOK(doc, u, KindLocation(T.kind))
       /\ \A f \in Range(T.fields) :
            /\ \A u \in Range(f.dirs) : DirUseOK(doc, u, IF T.kind = "INPUT_OBJECT" THEN "INPUT_FIELD_DEFINITION" ELSE "FIELD_DEFINITION")
            /\ \A a \in Range(f.args) : \A u \in Range(a.dirs) : DirUseOK(doc, u, "ARGUMENT_DEFINITION")
       /\ \A v \in Range(T.values) : \A u \in Range(v.dirs) : DirUseOK(doc, u, "ENUM_VALUE")
  /\ \A d \in Range(doc.dirdefs) : \A a \in Range(d.args) : \A u \in Range(a.dirs) :
       DirUseOK(doc, u, "ARGUMENT_DEFINITION") /\ u.name # d.name
  /\ \A s \in Range(doc.schemas) : \A u \in Range(s.dirs) : DirUseOK(doc, u, "SCHEMA")

SingleSchema(doc) == Len(SelectSeq(doc.schemas, LAMBDA s : ~s.ext)) <= 1

RuleNames == <<"UniqueTypes", "ExtensionKinds", "UniqueDirectives", "UniqueFields", "RefsExist", "RightKinds",
               "Implementers", "NonEmpty", "NoDunder", "EnumValuesAreNames", "DirectivesOK", "SingleSchema">>
Holds(doc, r) ==
  CASE r = "UniqueTypes" -> UniqueTypes(doc)
    [] r = "ExtensionKinds" -> ExtensionKinds(doc)
    [] r = "UniqueDirectives" -> UniqueDirectives(doc)
    [] r = "UniqueFields" -> UniqueFields(doc)
    [] r = "RefsExist" -> RefsExist(doc)
    [] r = "RightKinds" -> RightKinds(doc)
    [] r = "Implementers" -> (RefsExist(doc) /\ ExtensionKinds(doc)) => Implementers(doc)
    [] r = "NonEmpty" -> NonEmpty(doc)
    [] r = "NoDunder" -> NoDunder(doc)
    [] r = "EnumValuesAreNames" -> EnumValuesAreNames(doc)
    [] r = "DirectivesOK" -> DirectivesOK(doc)
    [] r = "SingleSchema" -> SingleSchema(doc)
Violated(doc) == {RuleNames[j] : j \in {k \in 1..Len(RuleNames) : ~Holds(doc, RuleNames[k])}}
Loads(doc) == Violated(doc) = {}

-----------------------------------------------------------------------------
(* The loaded schema.                                                      *)

\* root operation types: the schema definition and then the schema extensions, in document order,
\* later entries for the same operation replacing earlier ones; default names only when there is no
\* schema definition and the operation is still unset
RootOf(doc, op, dflt) ==
  LET ordered == Flatten([j \in 1..Len(doc.schemas) |-> IF doc.schemas[j].ext THEN <<>> ELSE SelectSeq(doc.schemas[j].ops, LAMBDA o : o.op = op)])
                 \o Flatten([j \in 1..Len(doc.schemas) |-> IF doc.schemas[j].ext THEN SelectSeq(doc.schemas[j].ops, LAMBDA o : o.op = op) ELSE <<>>])
  IN IF ordered # <<>> THEN <<ordered[Len(ordered)].type>>
     ELSE IF \A s \in Range(doc.schemas) : s.ext THEN (IF dflt \in Names(doc) THEN <<dflt>> ELSE <<>>)
     ELSE <<>>

Schema(doc) ==
  [types |-> Names(doc),
   dirs |-> DirNames(doc),
   possible |-> [n \in Names(doc) |-> PossibleOf(doc, n)],
   implements |-> [n \in Names(doc) |-> ImplementsOf(doc, n)],
   q |-> RootOf(doc, "query", "Query"),
   m |-> RootOf(doc, "mutation", "Mutation"),
   s |-> RootOf(doc, "subscription", "Subscription"),
   \* a type is built-in exactly when (a part of) it comes from a built-in source - wherever that source stands
   builtins |-> {n \in Names(doc) : Types(doc)[n].builtin}]
=============================================================================
