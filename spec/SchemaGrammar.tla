---------------------------- MODULE SchemaGrammar ----------------------------
(***************************************************************************)
(* The GraphQL (October 2021) type-system grammar as an LL(1) pushdown     *)
(* automaton over token classes, with tree events (module Tree).           *)
(*                                                                         *)
(* Strict grammar: descriptions only before definitions and their members  *)
(* (never before `extend`); `schema` requires a non-empty block of root    *)
(* operation types; every extension must add something; interface          *)
(* extensions may add `implements`; all directives and default values are  *)
(* constant; enum values are names other than true, false, null; optional  *)
(* leading `|` / `&`; directive locations are the 19 location names.       *)
(***************************************************************************)
EXTENDS Tree, FiniteSets

CONSTANT Devs

DefKw == {"SCHEMA", "SCALAR", "TYPE", "INTERFACE", "UNION", "ENUM", "INPUT", "DIRECTIVE"}
NameKinds == DefKw \cup {"EXTEND", "IMPLEMENTS", "REPEATABLE", "ON", "OP", "LOC", "BOOL", "NULL", "NAME"}
Classes == NameKinds \cup {"STR", "INT", "FLOAT", "LB", "RB", "LP", "RP", "LK", "RK", "COLON", "EQ",
                           "BANG", "DOLLAR", "AT", "PIPE", "AMP", "SPREAD"}
EnumLeafKinds == NameKinds \ {"BOOL", "NULL"}
KindOf(t) == CASE t = "SCALAR" -> "SCALAR" [] t = "TYPE" -> "OBJECT" [] t = "INTERFACE" -> "INTERFACE"
               [] t = "UNION" -> "UNION" [] t = "ENUM" -> "ENUM" [] t = "INPUT" -> "INPUT_OBJECT"

IsMarker(X) == X \in {"}schema", "}optype", "}def", "}fielddef", "}argdef", "}enumval", "}dirdef",
                      "}named", "}list", "}default", "}listv", "}obj", "}objfield", "}dir", "}arg"}

\* after '@' (Open("dir") emitted by the caller)
DirTail == <<"N:name", "CARGS_OPT", "}dir", "CDIRS">>
\* input value definition after its name: `: Type DefaultValue? Directives?` then the list continues with `term`
InVal(term) == <<"COLON", "TYPE", "DEFAULT_OPT", "CDIRS", "}argdef", term>>

RECURSIVE Shift(_, _, _)
Shift(s, t, i) ==
  IF s = <<>> THEN REJ ELSE
  LET X == Head(s)
      R == Tail(s)
      to(seq, ev) == [s |-> seq \o R, ev |-> ev]
      eps(ev) == LET r == Shift(R, t, i)
                 IN IF Rej(r) THEN REJ ELSE [s |-> r.s, ev |-> ev \o r.ev]
      re(seq, ev) == LET r == Shift(seq \o R, t, i)
                     IN IF Rej(r) THEN REJ ELSE [s |-> r.s, ev |-> ev \o r.ev]
      isName == t \in NameKinds
      \* a definition keyword, after an optional description
      defStart ==
        CASE t = "SCHEMA" -> to(<<"CDIRS", "SCHEMA_BODY", "}schema">>, <<Open("schema")>>)
          [] t = "SCALAR" -> to(<<"N:name", "CDIRS", "}def">>, <<Open("def"), Const("kind", KindOf(t))>>)
          [] t \in {"TYPE", "INTERFACE"} ->
               to(<<"N:name", "IMPL_OPT", "CDIRS", "FIELDS_OPT", "}def">>, <<Open("def"), Const("kind", KindOf(t))>>)
          [] t = "UNION" -> to(<<"N:name", "CDIRS", "MEMBERS_OPT", "}def">>, <<Open("def"), Const("kind", KindOf(t))>>)
          [] t = "ENUM"  -> to(<<"N:name", "CDIRS", "ENUMVALS_OPT", "}def">>, <<Open("def"), Const("kind", KindOf(t))>>)
          [] t = "INPUT" -> to(<<"N:name", "CDIRS", "INFIELDS_OPT", "}def">>, <<Open("def"), Const("kind", KindOf(t))>>)
          [] t = "DIRECTIVE" ->
               to(<<"AT", "N:name", "ARGDEFS_OPT", "REPEATABLE_OPT", "KW_ON", "PIPE_OPT", "LOC", "LOCS_MORE", "}dirdef">>,
                  <<Open("dirdef")>>)
          [] OTHER -> REJ
  IN
  CASE IsMarker(X) -> eps(<<Close>>)
    [] X = "DOC0" ->
         IF t = "STR" THEN to(<<"DEF_KW", "DOC1">>, <<PreDesc(i)>>)
         ELSE IF t = "EXTEND" THEN to(<<"EXT_KW", "DOC1">>, <<>>)
         ELSE IF t \in DefKw THEN re(<<"DEF_KW", "DOC1">>, <<>>)
         ELSE IF t = "EOF" /\ "EmptySchemaDocument" \in Devs THEN [s |-> ACC, ev |-> <<>>]
         ELSE REJ
    [] X = "DOC1" -> IF t = "EOF" THEN [s |-> ACC, ev |-> <<>>] ELSE re(<<"DOC0">>, <<>>)
    [] X = "DEF_KW" -> defStart
    [] X = "N:name"   -> IF isName THEN to(<<>>, <<Leaf("name", i)>>) ELSE REJ
    [] X = "N:iface"  -> IF isName THEN to(<<>>, <<Leaf("iface", i)>>) ELSE REJ
    [] X = "N:member" -> IF isName THEN to(<<>>, <<Leaf("member", i)>>) ELSE REJ
    [] X = "N:type"   -> IF isName THEN to(<<>>, <<Leaf("type", i)>>) ELSE REJ
    [] X = "AT"    -> IF t = "AT" THEN to(<<>>, <<>>) ELSE REJ
    [] X = "KW_ON" -> IF t = "ON" THEN to(<<>>, <<>>) ELSE REJ
    [] X = "LOC"   -> IF t = "LOC" THEN to(<<>>, <<Leaf("loc", i)>>) ELSE REJ
    [] X = "COLON" -> IF t = "COLON" THEN to(<<>>, <<>>) ELSE REJ
    [] X = "RK"    -> IF t = "RK" THEN to(<<>>, <<>>) ELSE REJ
    [] X = "PIPE_OPT" -> IF t = "PIPE" THEN to(<<>>, <<>>) ELSE eps(<<>>)
    [] X = "AMP_OPT"  -> IF t = "AMP" THEN to(<<>>, <<>>) ELSE eps(<<>>)
    [] X = "REPEATABLE_OPT" -> IF t = "REPEATABLE" THEN to(<<>>, <<Const("repeatable", "repeatable")>>) ELSE eps(<<>>)
    [] X = "LOCS_MORE" -> IF t = "PIPE" THEN to(<<"LOC", "LOCS_MORE">>, <<>>) ELSE eps(<<>>)
    \* schema { query: Q ... }
    [] X = "SCHEMA_BODY" ->
         IF t = "LB" THEN to(<<"OPTYPE1">>, <<>>)
         ELSE IF "BareSchema" \in Devs THEN eps(<<>>) ELSE REJ
    [] X = "SCHEMA_BODY_OPT" -> IF t = "LB" THEN to(<<"OPTYPE1">>, <<>>) ELSE eps(<<>>)
    [] X = "OPTYPE1" -> IF t = "OP" THEN to(<<"COLON", "N:type", "}optype", "OPTYPEN">>, <<Open("optype"), Leaf("op", i)>>)
                        ELSE REJ
    [] X = "OPTYPEN" -> IF t = "RB" THEN to(<<>>, <<>>) ELSE re(<<"OPTYPE1">>, <<>>)
    \* implements A & B
    [] X = "IMPL_OPT"  -> IF t = "IMPLEMENTS" THEN to(<<"AMP_OPT", "N:iface", "IMPL_MORE">>, <<>>) ELSE eps(<<>>)
    [] X = "IMPL_MORE" -> IF t = "AMP" THEN to(<<"N:iface", "IMPL_MORE">>, <<>>) ELSE eps(<<>>)
    \* { field(args): Type @dirs ... }
    [] X = "FIELDS_OPT" -> IF t = "LB" THEN to(<<"FIELD1">>, <<>>) ELSE eps(<<>>)
    [] X = "FIELD1" ->
         IF t = "STR" THEN to(<<"FIELD_NAMED">>, <<PreDesc(i)>>)
         ELSE IF isName THEN to(<<"ARGDEFS_OPT", "COLON", "TYPE", "CDIRS", "}fielddef", "FIELDN">>,
                                <<Open("fielddef"), Leaf("name", i)>>)
         ELSE REJ
    [] X = "FIELD_NAMED" ->
         IF isName THEN to(<<"ARGDEFS_OPT", "COLON", "TYPE", "CDIRS", "}fielddef", "FIELDN">>,
                           <<Open("fielddef"), Leaf("name", i)>>)
         ELSE REJ
    [] X = "FIELDN" -> IF t = "RB" THEN to(<<>>, <<>>) ELSE re(<<"FIELD1">>, <<>>)
    \* (arg: Type = default @dirs ...)  and  { inputField: Type = default @dirs ... }
    [] X = "ARGDEFS_OPT" -> IF t = "LP" THEN to(<<"INVAL1_P">>, <<>>) ELSE eps(<<>>)
    [] X = "INFIELDS_OPT" -> IF t = "LB" THEN to(<<"INVAL1_B">>, <<>>) ELSE eps(<<>>)
    [] X \in {"INVAL1_P", "INVAL1_B"} ->
         LET nx == IF X = "INVAL1_P" THEN "INVALN_P" ELSE "INVALN_B" IN
         IF t = "STR" THEN to(<<IF X = "INVAL1_P" THEN "INVAL_NAMED_P" ELSE "INVAL_NAMED_B">>, <<PreDesc(i)>>)
         ELSE IF isName THEN to(InVal(nx), <<Open("argdef"), Leaf("name", i)>>)
         ELSE REJ
    [] X \in {"INVAL_NAMED_P", "INVAL_NAMED_B"} ->
         LET nx == IF X = "INVAL_NAMED_P" THEN "INVALN_P" ELSE "INVALN_B" IN
         IF isName THEN to(InVal(nx), <<Open("argdef"), Leaf("name", i)>>) ELSE REJ
    [] X = "INVALN_P" -> IF t = "RP" THEN to(<<>>, <<>>) ELSE re(<<"INVAL1_P">>, <<>>)
    [] X = "INVALN_B" -> IF t = "RB" THEN to(<<>>, <<>>) ELSE re(<<"INVAL1_B">>, <<>>)
    \* = | A | B
    [] X = "MEMBERS_OPT"  -> IF t = "EQ" THEN to(<<"PIPE_OPT", "N:member", "MEMBERS_MORE">>, <<>>) ELSE eps(<<>>)
    [] X = "MEMBERS_MORE" -> IF t = "PIPE" THEN to(<<"N:member", "MEMBERS_MORE">>, <<>>) ELSE eps(<<>>)
    \* { VALUE @dirs ... }
    [] X = "ENUMVALS_OPT" -> IF t = "LB" THEN to(<<"EV1">>, <<>>) ELSE eps(<<>>)
    [] X = "EV1" ->
         IF t = "STR" THEN to(<<"EV_NAMED">>, <<PreDesc(i)>>)
         ELSE IF t \in EnumLeafKinds \/ (isName /\ "EnumValueKeyword" \in Devs)
              THEN to(<<"CDIRS", "}enumval", "EVN">>, <<Open("enumval"), Leaf("name", i)>>)
         ELSE REJ
    [] X = "EV_NAMED" ->
         IF t \in EnumLeafKinds \/ (isName /\ "EnumValueKeyword" \in Devs)
         THEN to(<<"CDIRS", "}enumval", "EVN">>, <<Open("enumval"), Leaf("name", i)>>)
         ELSE REJ
    [] X = "EVN" -> IF t = "RB" THEN to(<<>>, <<>>) ELSE re(<<"EV1">>, <<>>)
    \* extensions: each must add something
    [] X = "EXT_KW" ->
         CASE t = "SCHEMA" -> to(<<"EXT_SCHEMA", "}schema">>, <<Open("extschema")>>)
           [] t = "SCALAR" -> to(<<"N:name", "CDIRS1", "}def">>, <<Open("ext"), Const("kind", KindOf(t))>>)
           [] t = "TYPE"      -> to(<<"N:name", "EXT_OBJ", "}def">>, <<Open("ext"), Const("kind", KindOf(t))>>)
           [] t = "INTERFACE" -> to(<<"N:name", IF "NoIfaceExtImplements" \in Devs THEN "EXT_IFACE_NOIMPL" ELSE "EXT_OBJ", "}def">>,
                                    <<Open("ext"), Const("kind", KindOf(t))>>)
           [] t = "UNION" -> to(<<"N:name", "EXT_UNION", "}def">>, <<Open("ext"), Const("kind", KindOf(t))>>)
           [] t = "ENUM"  -> to(<<"N:name", "EXT_ENUM", "}def">>, <<Open("ext"), Const("kind", KindOf(t))>>)
           [] t = "INPUT" -> to(<<"N:name", "EXT_INPUT", "}def">>, <<Open("ext"), Const("kind", KindOf(t))>>)
           [] OTHER -> REJ
    [] X = "CDIRS1" -> IF t = "AT" THEN to(DirTail, <<Open("dir")>>) ELSE REJ
    [] X = "EXT_SCHEMA" ->
         IF t = "AT" THEN to(DirTail \o <<"SCHEMA_BODY_OPT">>, <<Open("dir")>>)
         ELSE IF t = "LB" THEN to(<<"OPTYPE1">>, <<>>) ELSE REJ
    [] X = "EXT_OBJ" ->
         IF t = "IMPLEMENTS" THEN to(<<"AMP_OPT", "N:iface", "IMPL_MORE", "CDIRS", "FIELDS_OPT">>, <<>>)
         ELSE IF t = "AT" THEN to(DirTail \o <<"FIELDS_OPT">>, <<Open("dir")>>)
         ELSE IF t = "LB" THEN to(<<"FIELD1">>, <<>>) ELSE REJ
    [] X = "EXT_IFACE_NOIMPL" ->
         IF t = "AT" THEN to(DirTail \o <<"FIELDS_OPT">>, <<Open("dir")>>)
         ELSE IF t = "LB" THEN to(<<"FIELD1">>, <<>>) ELSE REJ
    [] X = "EXT_UNION" ->
         IF t = "AT" THEN to(DirTail \o <<"MEMBERS_OPT">>, <<Open("dir")>>)
         ELSE IF t = "EQ" THEN to(<<"PIPE_OPT", "N:member", "MEMBERS_MORE">>, <<>>) ELSE REJ
    [] X = "EXT_ENUM" ->
         IF t = "AT" THEN to(DirTail \o <<"ENUMVALS_OPT">>, <<Open("dir")>>)
         ELSE IF t = "LB" THEN to(<<"EV1">>, <<>>) ELSE REJ
    [] X = "EXT_INPUT" ->
         IF t = "AT" THEN to(DirTail \o <<"INFIELDS_OPT">>, <<Open("dir")>>)
         ELSE IF t = "LB" THEN to(<<"INVAL1_B">>, <<>>) ELSE REJ
    \* types, constant values, constant directives
    [] X = "TYPE" ->
         IF isName THEN to(<<"BANG_OPT", "}named">>, <<Open("named"), Leaf("name", i)>>)
         ELSE IF t = "LK" THEN to(<<"TYPE", "RK", "BANG_OPT", "}list">>, <<Open("list")>>)
         ELSE REJ
    [] X = "BANG_OPT" -> IF t = "BANG" THEN to(<<>>, <<Const("nn", "!")>>) ELSE eps(<<>>)
    [] X = "DEFAULT_OPT" -> IF t = "EQ" THEN to(<<"CVALUE", "}default">>, <<Open("default")>>) ELSE eps(<<>>)
    [] X = "CVALUE" ->
         IF t = "INT" THEN to(<<>>, <<Leaf("int", i)>>)
         ELSE IF t = "FLOAT" THEN to(<<>>, <<Leaf("float", i)>>)
         ELSE IF t = "STR" THEN to(<<>>, <<Leaf("str", i)>>)
         ELSE IF t = "BOOL" THEN to(<<>>, <<Leaf("bool", i)>>)
         ELSE IF t = "NULL" THEN to(<<>>, <<Leaf("null", i)>>)
         ELSE IF isName THEN to(<<>>, <<Leaf("enum", i)>>)
         ELSE IF t = "LK" THEN to(<<"CLISTN", "}listv">>, <<Open("listv")>>)
         ELSE IF t = "LB" THEN to(<<"COBJN", "}obj">>, <<Open("obj")>>)
         ELSE REJ
    [] X = "CLISTN" -> IF t = "RK" THEN to(<<>>, <<>>) ELSE re(<<"CVALUE", "CLISTN">>, <<>>)
    [] X = "COBJN" ->
         IF t = "RB" THEN to(<<>>, <<>>)
         ELSE IF isName THEN to(<<"COLON", "CVALUE", "}objfield", "COBJN">>, <<Open("objfield"), Leaf("name", i)>>)
         ELSE REJ
    [] X = "CDIRS" -> IF t = "AT" THEN to(DirTail, <<Open("dir")>>) ELSE eps(<<>>)
    [] X = "CARGS_OPT" -> IF t = "LP" THEN to(<<"CARG1">>, <<>>) ELSE eps(<<>>)
    [] X = "CARG1" -> IF isName THEN to(<<"COLON", "CVALUE", "}arg", "CARGN">>, <<Open("arg"), Leaf("name", i)>>) ELSE REJ
    [] X = "CARGN" -> IF t = "RP" THEN to(<<>>, <<>>) ELSE re(<<"CARG1">>, <<>>)
    [] OTHER -> REJ

Stack0 == <<"DOC0">>

ParseClasses(cls) ==
  LET f(acc, t) == IF acc.dead THEN acc
                   ELSE LET r == Shift(acc.s, t, acc.n + 1)
                        IN IF Rej(r) THEN [acc EXCEPT !.dead = TRUE, !.at = acc.n + 1]
                           ELSE [s |-> r.s, ev |-> acc.ev \o r.ev, n |-> acc.n + 1, dead |-> FALSE, at |-> 0]
      a == FoldLeft(f, [s |-> Stack0, ev |-> <<>>, n |-> 0, dead |-> FALSE, at |-> 0], cls)
  IN IF a.dead THEN [ok |-> FALSE, ev |-> <<>>, at |-> a.at]
     ELSE LET r == Shift(a.s, "EOF", a.n + 1)
          IN IF r.s = ACC THEN [ok |-> TRUE, ev |-> a.ev \o r.ev, at |-> 0]
             ELSE [ok |-> FALSE, ev |-> <<>>, at |-> a.n + 1]
=============================================================================
