------------------------------ MODULE Links_Trace ------------------------------
(* C->M for linking (C09).  The first record is the loaded schema; every     *)
(* further record is one VALID document: its generic tree, every node        *)
(* carrying its path p, and the links found on the real AST after            *)
(* validator.Validate returned no errors, as facts [p, k, a, b]:             *)
(*   field   a = name of the type it is selected on, b = type of its          *)
(*           definition ("" = no definition)                                  *)
(*   spread  a = name of the fragment definition it links to                  *)
(*   inline  a = name of the definition it links to                           *)
(*   frag    a = name of the definition of its type condition                 *)
(*   dir     a = name of its definition, b = location                         *)
(*   vardef  a = name of its type's definition                                *)
(*   value   a = expected type, b = name of that type's definition            *)
(*   varuse  a = name of the variable definition it links to, b = index of    *)
(*           the operation that declares it                                   *)
(* The specification computes the same facts from the typed walk of          *)
(* Rules.tla (Events) and requires: every real fact is one the walk          *)
(* produces for that node, and every node the walk visits has its fact.      *)
EXTENDS TLC, Json, IOUtils, Integers, Sequences, FiniteSets

CONSTANT Devs
Cases == ndJsonDeserialize(IOEnv.VERIF_TRACE)
R == INSTANCE Rules WITH S <- Cases[1].schema, Devs <- Devs

VARIABLES i, bad, n
vars == <<i, bad, n>>

ToSet(q) == {q[j] : j \in 1..Len(q)}
Fact(p, k, a, b) == [p |-> p, k |-> k, a |-> a, b |-> b]

ToStr(j) == ToString(j)

\* facts the typed walk implies
SpecFacts(D) ==
  LET E == R!Events(D) IN
  {Fact(x.n.p, "field", x.parent, IF x.def = <<>> THEN "" ELSE R!TypeStr(x.def[1].type)) : x \in ToSet(R!Of(E, "field"))}
  \cup {Fact(x.n.p, "spread", IF x.frag = <<>> THEN "" ELSE R!Val(x.frag[1], "name"), "") : x \in ToSet(R!Of(E, "spread"))}
  \cup {Fact(x.n.p, "inline",
             IF "InlineFragmentLinksParent" \in Devs THEN x.parent
             ELSE IF x.cond # "" THEN R!NameOrNone(x.cond) ELSE x.parent, "") : x \in ToSet(R!Of(E, "inline"))}
  \cup {Fact(f.p, "frag", R!NameOrNone(R!Val(f, "typecond")), "") : f \in ToSet(R!Frags(D))}
  \cup {Fact(x.n.p, "dir", IF x.def = <<>> THEN "" ELSE x.def[1].name, x.loc) : x \in ToSet(R!Of(E, "dir"))}
  \cup {Fact(x.n.p, "vardef", R!NameOrNone(R!BaseName(R!VarDefType(x.n))), "") : x \in ToSet(R!Of(E, "vardef"))}
  \cup {Fact(x.n.p, "value", IF x.exp = <<>> THEN "" ELSE R!TypeStr(x.exp[1]), x.def) : x \in ToSet(R!Of(E, "value"))}
  \cup {Fact(x.n.p, "varuse", x.n.v, ToStr(x.op)) :
          x \in {y \in ToSet(R!Of(E, "value")) : y.n.t = "var" /\ y.op # 0 /\ R!VarDefByName(D, y.op, y.n.v) # <<>>}}

Verdict(c) ==
  LET spec == SpecFacts(c.doc)
      real == ToSet(c.links)
      wrong == {f \in real : f \notin spec}
      \* per node AND kind of link: a variable use carries its "value" fact and its "varuse" fact
      missing == {<<f.p, f.k>> : f \in spec} \ {<<f.p, f.k>> : f \in real}
      \* a variable use in a fragment reached by several operations may link to any of them: it is
      \* only wrong if no walk context produces it
  IN IF wrong # {} THEN LET f == CHOOSE f \in wrong : TRUE IN
                        [class |-> "wrong or missing link", fact |-> f, expected |-> {g \in spec : g.p = f.p /\ g.k = f.k}]
     ELSE IF missing # {} THEN LET m == CHOOSE m \in missing : TRUE IN
                               [class |-> "node visited by the walk lacks a link", fact |-> Fact(m[1], m[2], "", ""), expected |-> {g \in spec : g.p = m[1] /\ g.k = m[2]}]
     ELSE [class |-> "ok", fact |-> Fact("", "", "", ""), expected |-> {}]

Init == i = 1 /\ bad = <<>> /\ n = 0
Check == /\ i < Len(Cases)
         /\ i' = i + 1
         /\ LET c == Cases[i + 1]
                v == Verdict(c)
            IN /\ bad' = IF v.class = "ok" \/ Len(bad) >= 100 THEN bad
                         ELSE Append(bad, [id |-> c.id, class |-> v.class, fact |-> v.fact, expected |-> v.expected])
               /\ n' = n + Len(c.links)
Finish == /\ i = Len(Cases)
          /\ i' = i + 1
          /\ ndJsonSerialize(IOEnv.VERIF_REPORT, <<[cases |-> i - 1, events |-> n, bad |-> bad]>>)
          /\ UNCHANGED <<bad, n>>
Next == Check \/ Finish
Spec == Init /\ [][Next]_vars
=============================================================================
