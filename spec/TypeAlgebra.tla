----------------------------- MODULE TypeAlgebra -----------------------------
(***************************************************************************)
(* Type references and the relations between them that the rest of the     *)
(* specification (Rules, TypeSystem, Coerce) relies on:                     *)
(*                                                                         *)
(*   t ::= [k |-> "named", name, nn, of |-> <<>>]                          *)
(*       | [k |-> "list",  name |-> "", nn, of |-> <<t>>]                  *)
(*                                                                         *)
(* TypeStr is the source form (section 3.4: T, [T], T!), BaseName the named *)
(* type underneath every wrapper, Compatible the relation                   *)
(* AreTypesCompatible(variableType, locationType) of section 5.8.5.         *)
(* The library exposes them as ast.Type.String, Name and IsCompatible;      *)
(* TypeAlgebra_MC enumerates every pair of types up to a depth and prints   *)
(* the expected results for replay into those methods.                      *)
(***************************************************************************)
EXTENDS Integers, Sequences

Named(n, nn)  == [k |-> "named", name |-> n, nn |-> nn, of |-> <<>>]
ListOf(t, nn) == [k |-> "list", name |-> "", nn |-> nn, of |-> <<t>>]

RECURSIVE BaseName(_), TypeStr(_), Depth(_)
BaseName(t) == IF t.k = "named" THEN t.name ELSE BaseName(t.of[1])
TypeStr(t) == (IF t.k = "named" THEN t.name ELSE "[" \o TypeStr(t.of[1]) \o "]") \o (IF t.nn THEN "!" ELSE "")
Depth(t) == IF t.k = "named" THEN 0 ELSE 1 + Depth(t.of[1])
Nullable(t) == [t EXCEPT !.nn = FALSE]

RECURSIVE Compatible(_, _)
\* AreTypesCompatible(variableType, locationType)
Compatible(vt, lt) ==
  IF lt.nn /\ ~vt.nn THEN FALSE
  ELSE IF lt.k = "list" THEN vt.k = "list" /\ Compatible(vt.of[1], lt.of[1])
  ELSE vt.k = "named" /\ vt.name = lt.name

\* the same relation written as the specification text writes it (four cases on the two wrappers);
\* TypeAlgebra_MC checks that the two definitions agree on every pair
RECURSIVE CompatibleByCases(_, _)
CompatibleByCases(vt, lt) ==
  IF lt.nn THEN vt.nn /\ CompatibleByCases(Nullable(vt), Nullable(lt))
  ELSE IF vt.nn THEN CompatibleByCases(Nullable(vt), lt)
  ELSE IF lt.k = "list" THEN vt.k = "list" /\ CompatibleByCases(vt.of[1], lt.of[1])
  ELSE IF vt.k = "list" THEN FALSE
  ELSE vt.name = lt.name

\* Kinds of named types (section 3.4.2 / 3.5: leaf, abstract, composite, input, output).  The rules are
\* written with these predicates; the library exposes them as methods of ast.Definition.
Kinds == {"SCALAR", "OBJECT", "INTERFACE", "UNION", "ENUM", "INPUT_OBJECT"}
IsLeafKind(k)      == k \in {"SCALAR", "ENUM"}
IsAbstractKind(k)  == k \in {"INTERFACE", "UNION"}
IsCompositeKind(k) == k \in {"OBJECT", "INTERFACE", "UNION"}
IsInputKind(k)     == k \in {"SCALAR", "ENUM", "INPUT_OBJECT"}
IsOutputKind(k)    == k \in {"SCALAR", "OBJECT", "INTERFACE", "UNION", "ENUM"}

\* "a is at least as strict as b at every level and has the same shape": the order Compatible induces
RECURSIVE SameShape(_, _)
SameShape(a, b) == a.k = b.k /\ (IF a.k = "named" THEN a.name = b.name ELSE SameShape(a.of[1], b.of[1]))
=============================================================================
