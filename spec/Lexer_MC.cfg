SPECIFICATION Spec
CONSTANTS
  Devs = {}
  Sigma = {97, 101, 117, 95, 48, 49, 45, 46, 34, 92, 35, 32, 10, 13, 65279, 123, 63, 1, 233}
  MaxLen = 5
INVARIANTS Bounds Terminal
PROPERTY Progress
CHECK_DEADLOCK FALSE
