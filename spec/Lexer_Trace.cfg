SPECIFICATION Spec
CONSTANTS
  Devs = {}
CHECK_DEADLOCK FALSE
