------------------------------ MODULE ArgMap_MC ------------------------------
(* The decision table: variables $p: Int, $q: Int = 3 and $n: Int = null    *)
(* (a default that is the null literal is still a default), each absent /   *)
(* null / 5 in the supplied map; one argument of                            *)
(*   f(i: Int, d: Int = 7, l: [Int], o: Obj, a: Any, e: E = RED,            *)
(*     fl: Float, id: ID, fls: [Float])                                     *)
(* written as nothing, a literal (with nested variables) or a variable.     *)
(* Every row is printed with the expected argument-map entry and TLC checks *)
(* the precedence law on every row.                                         *)
EXTENDS ArgMap, TLC, Json

VarDefs == << [name |-> "p", def |-> <<>>], [name |-> "q", def |-> <<VInt(3)>>], [name |-> "n", def |-> <<VNull>>],   \* $n: Int = null
            [name |-> "e", def |-> <<VList(<<>>)>>, t |-> ListOf(Named("Int", FALSE), FALSE)] >>   \* $e: [Int] = []  (the empty list is a value)
SupplyE == { <<>>, <<[name |-> "e", v |-> VList(<<VInt(5)>>)]>> }
Supply(name) == { <<>>, <<[name |-> name, v |-> VNull]>>, <<[name |-> name, v |-> VInt(5)]>> }

\* The switch SCHEMA2 (carried in Devs with the deviations; it is a configuration, not a deviation)
\* selects a second schema with the same names and other defaults:  f(i: Int = 11, d: Int = 8, e: E = GREEN)
S2 == "SCHEMA2" \in Devs
ArgDefault(a) == CASE a = "d" -> <<VInt(IF S2 THEN 8 ELSE 7)>>
                   [] a = "e" -> <<VEnum(IF S2 THEN "GREEN" ELSE "RED")>>
                   [] a = "i" /\ S2 -> <<VInt(11)>>
                   [] OTHER -> <<>>
Uses(a) ==
  CASE a \in {"i", "d"} -> { <<>>, <<VInt(1)>>, <<VNull>>, <<VVar("p")>>, <<VVar("q")>>, <<VVar("n")>> }
    [] a = "l" -> { <<>>, <<VList(<<VInt(1), VVar("p")>>)>>, <<VList(<<VVar("q"), VNull>>)>>, <<VList(<<VVar("n"), VInt(2)>>)>>, <<VList(<<>>)>>, <<VNull>>, <<VVar("e")>> }
    [] a = "o" -> { <<>>, <<VMap(<<Ent("x", VVar("p"))>>)>>, <<VMap(<<Ent("x", VVar("n"))>>)>>,
                    <<VMap(<<Ent("x", VInt(1)), Ent("y", VList(<<VVar("q")>>)), Ent("z", VMap(<<Ent("x", VVar("p"))>>))>>)>>,
                    <<VMap(<<>>)>>, <<VNull>> }
    [] a = "a" -> { <<>>, <<VFloat("3.5")>>, <<VStr("s")>>, <<VStr("LATIN1")>>, <<VList(<<VStr("LATIN1"), VStr("s")>>)>>, <<VEnum("ENUMV")>>, <<VBool(TRUE)>>,
                    <<VMap(<<Ent("k", VList(<<VInt(1), VMap(<<Ent("m", VVar("p"))>>)>>))>>)>>, <<VBig>>,
                    <<VList(<<VBig>>)>>, <<VMap(<<Ent("k", VVar("e"))>>)>> }
    [] a = "e" -> { <<>>, <<VEnum("GREEN")>>, <<VEnum("RED")>>, <<VNull>> }
    \* numeric literals at the edge of what the host language can represent: if such a document
    \* passes validation, resolving its arguments must still return normally
    [] a = "fl" -> { <<>>, <<VFloat("2.5")>>, <<VInt(1)>>, <<VBig>>, <<VHuge>> }
    [] a = "id" -> { <<>>, <<VStr("x")>>, <<VStr("LATIN1")>>, <<VInt(4)>>, <<VBig>> }
    [] a = "fls" -> { <<>>, <<VList(<<VFloat("2.5"), VHuge>>)>>, <<VList(<<VBig>>)>> }

\* "LATIN1" names a string the harness writes with \u00XX escapes (code points 128..255): the
\* model's strings are ASCII, the value compared is the one the name stands for
VARIABLES arg, use, sp, sq, sn, se
vars == <<arg, use, sp, sq, sn, se>>
Init == /\ arg \in {"i", "d", "l", "o", "a", "e", "fl", "id", "fls"}
        /\ use \in Uses(arg)
        /\ sp \in Supply("p") /\ sq \in Supply("q") /\ sn \in Supply("n") /\ se \in SupplyE
Next == UNCHANGED vars
Spec == Init /\ [][Next]_vars

CVars == CoercedVars(VarDefs, sp \o sq \o sn \o se)
Exp == ArgValue(ArgDefault(arg), use, CVars)
ArgNames == <<"i", "d", "l", "o", "a", "e", "fl", "id", "fls">>
ExpAll == [j \in 1..Len(ArgNames) |->
             LET a == ArgNames[j]  r == ArgValue(ArgDefault(a), IF a = arg THEN use ELSE <<>>, CVars)
             IN [arg |-> a, present |-> r.present, val |-> r.val]]
Emit == PrintT(<<"CASE", ToJson([arg |-> arg, use |-> use, supplied |-> sp \o sq \o sn \o se, cvars |-> CVars, exp |-> Exp, all |-> ExpAll])>>)

\* precedence: literal > variable > default; explicit null is a value
Precedence ==
  /\ (use # <<>> /\ use[1].k # "var") => Exp.src = "literal"
  /\ (use # <<>> /\ use[1].k = "var" /\ HasVar(CVars, use[1].s)) => Exp.src = "variable"
  /\ (Exp.src = "default") => (ArgDefault(arg) # <<>> /\ (use = <<>> \/ (use[1].k = "var" /\ ~HasVar(CVars, use[1].s))))
  /\ (~Exp.present) => (ArgDefault(arg) = <<>> /\ (use = <<>> \/ (use[1].k = "var" /\ ~HasVar(CVars, use[1].s))))
\* a variable with a default always has a coerced value; a supplied null stays null
VarLaw == /\ HasVar(CVars, "q")
          /\ (sq # <<>> /\ sq[1].v.k = "null") => VarVal(CVars, "q").k = "null"
          /\ (sq = <<>>) => VarVal(CVars, "q") = VInt(3)
          /\ HasVar(CVars, "p") <=> sp # <<>>
          \* a default that is the literal null is applied like any other default
          /\ HasVar(CVars, "n")
          /\ (sn = <<>>) => VarVal(CVars, "n").k = "null"
          /\ (sn # <<>>) => VarVal(CVars, "n") = sn[1].v
          \* a default that is the empty list is a value, not null
          /\ HasVar(CVars, "e")
          /\ (se = <<>>) => VarVal(CVars, "e") = VList(<<>>)
=============================================================================
