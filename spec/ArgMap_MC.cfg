SPECIFICATION Spec
CONSTANTS
  Devs = {}
INVARIANTS Emit Precedence VarLaw
CHECK_DEADLOCK FALSE
