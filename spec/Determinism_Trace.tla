-------------------------- MODULE Determinism_Trace --------------------------
(* C->M: each case is one (schema text, document text) pair, or one schema  *)
(* text, with the results observed in every run: obs = sequence of          *)
(* [run, errs] where errs is the full error list (rule, message, locations, *)
(* file) in order.  All observations of a case must be identical.           *)
EXTENDS TLC, Json, IOUtils, Integers, Sequences, FiniteSets

Cases == ndJsonDeserialize(IOEnv.VERIF_TRACE)
VARIABLES i, bad, n
vars == <<i, bad, n>>

Verdict(c) ==
  LET differ == {j \in 2..Len(c.obs) : c.obs[j].errs # c.obs[1].errs}
  IN IF differ = {} THEN [class |-> "ok", run |-> "", first |-> <<>>, other |-> <<>>]
     ELSE LET j == CHOOSE j \in differ : \A k \in differ : j <= k
          IN [class |-> "same texts, different error list", run |-> c.obs[j].run, first |-> c.obs[1].errs, other |-> c.obs[j].errs]

Init == i = 0 /\ bad = <<>> /\ n = 0
Check == /\ i < Len(Cases)
         /\ i' = i + 1
         /\ LET c == Cases[i + 1]
                v == Verdict(c)
            IN /\ bad' = IF v.class = "ok" \/ Len(bad) >= 100 THEN bad
                         ELSE Append(bad, [id |-> c.id, class |-> v.class, run |-> v.run, first |-> v.first, other |-> v.other])
               /\ n' = n + Len(c.obs)
Finish == /\ i = Len(Cases)
          /\ i' = i + 1
          /\ ndJsonSerialize(IOEnv.VERIF_REPORT, <<[cases |-> i, events |-> n, bad |-> bad]>>)
          /\ UNCHANGED <<bad, n>>
Next == Check \/ Finish
Spec == Init /\ [][Next]_vars
=============================================================================
