---------------------------- MODULE QueryGrammar ----------------------------
(***************************************************************************)
(* The GraphQL (October 2021) executable-document grammar as an LL(1)      *)
(* pushdown automaton over token classes, with SAX-style tree events.      *)
(*                                                                         *)
(* Shift(stack, t, i) consumes token number i of class t: it returns the   *)
(* new stack and the tree events this token causes, or REJ if no           *)
(* production admits t here.  Stack symbols beginning with "}" are close   *)
(* markers: they are popped (emitting a close event) as soon as they reach *)
(* the top.  The tree a document denotes is BuildTree of its events, with  *)
(* leaf events referring to tokens by index, so the grammar is independent *)
(* of lexemes.                                                             *)
(*                                                                         *)
(* Used (1) as the next-state relation of QueryGrammar_MC, whose dumped    *)
(* state graph is replayed path by path into parser.ParseQuery, and (2)    *)
(* folded over recorded token streams by QueryGrammar_Trace.               *)
(*                                                                         *)
(* Documented extension of the strict grammar: fragment definitions may    *)
(* declare variables (kept by the library, named by property C12).         *)
(***************************************************************************)
EXTENDS Tree, FiniteSets

CONSTANT Devs

NameKinds == {"NAME", "ON", "OP", "FRAGMENT", "BOOL", "NULL"}
ValueLeaf == [INT |-> "int", FLOAT |-> "float", STR |-> "str", BOOL |-> "bool", NULL |-> "null",
              NAME |-> "enum", ON |-> "enum", OP |-> "enum", FRAGMENT |-> "enum"]
Classes == NameKinds \cup {"LB", "RB", "LP", "RP", "LK", "RK", "COLON", "EQ", "BANG", "DOLLAR",
                           "AT", "SPREAD", "INT", "FLOAT", "STR", "PIPE"}

IsMarker(X) == X \in {"}op", "}frag", "}vardef", "}named", "}list", "}default", "}listv", "}obj",
                      "}objfield", "}dir", "}arg", "}field", "}spread", "}inline"}

RECURSIVE Shift(_, _, _)
Shift(s, t, i) ==
  IF s = <<>> THEN REJ ELSE
  LET X == Head(s)
      R == Tail(s)
      to(seq, ev) == [s |-> seq \o R, ev |-> ev]                 \* consume t
      eps(ev) == LET r == Shift(R, t, i)                          \* pop X without consuming
                 IN IF Rej(r) THEN REJ ELSE [s |-> r.s, ev |-> ev \o r.ev]
      re(seq, ev) == LET r == Shift(seq \o R, t, i)               \* expand X without consuming
                     IN IF Rej(r) THEN REJ ELSE [s |-> r.s, ev |-> ev \o r.ev]
      isName == t \in NameKinds
      const == X \in {"CVALUE", "CLISTN", "COBJN", "CDIRS", "CARGS_OPT", "CARG1", "CARGN"}
      V  == IF const THEN "CVALUE" ELSE "VALUE"
  IN
  CASE IsMarker(X) -> eps(<<Close>>)
    [] X = "DOC0" ->
         IF t = "LB" THEN to(<<"SEL1", "}op", "DOC1">>, <<Open("op"), Const("opkind", "query")>>)
         ELSE IF t = "OP" THEN to(<<"OPT_NAME", "VARDEFS_OPT", "DIRS", "SELSET", "}op", "DOC1">>,
                                  <<Open("op"), Leaf("opkind", i)>>)
         ELSE IF t = "FRAGMENT" THEN to(<<"FRAGNAME", "VARDEFS_OPT", "KW_ON", "TYPECOND", "DIRS", "SELSET", "}frag", "DOC1">>,
                                        <<Open("frag")>>)
         ELSE IF t = "EOF" /\ "EmptyDocument" \in Devs THEN [s |-> ACC, ev |-> <<>>]
         ELSE REJ
    [] X = "DOC1" -> IF t = "EOF" THEN [s |-> ACC, ev |-> <<>>] ELSE re(<<"DOC0">>, <<>>)
    [] X = "N:name"  -> IF isName THEN to(<<>>, <<Leaf("name", i)>>) ELSE REJ
    [] X = "N:var"   -> IF isName THEN to(<<>>, <<Leaf("var", i)>>) ELSE REJ
    [] X = "TYPECOND" -> IF isName THEN to(<<>>, <<Leaf("typecond", i)>>) ELSE REJ
    [] X = "FRAGNAME" -> IF isName /\ t # "ON" THEN to(<<>>, <<Leaf("name", i)>>) ELSE REJ
    [] X = "KW_ON"   -> IF t = "ON" THEN to(<<>>, <<>>) ELSE REJ
    [] X = "OPT_NAME" -> IF isName THEN to(<<>>, <<Leaf("name", i)>>) ELSE eps(<<>>)
    [] X = "COLON"   -> IF t = "COLON" THEN to(<<>>, <<>>) ELSE REJ
    [] X = "RK"      -> IF t = "RK" THEN to(<<>>, <<>>) ELSE REJ
    [] X = "VARDEFS_OPT" -> IF t = "LP" THEN to(<<"VARDEF1">>, <<>>) ELSE eps(<<>>)
    [] X = "VARDEF1" ->
         IF t = "DOLLAR"
         THEN to(<<"N:var", "COLON", "TYPE", "DEFAULT_OPT",
                   IF "VarDirectivesNonConst" \in Devs THEN "DIRS" ELSE "CDIRS", "}vardef", "VARDEFN">>,
                 <<Open("vardef")>>)
         ELSE REJ
    [] X = "VARDEFN" -> IF t = "RP" THEN to(<<>>, <<>>) ELSE re(<<"VARDEF1">>, <<>>)
    [] X = "TYPE" ->
         IF isName THEN to(<<"BANG_OPT", "}named">>, <<Open("named"), Leaf("name", i)>>)
         ELSE IF t = "LK" THEN to(<<"TYPE", "RK", "BANG_OPT", "}list">>, <<Open("list")>>)
         ELSE REJ
    [] X = "BANG_OPT" -> IF t = "BANG" THEN to(<<>>, <<Const("nn", "!")>>) ELSE eps(<<>>)
    [] X = "DEFAULT_OPT" -> IF t = "EQ" THEN to(<<"CVALUE", "}default">>, <<Open("default")>>) ELSE eps(<<>>)
    [] X \in {"VALUE", "CVALUE"} ->
         IF t = "DOLLAR" THEN (IF const THEN REJ ELSE to(<<"N:var">>, <<>>))
         ELSE IF t \in DOMAIN ValueLeaf THEN to(<<>>, <<Leaf(ValueLeaf[t], i)>>)
         ELSE IF t = "LK" THEN to(<<IF const THEN "CLISTN" ELSE "LISTN", "}listv">>, <<Open("listv")>>)
         ELSE IF t = "LB" THEN to(<<IF const THEN "COBJN" ELSE "OBJN", "}obj">>, <<Open("obj")>>)
         ELSE REJ
    [] X \in {"LISTN", "CLISTN"} -> IF t = "RK" THEN to(<<>>, <<>>) ELSE re(<<V, X>>, <<>>)
    [] X \in {"OBJN", "COBJN"} ->
         IF t = "RB" THEN to(<<>>, <<>>)
         ELSE IF isName THEN to(<<"COLON", V, "}objfield", X>>, <<Open("objfield"), Leaf("name", i)>>)
         ELSE REJ
    [] X \in {"DIRS", "CDIRS"} ->
         IF t = "AT" THEN to(<<"N:name", IF const THEN "CARGS_OPT" ELSE "ARGS_OPT", "}dir", X>>, <<Open("dir")>>)
         ELSE eps(<<>>)
    [] X \in {"ARGS_OPT", "CARGS_OPT"} ->
         IF t = "LP" THEN to(<<IF const THEN "CARG1" ELSE "ARG1">>, <<>>) ELSE eps(<<>>)
    [] X \in {"ARG1", "CARG1"} ->
         IF isName THEN to(<<"COLON", V, "}arg", IF const THEN "CARGN" ELSE "ARGN">>,
                           <<Open("arg"), Leaf("name", i)>>)
         ELSE REJ
    [] X \in {"ARGN", "CARGN"} ->
         IF t = "RP" THEN to(<<>>, <<>>) ELSE re(<<IF const THEN "CARG1" ELSE "ARG1">>, <<>>)
    [] X = "SELSET" -> IF t = "LB" THEN to(<<"SEL1">>, <<>>) ELSE REJ
    [] X = "SELSET_OPT" -> IF t = "LB" THEN to(<<"SEL1">>, <<>>) ELSE eps(<<>>)
    [] X = "SEL1" ->
         IF isName THEN to(<<"ALIAS_OPT", "ARGS_OPT", "DIRS", "SELSET_OPT", "}field", "SELN">>,
                           <<Open("field"), Leaf("alias", i), Leaf("name", i)>>)
         ELSE IF t = "SPREAD" THEN to(<<"AFTER_SPREAD", "SELN">>, <<>>)
         ELSE REJ
    [] X = "SELN" -> IF t = "RB" THEN to(<<>>, <<>>) ELSE re(<<"SEL1">>, <<>>)
    [] X = "ALIAS_OPT" -> IF t = "COLON" THEN to(<<"ALIASED">>, <<>>) ELSE eps(<<>>)
    [] X = "ALIASED" -> IF isName THEN to(<<>>, <<SetName(i)>>) ELSE REJ
    [] X = "AFTER_SPREAD" ->
         IF isName /\ t # "ON" THEN to(<<"DIRS", "}spread">>, <<Open("spread"), Leaf("name", i)>>)
         ELSE IF t = "ON" THEN to(<<"TYPECOND", "DIRS", "SELSET", "}inline">>, <<Open("inline")>>)
         ELSE re(<<"DIRS", "SELSET", "}inline">>, <<Open("inline")>>)
    [] OTHER -> REJ

Stack0 == <<"DOC0">>

-----------------------------------------------------------------------------
(* Whole-document parse of a sequence of token classes: [ok, ev, at] where  *)
(* at is the index of the first token no production admits (Len+1 = EOF).   *)
ParseClasses(cls) ==
  LET f(acc, t) == IF acc.dead THEN acc
                   ELSE LET r == Shift(acc.s, t, acc.n + 1)
                        IN IF Rej(r) THEN [acc EXCEPT !.dead = TRUE, !.at = acc.n + 1]
                           ELSE [s |-> r.s, ev |-> acc.ev \o r.ev, n |-> acc.n + 1, dead |-> FALSE, at |-> 0]
      a == FoldLeft(f, [s |-> Stack0, ev |-> <<>>, n |-> 0, dead |-> FALSE, at |-> 0], cls)
  IN IF a.dead THEN [ok |-> FALSE, ev |-> <<>>, at |-> a.at]
     ELSE LET r == Shift(a.s, "EOF", a.n + 1)
          IN IF r.s = ACC THEN [ok |-> TRUE, ev |-> a.ev \o r.ev, at |-> 0]
             ELSE [ok |-> FALSE, ev |-> <<>>, at |-> a.n + 1]
=============================================================================
