---------------------------- MODULE Compose_Trace ----------------------------
(* C->M: for one (schema, document) pair the errors reported by every        *)
(* exported rule alone (singles), by rule subsets in some order (sets), by    *)
(* the default call and the explicit list of all specified rules, and by the  *)
(* without-suggestions variants.  An error is [rule, msg, locs].              *)
EXTENDS TLC, Json, IOUtils, Integers, Sequences, FiniteSets

Cases == ndJsonDeserialize(IOEnv.VERIF_TRACE)
VARIABLES i, bad, n
vars == <<i, bad, n>>

ToSet(q) == {q[j] : j \in 1..Len(q)}
Count(q, e) == Cardinality({j \in 1..Len(q) : q[j] = e})
SingleOf(c, r) == LET idx == {j \in 1..Len(c.singles) : c.singles[j].rule = r} IN c.singles[CHOOSE j \in idx : TRUE].errs
SumOf(c, rules, e) == LET add[k \in 0..Len(rules)] == IF k = 0 THEN 0 ELSE add[k - 1] + Count(SingleOf(c, rules[k]), e) IN add[Len(rules)]

SetBad(c, s) ==
  IF \E e \in ToSet(s.errs) : e.rule \notin ToSet(s.rules) THEN "error tagged with a rule that was not run"
  ELSE LET all == ToSet(s.errs) \cup UNION {ToSet(SingleOf(c, s.rules[k])) : k \in 1..Len(s.rules)}
       IN IF \E e \in all : Count(s.errs, e) # SumOf(c, s.rules, e)
          THEN "errors of the set are not the union of the errors of its members" ELSE ""

IsPrefixStr(p, s) == Len(p) <= Len(s) /\ SubSeq(s, 1, Len(p)) = p
VariantBad(v) ==
  \* v: [rule, base, errs (variant), baseErrs (standard)]
  IF Len(v.errs) # Len(v.baseErrs) THEN "variant reports a different number of errors"
  ELSE IF \E j \in 1..Len(v.errs) :
            \/ v.errs[j].locs # v.baseErrs[j].locs
            \/ ~IsPrefixStr(v.errs[j].msg, v.baseErrs[j].msg)
            \/ (Len(v.baseErrs[j].msg) > Len(v.errs[j].msg) /\
                ~IsPrefixStr(" Did you mean", SubSeq(v.baseErrs[j].msg, Len(v.errs[j].msg) + 1, Len(v.baseErrs[j].msg))))
       THEN "variant differs by more than the suggestion suffix" ELSE ""

Verdict(c) ==
  LET sb == {j \in 1..Len(c.sets) : SetBad(c, c.sets[j]) # ""}
      vb == {j \in 1..Len(c.variants) : VariantBad(c.variants[j]) # ""}
  IN IF sb # {} THEN LET j == CHOOSE j \in sb : TRUE IN [class |-> SetBad(c, c.sets[j]), which |-> c.sets[j].label]
     ELSE IF vb # {} THEN LET j == CHOOSE j \in vb : TRUE IN [class |-> VariantBad(c.variants[j]), which |-> c.variants[j].rule]
     ELSE [class |-> "ok", which |-> ""]

Init == i = 0 /\ bad = <<>> /\ n = 0
Check == /\ i < Len(Cases)
         /\ i' = i + 1
         /\ LET c == Cases[i + 1]
                v == Verdict(c)
            IN /\ bad' = IF v.class = "ok" \/ Len(bad) >= 100 THEN bad ELSE Append(bad, [id |-> c.id, class |-> v.class, which |-> v.which])
               /\ n' = n + Len(c.sets) + Len(c.variants)
Finish == /\ i = Len(Cases)
          /\ i' = i + 1
          /\ ndJsonSerialize(IOEnv.VERIF_REPORT, <<[cases |-> i, events |-> n, bad |-> bad]>>)
          /\ UNCHANGED <<bad, n>>
Next == Check \/ Finish
Spec == Init /\ [][Next]_vars
=============================================================================
