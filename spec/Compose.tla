------------------------------- MODULE Compose -------------------------------
(* Rule sets compose.  A rule is an observer: it keeps private state, sees   *)
(* the walk's events in order and may emit errors.  Validation with a list   *)
(* of rules dispatches every event to every observer in list order.  If      *)
(* observers only read the event and their own state, the errors a rule      *)
(* emits do not depend on which other rules run (CompositionLaw).  The       *)
(* model also contains an observer that reads a flag another observer        *)
(* writes on the shared document, to show the law is not vacuous.            *)
EXTENDS Integers, Sequences, FiniteSets, SequencesExt
CONSTANTS EventKinds, MaxLen, WithInterference

Rules == {"count_a", "first_b", "reader"}
\* private state and shared document flag
\* step(rule, state, shared, ev) -> [state, shared, emit]
StepRule(r, st, sh, ev) ==
  CASE r = "count_a" -> [st |-> IF ev = "a" THEN st + 1 ELSE st, sh |-> sh,
                         emit |-> IF ev = "a" /\ st >= 1 THEN <<"dup_a">> ELSE <<>>]
    [] r = "first_b" -> [st |-> IF ev = "b" THEN 1 ELSE st,
                         sh |-> IF WithInterference /\ ev = "b" THEN TRUE ELSE sh,      \* marks the document
                         emit |-> IF ev = "b" /\ st = 0 THEN <<"b_seen">> ELSE <<>>]
    [] r = "reader"  -> [st |-> st, sh |-> sh,
                         emit |-> IF ev = "c" /\ ~sh THEN <<"c_unmarked">> ELSE <<>>]  \* reads the mark

\* run a list of rules over an event sequence: errors as a sequence of [rule, err]
Run(rs, evs) ==
  LET stepAll(acc, ev) ==
        FoldLeft(LAMBDA a, j :
                   LET r == rs[j]
                       x == StepRule(r, a.st[j], a.sh, ev)
                   IN [st |-> [a.st EXCEPT ![j] = x.st], sh |-> x.sh,
                       errs |-> a.errs \o [m \in 1..Len(x.emit) |-> [rule |-> r, err |-> x.emit[m]]]],
                 acc, [j \in 1..Len(rs) |-> j])
      fin == FoldLeft(stepAll, [st |-> [j \in 1..Len(rs) |-> 0], sh |-> FALSE, errs |-> <<>>], evs)
  IN fin.errs

Of(errs, r) == SelectSeq(errs, LAMBDA e : e.rule = r)
\* what each member reports in the set is what it reports alone
CompositionLaw(rs, evs) == \A j \in 1..Len(rs) : Of(Run(rs, evs), rs[j]) = Run(<<rs[j]>>, evs)
Tagged(rs, evs) == \A e \in Range(Run(rs, evs)) : e.rule \in Range(rs)
=============================================================================
