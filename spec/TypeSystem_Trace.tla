--------------------------- MODULE TypeSystem_Trace ---------------------------
(* C->M for schema loading (C07) and its independence of order and file     *)
(* split (C17).  A case is one set of definitions:                          *)
(*   doc       the abstract type-system document as projected from the real *)
(*             parser's output for the base variant (prelude included)      *)
(*   variants  what gqlparser.LoadSchema returned for the base order and    *)
(*             for every permutation / partition into files of the same     *)
(*             definitions: [ok, types, dirs, possible, implements, q, m,   *)
(*             s, introspection, errfile, files (of involved definitions)]  *)
(* Every variant must equal the specification's verdict and schema for doc. *)
EXTENDS TypeSystem, TLC, Json, IOUtils

Cases == ndJsonDeserialize(IOEnv.VERIF_TRACE)
VARIABLES i, bad, n
vars == <<i, bad, n>>

RelSame(expected, names, got) ==
  \* got: sequence of [name, of]; every name with a non-empty relation must appear with exactly that set
  /\ \A e \in Range(got) : e.name \in names /\ Range(e.of) = expected[e.name]
  /\ \A nm \in names : expected[nm] # {} => \E e \in Range(got) : e.name = nm

VariantBad(doc, loads, S, v) ==
  IF v.ok # loads THEN (IF loads THEN "rejected a well-formed type system" ELSE "loaded an ill-formed type system")
  ELSE IF ~v.ok THEN (IF v.files # <<>> /\ Cardinality(Violated(doc)) = 1 /\ v.errfile \notin Range(v.files) THEN "load error names a file none of the involved definitions is in" ELSE "")
  ELSE IF Range(v.types) # S.types THEN "set of types differs"
  ELSE IF Range(v.builtins) # S.builtins THEN "set of types marked built-in differs"
  ELSE IF Range(v.dirs) # S.dirs THEN "set of directives differs"
  ELSE IF ~RelSame(S.possible, S.types, v.possible) THEN "possible-types relation differs"
  ELSE IF ~RelSame(S.implements, S.types, v.implements) THEN "implements relation differs"
  ELSE IF v.q # S.q \/ v.m # S.m \/ v.s # S.s THEN "root operation types differ"
  ELSE IF S.q # <<>> /\ ~v.introspection THEN "introspection fields missing on the query root"
  ELSE ""

Verdict(c) ==
  LET loads == Loads(c.doc)
      S == IF loads THEN Schema(c.doc) ELSE [types |-> {}, dirs |-> {}, possible |-> <<>>, implements |-> <<>>, q |-> <<>>, m |-> <<>>, s |-> <<>>, builtins |-> {}]
      badv == {j \in 1..Len(c.variants) : VariantBad(c.doc, loads, S, c.variants[j]) # ""}
  IN IF badv = {} THEN [class |-> "ok", variant |-> 0, violated |-> {}]
     ELSE LET j == Min(badv) IN [class |-> VariantBad(c.doc, loads, S, c.variants[j]), variant |-> j, violated |-> Violated(c.doc)]

Init == i = 0 /\ bad = <<>> /\ n = 0
Check == /\ i < Len(Cases)
         /\ i' = i + 1
         /\ LET c == Cases[i + 1]
                v == Verdict(c)
            IN /\ bad' = IF v.class = "ok" \/ Len(bad) >= 100 THEN bad
                         ELSE Append(bad, [id |-> c.id, class |-> v.class, variant |-> v.variant, violated |-> v.violated])
               /\ n' = n + Len(c.variants)
Finish == /\ i = Len(Cases)
          /\ i' = i + 1
          /\ ndJsonSerialize(IOEnv.VERIF_REPORT, <<[cases |-> i, events |-> n, bad |-> bad]>>)
          /\ UNCHANGED <<bad, n>>
Next == Check \/ Finish
Spec == Init /\ [][Next]_vars
=============================================================================
