--------------------------- MODULE TokenLimit_Trace ---------------------------
(* C->M: event streams recorded by hook H1 inside parser.peek / parser.next *)
(* (["L", kind, start] a lexer call, ["N", count] next() counted a token,   *)
(* ["H", count] the limit check fired) for one parse of one input under one *)
(* limit, validated against the budget machine of TokenLimit and, when the  *)
(* source text is supplied, against the specification's own tokenisation.   *)
(*                                                                          *)
(* case: [id, limit, n (tokens counted by the harness with the real lexer), *)
(*        src (code points, <<>> for the multi-megabyte families), hasSrc,  *)
(*        ok0 (parse without limit succeeds), ok, tree0, tree, events]      *)
EXTENDS Lexer, TLC, Json, IOUtils

Cases == ndJsonDeserialize(IOEnv.VERIF_TRACE)
VARIABLES i, bad, n
vars == <<i, bad, n>>

\* The budget machine of TokenLimit.tla (model-checked) looks exactly one token ahead and
\* counts one token per call. The property only asks that the work is bounded by the
\* limit, so the trace accepts any implementation whose lexer stays within a small constant
\* of the count and of the limit, whose counter only grows, and which raises the limit
\* error only above the limit.
Lookahead == 4
\* Memory: the bytes allocated by a call on a multi-megabyte input (alloc, measured by the
\* harness around the call; 0 = not measured) stay within a base plus a per-token allowance of
\* the limit: they do not follow the size of the input.
\* a negative limit (outside the statement's quantifier, but accepted by the entry points) allows
\* the work of zero tokens: only an input without any token fits it
Budget(limit) == IF limit < 0 THEN 0 ELSE limit
AllocBase == 1048576
AllocPerToken == 4096

Fold(c, toks) ==
  LET f(a, e) ==
        IF a.bad # "" THEN a
        ELSE IF e[1] = "L" THEN
               LET lx == a.lexed + 1 IN
               IF a.hit THEN [a EXCEPT !.bad = "lexer called after the limit error"]
               ELSE IF c.limit # 0 /\ lx > Budget(c.limit) + Lookahead THEN [a EXCEPT !.bad = "lexer calls exceed the limit by more than the look-ahead bound"]
               ELSE IF lx > a.count + Lookahead THEN [a EXCEPT !.bad = "lexer further ahead of the token count than the look-ahead bound"]
               ELSE IF e[3] < a.lastStart THEN [a EXCEPT !.bad = "lexer went backwards"]
               ELSE IF c.hasSrc /\ e[2] \notin {"EOF", "Invalid"} /\
                       (lx > Len(toks) \/ toks[lx].k # e[2] \/ toks[lx].s # e[3])
                    THEN [a EXCEPT !.bad = "lexer call does not return the next token of the input"]
               ELSE [a EXCEPT !.lexed = lx, !.lastStart = e[3]]
        ELSE IF e[1] = "N" THEN
               IF a.hit THEN [a EXCEPT !.bad = "next() counted after the limit error"]
               ELSE IF e[2] <= a.count THEN [a EXCEPT !.bad = "token counter did not increase"]
               ELSE [a EXCEPT !.count = e[2]]
        ELSE IF e[1] = "H" THEN
               IF c.limit = 0 \/ e[2] <= c.limit \/ e[2] # a.count
               THEN [a EXCEPT !.bad = "limit error raised at the wrong count"]
               ELSE [a EXCEPT !.hit = TRUE]
        ELSE [a EXCEPT !.bad = "unknown event"]
  IN FoldLeft(f, [lexed |-> 0, count |-> 0, hit |-> FALSE, lastStart |-> 0, bad |-> ""], c.events)

\* A list of sources parsed by one call (multi = TRUE, srcs = their texts): the
\* limit applies to each source on its own (every source gets a parser of its
\* own), so the call succeeds exactly when every source parses and fits.
MultiVerdict(c) ==
  LET Ns == [k \in 1..Len(c.srcs) |-> Len(SelectSeq(LexAll(c.srcs[k]).toks, LAMBDA t : t.k # "EOF"))]
      fits == c.limit = 0 \/ \A k \in 1..Len(c.srcs) : Ns[k] <= Budget(c.limit)
  IN IF c.ok # (c.ok0 /\ fits) THEN "limit not exact for a list of sources: ok=" \o ToString(c.ok) \o " although unlimited ok=" \o ToString(c.ok0)
                                      \o ", tokens per source=" \o ToString(Ns) \o ", limit=" \o ToString(c.limit)
     ELSE IF c.ok /\ c.tree # c.tree0 THEN "tree of a list of sources under a sufficient limit differs from the unlimited tree"
     ELSE "ok"

SingleVerdict(c) ==
  LET lex  == IF c.hasSrc THEN LexAll(c.src) ELSE [toks |-> <<>>, err |-> FALSE]
      N    == IF c.hasSrc THEN Len(SelectSeq(lex.toks, LAMBDA t : t.k # "EOF")) ELSE c.n
      a    == Fold(c, lex.toks)
      fits == c.limit = 0 \/ N <= Budget(c.limit)
  IN IF c.hasSrc /\ ~lex.err /\ N # c.n THEN "harness token count differs from the specification's"
     ELSE IF a.bad # "" THEN a.bad
     ELSE IF c.ok # (c.ok0 /\ fits) THEN "limit not exact: ok=" \o ToString(c.ok) \o " although unlimited ok=" \o ToString(c.ok0) \o ", tokens=" \o ToString(N) \o ", limit=" \o ToString(c.limit)
     ELSE IF c.ok /\ (a.count < N \/ a.lexed < N + 1) THEN "parse succeeded although fewer tokens were counted / lexed than the input has (events missing)"
     ELSE IF c.ok /\ c.tree # c.tree0 THEN "tree under a sufficient limit differs from the unlimited tree"
     ELSE IF c.ok0 /\ ~fits /\ ~a.hit THEN "over-limit input failed without the limit check firing"
     \* (an input that does not parse anyway may end in the limit error instead of its syntax error when
     \* the parser consumes the end-of-input token while recovering: the statement only says it fails)
     ELSE IF c.ok0 /\ fits /\ a.hit THEN "limit check fired although the input parses and fits"
     ELSE IF c.limit # 0 /\ c.alloc > AllocBase + AllocPerToken * Budget(c.limit)
          THEN "memory allocated under the limit follows the input size: " \o ToString(c.alloc) \o " bytes under limit " \o ToString(c.limit)
     ELSE "ok"

Verdict(c) == IF c.multi THEN MultiVerdict(c) ELSE SingleVerdict(c)

Init == i = 0 /\ bad = <<>> /\ n = 0
Check == /\ i < Len(Cases)
         /\ i' = i + 1
         /\ LET c == Cases[i + 1]
                v == Verdict(c)
            IN /\ bad' = IF v = "ok" \/ Len(bad) >= 100 THEN bad ELSE Append(bad, [id |-> c.id, class |-> v])
               /\ n' = n + Len(c.events)
Finish == /\ i = Len(Cases)
          /\ i' = i + 1
          /\ ndJsonSerialize(IOEnv.VERIF_REPORT, <<[cases |-> i, events |-> n, bad |-> bad]>>)
          /\ UNCHANGED <<bad, n>>
Next == Check \/ Finish
Spec == Init /\ [][Next]_vars
=============================================================================
