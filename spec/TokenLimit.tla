----------------------------- MODULE TokenLimit -----------------------------
(* The parser's token budget: peek / next / comment-group consumption over  *)
(* an abstract token stream, with the limit check placed as the property    *)
(* requires (count first, compare, only then consume).                      *)
(*                                                                          *)
(* toks is a sequence over {"tok", "comment", "bad"}; reading past its end  *)
(* yields "EOF" (repeatably).  A "bad" token is a lexical error.            *)
(* The machine state s:                                                     *)
(*   lexed   number of lexer calls so far (the work done on the input)      *)
(*   pos     index of the next token to lex                                 *)
(*   peeked / peekKind   the look-ahead token, if any                       *)
(*   count   tokens consumed so far (comments included, EOF included only   *)
(*           if a caller consumes it)                                       *)
(*   err     "none", "limit" (budget exceeded) or "lex"; sticky             *)
(*   consuming  inside comment-group consumption (re-entrancy guard)        *)
(***************************************************************************)
EXTENDS Integers, Sequences, FiniteSets

At(toks, i) == IF i <= Len(toks) THEN toks[i] ELSE "EOF"

S0 == [lexed |-> 0, pos |-> 1, peeked |-> FALSE, peekKind |-> "", prev |-> "",
       count |-> 0, err |-> "none", consuming |-> FALSE]

LexOne(s, toks) == [s EXCEPT !.lexed = s.lexed + 1,
                             !.pos = IF s.pos <= Len(toks) THEN s.pos + 1 ELSE s.pos]

RECURSIVE DoPeek(_, _, _), DoNext(_, _, _), ConsumeGroup(_, _, _)

\* parser.peek
DoPeek(s, toks, limit) ==
  IF s.err # "none" \/ s.peeked THEN s
  ELSE LET k  == At(toks, s.pos)
           s1 == [LexOne(s, toks) EXCEPT !.peeked = TRUE, !.peekKind = k]
       IN IF k = "comment" THEN ConsumeGroup(s1, toks, limit) ELSE s1

\* parser.next
DoNext(s, toks, limit) ==
  IF s.err # "none" THEN s
  ELSE LET s1 == [s EXCEPT !.count = s.count + 1] IN
       IF limit # 0 /\ s1.count > limit THEN [s1 EXCEPT !.err = "limit"]
       ELSE IF s1.peeked
            THEN [s1 EXCEPT !.peeked = FALSE, !.prev = s1.peekKind,
                            !.err = IF s1.peekKind = "bad" THEN "lex" ELSE "none"]
            ELSE LET k  == At(toks, s1.pos)
                     s2 == [LexOne(s1, toks) EXCEPT !.prev = k, !.err = IF k = "bad" THEN "lex" ELSE "none"]
                 IN IF k = "comment" THEN ConsumeGroup(s2, toks, limit) ELSE s2

\* parser.consumeCommentGroup: consume comments while the look-ahead is one
ConsumeGroup(s, toks, limit) ==
  IF s.err # "none" \/ s.consuming THEN s
  ELSE LET RECURSIVE Loop(_)
              Loop(st) ==
                IF st.err # "none" THEN st
                ELSE LET p == DoPeek(st, toks, limit) IN
                     IF p.err # "none" \/ p.peekKind # "comment" THEN p
                     ELSE Loop(DoNext(p, toks, limit))
       IN [Loop([s EXCEPT !.consuming = TRUE]) EXCEPT !.consuming = FALSE]

NTokens(toks) == Len(toks)   \* comments counted, EOF not counted
=============================================================================
