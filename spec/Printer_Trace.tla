----------------------------- MODULE Printer_Trace -----------------------------
(* C->M for the format round trips (C12, C13).  A case:                          *)
(*   kind   "query" | "schemadoc" | "schema"                                     *)
(*   tree   the document that was formatted (generic tree, leaf texts as code    *)
(*          points): projection of the parsed document                           *)
(*   t1     the formatted text (code points);  d1 = projection of the real       *)
(*          re-parse of t1 (empty with reparsed = FALSE when it failed)          *)
(*   t2     the text obtained by formatting the re-parsed document again         *)
(*   loaded / reloaded  (kind "schema") canonical projections of the loaded      *)
(*          schema before formatting and after loading the formatted text        *)
(* Requirements: the specification's own parser reads t1 as tree; the library's  *)
(* re-parse equals tree; t2 = t1; for loaded schemas reloaded = loaded.          *)
EXTENDS Printer, TLC, Json, IOUtils

Cases == ndJsonDeserialize(IOEnv.VERIF_TRACE)
VARIABLES i, bad, n
vars == <<i, bad, n>>

CONSTANT PrinterDevs
Norm(c, tree) == IF c.kind = "schemadoc" THEN MergeSchemaItems(tree) ELSE tree
\* Dev ArgSeparatorWithoutDescription: with descriptions switched off the
\* formatter leaves out the comma after an argument definition that HAS a
\* description; the re-parsed document has none, so the second text has the
\* comma.  Only for cases the harness flags (argsep) and only modulo commas.
NoCommas(t) == SelectSeq(t, LAMBDA x : x # 44)
SameText(c, a, b) == IF "ArgSeparatorWithoutDescription" \in PrinterDevs /\ c.argsep THEN NoCommas(a) = NoCommas(b) ELSE a = b

\* Dev SchemaDescriptionDropped: FormatSchema never prints the description of
\* the schema definition; the reloaded schema then has exactly none.
ExpectLoaded(c) == IF "SchemaDescriptionDropped" \in PrinterDevs THEN [c.loaded EXCEPT !.desc = <<>>] ELSE c.loaded

Verdict(c) ==
  LET sp == IF c.kind = "query" THEN SpecParseQuery(c.t1) ELSE SpecParseSchema(c.t1, {c.locs[j] : j \in 1..Len(c.locs)}) IN
  IF ~sp.ok THEN [class |-> "formatted text " \o sp.why, tree |-> <<>>]
  ELSE IF c.kind # "schema" /\ Norm(c, sp.tree) # c.tree THEN [class |-> "formatted text denotes a different document (specification's parser)", tree |-> sp.tree]
  ELSE IF ~c.reparsed THEN [class |-> "the library does not parse its own formatted text", tree |-> <<>>]
  ELSE IF c.kind # "schema" /\ c.d1 # c.tree THEN [class |-> "re-parsed document differs from the formatted one", tree |-> <<>>]
  ELSE IF ~SameText(c, c.t1, c.t2) THEN [class |-> "formatting the re-parsed document gives a different text (not a fixpoint)", tree |-> <<>>]
  ELSE IF c.kind = "schema" /\ c.reloaded # ExpectLoaded(c) THEN [class |-> "schema loaded from the formatted text differs from the formatted schema", tree |-> <<>>]
  ELSE [class |-> "ok", tree |-> <<>>]

Init == i = 0 /\ bad = <<>> /\ n = 0
Check == /\ i < Len(Cases)
         /\ i' = i + 1
         /\ LET c == Cases[i + 1]
                v == Verdict(c)
            IN /\ bad' = IF v.class = "ok" \/ Len(bad) >= 100 THEN bad ELSE Append(bad, [id |-> c.id, class |-> v.class, tree |-> v.tree])
               /\ n' = n + Len(c.t1)
Finish == /\ i = Len(Cases)
          /\ i' = i + 1
          /\ ndJsonSerialize(IOEnv.VERIF_REPORT, <<[cases |-> i, events |-> n, bad |-> bad]>>)
          /\ UNCHANGED <<bad, n>>
Next == Check \/ Finish
Spec == Init /\ [][Next]_vars
=============================================================================
