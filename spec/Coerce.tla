------------------------------- MODULE Coerce -------------------------------
(***************************************************************************)
(* CoerceVariableValues (GraphQL October 2021, section 6.1.2 with the      *)
(* input coercion rules of section 3) over JSON-like values.               *)
(*                                                                         *)
(* Values   V(k, i, s, items, ents) with k in                              *)
(*   "null" "bool" "int" "float" "str" "num" (a json.Number with text s)   *)
(*   "list" (items) "map" (ents = sequence of [key, v])                    *)
(* Types    [k |-> "named", name, nn]  |  [k |-> "list", of, nn]           *)
(* Schema   built-in scalars Int Float String Boolean ID, enum E, custom   *)
(*          scalar Any, recursive input object In (see Fields).           *)
(*                                                                         *)
(* "Compatible kind" for built-in scalars is the documented table of the   *)
(* library (DESIGN.md appendix B):  Int <- int, float, decimal string;     *)
(* Float <- float, int, float-parsable string; String <- string kinds;     *)
(* Boolean <- bool; ID <- int, string kinds; custom <- anything; enum <-   *)
(* a string equal to a declared value.  A json.Number is a string kind,    *)
(* except at the top level for Int / Float where it must parse and is      *)
(* converted.                                                              *)
(***************************************************************************)
EXTENDS Integers, Sequences, FiniteSets, SequencesExt

CONSTANT Devs

V(k, i, s, items, ents) == [k |-> k, i |-> i, s |-> s, items |-> items, ents |-> ents]
VNull      == V("null", 0, "", <<>>, <<>>)
VBool(b)   == V("bool", IF b THEN 1 ELSE 0, "", <<>>, <<>>)
VInt(n)    == V("int", n, "", <<>>, <<>>)
VFloat(s)  == V("float", 0, s, <<>>, <<>>)     \* s = decimal text of the float
VStr(s)    == V("str", 0, s, <<>>, <<>>)
VNum(s)    == V("num", 0, s, <<>>, <<>>)
VList(xs)  == V("list", 0, "", xs, <<>>)
VMap(es)   == V("map", 0, "", <<>>, es)
Ent(key, v) == [key |-> key, v |-> v]

Named(n, nn) == [k |-> "named", name |-> n, nn |-> nn, of |-> <<>>]
ListOf(t, nn) == [k |-> "list", name |-> "", nn |-> nn, of |-> <<t>>]
Elem(t) == t.of[1]

\* the string universe of the bounded model and which of its members parse as numbers
IntStrings   == {"12", "-3", "7"}
\* ("float-parsable" is the host language's float syntax, which allows digit-separating underscores:
\* "1_000" is a Float string although it is no Int string; "0x1F" is neither)
FloatStrings == IntStrings \cup {"1.5", "1e3", "1_000"}
\* the values of enum E in the schema at hand; the switch SCHEMA2 (carried in Devs with the
\* deviations, it is a configuration, not a deviation) selects a second schema with the same
\* type names in which E has one value only
EnumValues   == IF "SCHEMA2" \in Devs THEN {"RED"} ELSE {"RED", "GREEN"}
IntOf(s) == CASE s = "12" -> 12 [] s = "-3" -> 0 - 3 [] s = "7" -> 7 [] OTHER -> 0
Lower(s) == CASE s = "RED" -> "red" [] s = "GREEN" -> "green" [] OTHER -> s

\* A key "__typename" in an input object is tolerated whatever its value (clients that echo a
\* response object back as input) and stays in the coerced value; it stands for no field.
\* input object In: a: Int!   b: [In]   c: E = RED   d: String! = "dflt"   (d has a default: not required)   e: [[Int]]
FieldNames == <<"a", "b", "c", "d", "e">>
FieldType(f) == CASE f = "a" -> Named("Int", TRUE)
                  [] f = "b" -> ListOf(Named("In", FALSE), FALSE)
                  [] f = "c" -> Named("E", FALSE)
                  [] f = "d" -> Named("String", TRUE)
                  [] f = "e" -> ListOf(ListOf(Named("Int", FALSE), FALSE), FALSE)
HasDefault(f) == f \in {"c", "d"}
IsField(f) == f \in {"a", "b", "c", "d", "e"}

Lookup(es, key) == LET idx == {j \in 1..Len(es) : es[j].key = key}
                   IN IF idx = {} THEN <<>> ELSE <<es[CHOOSE j \in idx : TRUE].v>>

Fail == [ok |-> FALSE, val |-> VNull]
Ok(v) == [ok |-> TRUE, val |-> v]

StringKind(v) == v.k \in {"str", "num"}

\* scalar / enum leaf; top says the value sits directly in the variables map
Leaf(name, v, top) ==
  CASE name = "Int" ->
         IF v.k = "num" /\ top THEN (IF v.s \in IntStrings THEN Ok(VInt(IntOf(v.s))) ELSE Fail)   \* converted to an integer
         ELSE IF v.k \in {"int", "float"} \/ (StringKind(v) /\ v.s \in IntStrings) THEN Ok(v) ELSE Fail
    [] name = "Float" ->
         IF v.k = "num" /\ top THEN (IF v.s \in FloatStrings THEN Ok(VFloat(v.s)) ELSE Fail)
         ELSE IF v.k \in {"int", "float"} \/ (StringKind(v) /\ v.s \in FloatStrings) THEN Ok(v) ELSE Fail
    [] name = "String"  -> IF StringKind(v) THEN Ok(v) ELSE Fail
    [] name = "Boolean" -> IF v.k = "bool" THEN Ok(v) ELSE Fail
    [] name = "ID"      -> IF v.k = "int" \/ StringKind(v) THEN Ok(v) ELSE Fail
    [] name = "Any"     -> Ok(v)
    [] name = "E"       -> IF StringKind(v) /\ (v.s \in EnumValues
                                                \/ ("EnumFold" \in Devs /\ \E e \in EnumValues : Lower(e) = Lower(v.s)))
                           THEN Ok(v) ELSE Fail
    [] OTHER -> Fail

RECURSIVE Coerce(_, _, _)
Coerce(T, v, top) ==
  IF v.k = "null" THEN (IF T.nn THEN Fail ELSE Ok(VNull))
  ELSE IF T.k = "list" THEN
    IF v.k = "list"
    THEN LET rs == [j \in 1..Len(v.items) |-> Coerce(Elem(T), v.items[j], FALSE)]
         IN IF \E j \in 1..Len(rs) : ~rs[j].ok THEN Fail
            ELSE Ok(VList([j \in 1..Len(rs) |-> rs[j].val]))
    ELSE LET r == Coerce(Elem(T), v, FALSE)      \* a single value is coerced to a list of one item
         IN IF r.ok THEN Ok(VList(<<r.val>>)) ELSE Fail
  ELSE IF T.name = "In" THEN
    IF v.k # "map" THEN Fail
    ELSE IF \E j \in 1..Len(v.ents) : ~IsField(v.ents[j].key) /\ v.ents[j].key # "__typename" THEN Fail
    ELSE LET chk(f) == LET x == Lookup(v.ents, f) IN
                       IF x = <<>> THEN (IF FieldType(f).nn /\ ~HasDefault(f) THEN Fail ELSE Ok(VNull))
                       ELSE Coerce(FieldType(f), x[1], FALSE)
         IN IF \E j \in 1..Len(FieldNames) : ~chk(FieldNames[j]).ok THEN Fail
            ELSE Ok(VMap([j \in 1..Len(v.ents) |->
                            IF v.ents[j].key = "__typename" THEN v.ents[j]      \* tolerated and left as it is
                            ELSE Ent(v.ents[j].key, chk(v.ents[j].key).val)]))
  ELSE Leaf(T.name, v, top)

(* A variable definition [T, def (<<>> or <<value>>)] and a variables map   *)
(* entry (<<>> absent or <<value>>): section 6.1.2.                        *)
CoerceVar(T, def, given) ==
  IF given = <<>>
  THEN IF def # <<>> THEN [ok |-> TRUE, present |-> TRUE, val |-> Coerce(T, def[1], FALSE).val]
       ELSE IF T.nn THEN [ok |-> FALSE, present |-> FALSE, val |-> VNull]
       ELSE [ok |-> TRUE, present |-> FALSE, val |-> VNull]
  ELSE LET r == Coerce(T, given[1], TRUE) IN [ok |-> r.ok, present |-> r.ok, val |-> r.val]

\* v conforms to T (what an executor may assume about a coerced value)
RECURSIVE Conforms(_, _)
Conforms(T, v) ==
  IF v.k = "null" THEN ~T.nn
  ELSE IF T.k = "list" THEN v.k = "list" /\ \A j \in 1..Len(v.items) : Conforms(Elem(T), v.items[j])
  ELSE IF T.name = "In" THEN
    /\ v.k = "map"
    /\ \A j \in 1..Len(v.ents) : v.ents[j].key = "__typename"
                                    \/ (IsField(v.ents[j].key) /\ Conforms(FieldType(v.ents[j].key), v.ents[j].v))
    /\ \A j \in 1..Len(FieldNames) :
         (FieldType(FieldNames[j]).nn /\ ~HasDefault(FieldNames[j])) => Lookup(v.ents, FieldNames[j]) # <<>>
  ELSE Leaf(T.name, v, FALSE).ok
=============================================================================
