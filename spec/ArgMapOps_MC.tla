---------------------------- MODULE ArgMapOps_MC ----------------------------
(* Two operations of one document share a fragment that passes the variable *)
(* $p as an argument: operation 1 declares $p: Int, operation 2 declares    *)
(* $p: Int = 9.  The argument map of the fragment's field is a function of  *)
(* the operation being executed (its variable definitions and the supplied  *)
(* values), whatever the other operation declares and in whichever order    *)
(* the operations stand.  One row per (operation, supplied $p, argument     *)
(* written as $p, [$p] or {x: $p}); every row is printed and replayed.      *)
EXTENDS ArgMap, TLC, Json

VarDefsOf(op) == IF op = 1 THEN << [name |-> "p", def |-> <<>>] >> ELSE << [name |-> "p", def |-> <<VInt(9)>>] >>
Supply(name) == { <<>>, <<[name |-> name, v |-> VNull]>>, <<[name |-> name, v |-> VInt(5)]>> }
ArgDefault(a) == IF a = "d" THEN <<VInt(7)>> ELSE <<>>
Uses(a) == CASE a \in {"i", "d"} -> { <<VVar("p")>> }
             [] a = "l" -> { <<VList(<<VVar("p")>>)>> }
             [] a = "o" -> { <<VMap(<<Ent("x", VVar("p"))>>)>> }

VARIABLES op, arg, use, sp
vars == <<op, arg, use, sp>>
Init == /\ op \in {1, 2} /\ arg \in {"i", "d", "l", "o"} /\ use \in Uses(arg) /\ sp \in Supply("p")
Next == UNCHANGED vars
Spec == Init /\ [][Next]_vars

CVars == CoercedVars(VarDefsOf(op), sp)
Exp == ArgValue(ArgDefault(arg), use, CVars)
Emit == PrintT(<<"CASE", ToJson([op |-> op, arg |-> arg, use |-> use, supplied |-> sp, cvars |-> CVars, exp |-> Exp])>>)

\* the other operation's declaration is irrelevant: with the variable absent, operation 1 never sees the value 9
Isolation == (op = 1 /\ sp = <<>>) => (~HasVar(CVars, "p") /\ (Exp.present => Exp.val # VInt(9)))
=============================================================================
