SPECIFICATION Spec
CONSTANTS
  Devs = {}
  MaxTok = 6
INVARIANTS Nesting NoVariables TypeOK
CHECK_DEADLOCK FALSE
