-------------------------------- MODULE Shared --------------------------------
(* One loaded schema shared by N goroutines.  Every operation (validate a    *)
(* document, coerce variables, resolve arguments, format the schema) is a     *)
(* sequence of steps that READ the schema and compute a result from what was  *)
(* read.  If no step writes, the schema never changes and every operation     *)
(* returns what it returns when run alone, whatever the interleaving.  The    *)
(* constant Writer names an operation that (wrongly) caches something on the  *)
(* schema, to show the invariants are not vacuous.                            *)
EXTENDS Integers, Sequences, FiniteSets
CONSTANTS G, Ops, Steps, Writer
VARIABLES schema, pc, acc, res, op
vars == <<schema, pc, acc, res, op>>

Schema0 == [data |-> 7, memo |-> 0]
\* what one step reads: the data, and (for the faulty writer) a memo left on the schema
ReadStep(s, o) == s.data + (IF o = Writer THEN s.memo ELSE 0)
Sequential(o) == Steps * Schema0.data            \* result of o run alone on the pristine schema

Init == /\ schema = Schema0
        /\ pc = [g \in G |-> 0] /\ acc = [g \in G |-> 0] /\ res = [g \in G |-> -1]
        /\ op \in [G -> Ops]
Step(g) == /\ pc[g] < Steps
           /\ acc' = [acc EXCEPT ![g] = @ + ReadStep(schema, op[g])]
           /\ pc' = [pc EXCEPT ![g] = @ + 1]
           /\ schema' = IF op[g] = Writer THEN [schema EXCEPT !.memo = 1] ELSE schema
           /\ UNCHANGED <<res, op>>
Finish(g) == /\ pc[g] = Steps /\ res[g] = -1
             /\ res' = [res EXCEPT ![g] = acc[g]]
             /\ UNCHANGED <<schema, pc, acc, op>>
Next == \E g \in G : Step(g) \/ Finish(g)
Spec == Init /\ [][Next]_vars

ReadOnly == schema = Schema0
SameAsAlone == \A g \in G : res[g] # -1 => res[g] = Sequential(op[g])
=============================================================================
